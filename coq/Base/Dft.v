(* Discrete Fourier transforms over Coquelicot's C: the geometric-sum keystone,
   the half-plane model of jnp.fft.irfft2 / rfft2 and the total-flux (DC) theorems. *)
From Coq Require Import Reals Lra Lia Arith.
From Coquelicot Require Import Coquelicot.
Open Scope C_scope.

(* sum over k = 0 .. n-1 *)
Fixpoint csum (f : nat -> C) (n : nat) : C :=
  match n with O => 0 | S m => csum f m + f m end.

Lemma csum_ext f g n : (forall k, (k < n)%nat -> f k = g k) -> csum f n = csum g n.
Proof. induction n as [|n IH]; intros H; simpl; [reflexivity|]. rewrite IH, H; auto. Qed.

Lemma csum_scal a f n : csum (fun k => a * f k) n = a * csum f n.
Proof. induction n as [|n IH]; simpl; [ring|rewrite IH; ring]. Qed.

Lemma csum_plus f g n : csum (fun k => f k + g k) n = csum f n + csum g n.
Proof. induction n as [|n IH]; simpl; [ring|rewrite IH; ring]. Qed.

Lemma csum_zero n : csum (fun _ => 0) n = 0.
Proof. induction n as [|n IH]; simpl; [reflexivity|rewrite IH; ring]. Qed.

Lemma csum_const c n : csum (fun _ => c) n = INR n * c.
Proof.
  induction n as [|n IH]; [simpl; ring|]. cbn [csum]. rewrite IH, S_INR, RtoC_plus. ring.
Qed.

Lemma csum_swap f n m : csum (fun i => csum (fun j => f i j) m) n = csum (fun j => csum (fun i => f i j) n) m.
Proof.
  induction n as [|n IH]; simpl.
  - rewrite csum_zero. reflexivity.
  - rewrite IH, <- csum_plus. reflexivity.
Qed.

Fixpoint Cpow (z : C) (n : nat) : C := match n with O => 1 | S m => z * Cpow z m end.
Notation "z ^^ n" := (Cpow z n) (at level 30, right associativity) : C_scope.

Lemma Cpow_add z a b : z ^^ (a + b) = z ^^ a * z ^^ b.
Proof. induction a as [|a IH]; simpl; [ring|rewrite IH; ring]. Qed.

Lemma Cpow_mul z a b : z ^^ (a * b) = (z ^^ a) ^^ b.
Proof.
  induction b as [|b IH]; [rewrite Nat.mul_0_r; reflexivity|].
  rewrite Nat.mul_succ_r, Cpow_add, IH. simpl. ring.
Qed.

Lemma Cpow_1_l n : (1 : C) ^^ n = 1.
Proof. induction n as [|n IH]; simpl; [reflexivity|rewrite IH; ring]. Qed.

(* (z - 1) * sum_{k<n} z^k = z^n - 1 *)
Lemma geom_telescope z n : (z - 1) * csum (fun k => z ^^ k) n = z ^^ n - 1.
Proof. induction n as [|n IH]; simpl; [ring|]. rewrite Cmult_plus_distr_l, IH. ring. Qed.

Section RootOfUnity.
  Variable N : nat.
  Variable w : C.
  Hypothesis HN : (0 < N)%nat.
  Hypothesis Hw : w ^^ N = 1.
  Hypothesis Hprim : forall k, (0 < k < N)%nat -> w ^^ k <> 1.

  (* sum_{k<N} w^(d k) = N if d = 0, 0 if 0 < d < N *)
  Lemma geom_zero d : (0 < d < N)%nat -> csum (fun k => w ^^ (d * k)) N = 0.
  Proof.
    intros Hd.
    assert (E : csum (fun k => w ^^ (d * k)) N = csum (fun k => (w ^^ d) ^^ k) N).
    { apply csum_ext. intros k _. apply Cpow_mul. }
    rewrite E.
    pose proof (geom_telescope (w ^^ d) N) as T.
    assert (Hone : (w ^^ d) ^^ N = 1).
    { rewrite <- Cpow_mul, Nat.mul_comm, Cpow_mul, Hw. apply Cpow_1_l. }
    rewrite Hone in T. replace (1 - 1) with (0 : C) in T by ring.
    destruct (Ceq_dec (csum (fun k => (w ^^ d) ^^ k) N) 0) as [Z|NZ]; [assumption|].
    exfalso. assert (Hd1 : w ^^ d - 1 <> 0).
    { intros H. apply (Hprim d Hd). replace (w ^^ d) with (w ^^ d - 1 + 1) by ring. rewrite H. ring. }
    apply (Cmult_neq_0 _ _ Hd1 NZ). assumption.
  Qed.

  Lemma geom_full : csum (fun k => w ^^ (0 * k)) N = INR N.
  Proof.
    rewrite (csum_ext _ (fun _ => 1)); [|intros; reflexivity].
    rewrite csum_const. ring.
  Qed.
End RootOfUnity.

(* ---------- the primitive N-th root of unity exp(2 pi i / N) ---------- *)

Definition cis (t : R) : C := (cos t, sin t).

Lemma Cpow_cis t k : cis t ^^ k = cis (INR k * t).
Proof.
  induction k as [|k IH].
  - simpl. unfold cis. rewrite Rmult_0_l, cos_0, sin_0. reflexivity.
  - cbn [Cpow]. rewrite IH. unfold cis, Cmult. cbn [fst snd].
    rewrite S_INR. replace ((INR k + 1) * t)%R with (t + INR k * t)%R by ring.
    rewrite cos_plus, sin_plus. f_equal; ring.
Qed.

Definition wN (N : nat) : C := cis (2 * PI / INR N).

Lemma wN_pow_N N : (0 < N)%nat -> wN N ^^ N = 1.
Proof.
  intros H. unfold wN. rewrite Cpow_cis.
  replace (INR N * (2 * PI / INR N))%R with (2 * PI)%R by (field; apply not_0_INR; lia).
  unfold cis. rewrite cos_2PI, sin_2PI. reflexivity.
Qed.

Lemma cos_lt_1 x : (0 < x < 2 * PI)%R -> (cos x <> 1)%R.
Proof.
  intros [H0 H1] Hc.
  assert (Hs : (0 < sin (x / 2))%R) by (apply sin_gt_0; lra).
  pose proof (cos_2a_sin (x / 2)) as E. replace (2 * (x / 2))%R with x in E by field.
  rewrite Hc in E. nra.
Qed.

Lemma wN_primitive N k : (0 < k < N)%nat -> wN N ^^ k <> 1.
Proof.
  intros [H0 H1] E. unfold wN in E. rewrite Cpow_cis in E. unfold cis in E.
  apply (f_equal fst) in E. cbn [fst] in E. change (fst (RtoC 1)) with 1%R in E. revert E. apply cos_lt_1.
  assert (HN : (0 < INR N)%R) by (apply lt_0_INR; lia).
  assert (Hk : (0 < INR k)%R) by (apply lt_0_INR; lia).
  assert (Hkn : (INR k < INR N)%R) by (apply lt_INR; assumption).
  pose proof PI_RGT_0 as Hpi. split.
  - apply Rmult_lt_0_compat; [assumption|]. apply Rdiv_lt_0_compat; lra.
  - replace (INR k * (2 * PI / INR N))%R with (2 * PI * (INR k / INR N))%R by (field; lra).
    rewrite <- (Rmult_1_r (2 * PI)) at 2. apply Rmult_lt_compat_l; [lra|].
    apply (Rmult_lt_reg_r (INR N)); [assumption|]. unfold Rdiv. rewrite Rmult_assoc, Rinv_l by lra. lra.
Qed.

(* ---------- totals ---------- *)

Section Totals.
  Variable N : nat.
  Hypothesis HN : (0 < N)%nat.
  Let w := wN N.

  Lemma delta_sum k : (k < N)%nat -> csum (fun r => w ^^ (k * r)) N = if Nat.eqb k 0 then INR N else 0.
  Proof.
    intros Hk. destruct (Nat.eqb_spec k 0) as [->|Hne].
    - apply geom_full.
    - apply (geom_zero N w); [apply wN_pow_N; assumption|intros j Hj; apply wN_primitive; assumption|lia].
  Qed.

  Lemma csum_pick (f : nat -> C) (a : C) :
    csum (fun k => f k * (if Nat.eqb k 0 then a else 0)) N = f 0%nat * a.
  Proof.
    destruct N as [|n]; [lia|]. clear HN w.
    induction n as [|n IH].
    - simpl. ring.
    - cbn [csum] in *. rewrite IH. cbn [Nat.eqb]. ring.
  Qed.

  (* half-plane inverse transform, as jnp.fft.irfft2(F, s = (N, N)) computes it from F[ky, kx], kx = 0 .. N/2:
     complex inverse FFT along ky, then C2R along kx (real parts of the kx = 0 and Nyquist columns,
     twice the real part of the columns 0 < kx < N/2).  T is the complex number whose real part / N^2 is the pixel. *)
  Definition half := ((N - 1) / 2)%nat.     (* number of columns with 0 < kx < N/2 *)

  Definition irfft2_T (F : nat -> nat -> C) (r c : nat) : C :=
    csum (fun ky => F ky 0%nat * w ^^ (ky * r)) N +
    2 * csum (fun j => csum (fun ky => F ky (S j) * w ^^ (ky * r)) N * w ^^ (S j * c)) half +
    (if Nat.even N then csum (fun ky => F ky (N / 2)%nat * w ^^ (ky * r)) N * w ^^ ((N / 2) * c) else 0).

  Definition irfft2 (F : nat -> nat -> C) (r c : nat) : R := (Re (irfft2_T F r c) / (INR N * INR N))%R.

  Lemma half_lt j : (j < half)%nat -> (0 < S j < N)%nat.
  Proof.
    unfold half. intros H. split; [lia|].
    assert ((N - 1) / 2 * 2 <= N - 1)%nat by (rewrite Nat.mul_comm; apply Nat.mul_div_le; lia). lia.
  Qed.

  Lemma nyquist_lt : Nat.even N = true -> (0 < N / 2 < N)%nat.
  Proof.
    intros He. apply Nat.even_spec in He. destruct He as [m ->].
    replace (2 * m / 2)%nat with m by (symmetry; rewrite Nat.mul_comm; apply Nat.div_mul; lia). lia.
  Qed.

  (* sum over all pixels of the complex pre-image = N^2 * F[0,0] *)
  Theorem irfft2_T_total F :
    csum (fun r => csum (fun c => irfft2_T F r c) N) N = INR N * INR N * F 0%nat 0%nat.
  Proof.
    unfold irfft2_T.
    assert (Hc : forall r, csum (fun c => csum (fun ky => F ky 0%nat * w ^^ (ky * r)) N +
        2 * csum (fun j => csum (fun ky => F ky (S j) * w ^^ (ky * r)) N * w ^^ (S j * c)) half +
        (if Nat.even N then csum (fun ky => F ky (N / 2)%nat * w ^^ (ky * r)) N * w ^^ (N / 2 * c) else 0)) N
        = INR N * csum (fun ky => F ky 0%nat * w ^^ (ky * r)) N).
    { intros r. rewrite !csum_plus. rewrite csum_const.
      assert (H2 : csum (fun c => 2 * csum (fun j => csum (fun ky => F ky (S j) * w ^^ (ky * r)) N * w ^^ (S j * c)) half) N = 0).
      { rewrite csum_scal. rewrite csum_swap.
        rewrite (csum_ext _ (fun _ => 0)); [rewrite csum_zero; ring|].
        intros j Hj. rewrite csum_scal. rewrite (delta_sum (S j)); [|apply half_lt in Hj; lia]. cbn [Nat.eqb]. ring. }
      assert (H3 : csum (fun c => if Nat.even N then csum (fun ky => F ky (N / 2)%nat * w ^^ (ky * r)) N * w ^^ (N / 2 * c) else 0) N = 0).
      { destruct (Nat.even N) eqn:He; [|apply csum_zero].
        rewrite csum_scal. pose proof (nyquist_lt He) as Hq. rewrite (delta_sum (N / 2)%nat) by lia.
        destruct (Nat.eqb_spec (N / 2) 0); [lia|]. ring. }
      rewrite H2, H3. ring. }
    rewrite (csum_ext _ _ N (fun r _ => Hc r)).
    rewrite csum_scal, csum_swap.
    rewrite (csum_ext _ (fun ky => F ky 0%nat * (if Nat.eqb ky 0 then INR N else 0))).
    - rewrite csum_pick. ring.
    - intros ky Hky. rewrite csum_scal, (delta_sum ky Hky). reflexivity.
  Qed.
End Totals.

(* ---------- 1-D transform pair on Z_N: inversion and the convolution theorem ---------- *)

Lemma csum_shift1 (f : nat -> C) n : csum (fun x => f (S x)) n + f 0%nat = csum f (S n).
Proof. induction n as [|n IH]; [simpl; ring|]. cbn [csum] in *. rewrite <- IH. ring. Qed.

Section Transform.
  Variable N : nat.
  Hypothesis HN : (0 < N)%nat.
  Let w := wN N.

  Lemma wNN : w ^^ N = 1.
  Proof. apply wN_pow_N. assumption. Qed.

  Lemma w_period a : w ^^ (a + N) = w ^^ a.
  Proof. rewrite Cpow_add, wNN. ring. Qed.

  Lemma w_mult_N a q : w ^^ (a + q * N) = w ^^ a.
  Proof.
    induction q as [|q IH]; [rewrite Nat.add_0_r; reflexivity|].
    replace (a + S q * N)%nat with (a + q * N + N)%nat by lia. rewrite w_period. exact IH.
  Qed.

  Lemma w_mod a : w ^^ a = w ^^ (a mod N).
  Proof.
    rewrite (Nat.div_mod a N) at 1 by lia. rewrite Nat.add_comm, Nat.mul_comm. apply w_mult_N.
  Qed.

  Lemma w_one_iff a : w ^^ a = 1 <-> a mod N = 0%nat.
  Proof.
    rewrite w_mod. assert (Hlt : (a mod N < N)%nat) by (apply Nat.mod_upper_bound; lia).
    split.
    - intros H. destruct (Nat.eq_dec (a mod N) 0) as [E|E]; [assumption|].
      exfalso. apply (wN_primitive N (a mod N)); [lia|assumption].
    - intros ->. reflexivity.
  Qed.

  (* sum_{k<N} w^(k d) = N if N | d, else 0 *)
  Lemma geom_any d : csum (fun k => w ^^ (k * d)) N = if Nat.eqb (d mod N) 0 then INR N else 0.
  Proof.
    rewrite (csum_ext _ (fun k => w ^^ ((d mod N) * k))).
    2:{ intros k _. rewrite (Nat.mul_comm k d), Cpow_mul, (w_mod d), <- Cpow_mul. reflexivity. }
    apply delta_sum; [assumption|]. apply Nat.mod_upper_bound. lia.
  Qed.

  (* forward transform with exp(-2 pi i k x / N) = w^((N-1) k x), inverse with w^(k x) / N *)
  Definition dft (a : nat -> C) (k : nat) : C := csum (fun x => a x * w ^^ ((N - 1) * (k * x))) N.
  Definition idft (A : nat -> C) (x : nat) : C := / INR N * csum (fun k => A k * w ^^ (k * x)) N.

  Lemma kernel_match x y : (x < N)%nat -> (y < N)%nat -> ((x + (N - 1) * y) mod N = 0)%nat <-> x = y.
  Proof.
    intros Hx Hy. destruct y as [|y].
    - rewrite Nat.mul_0_r, Nat.add_0_r, Nat.mod_small by lia. reflexivity.
    - replace (x + (N - 1) * S y)%nat with ((x + (N - S y)) + y * N)%nat by nia.
      rewrite Nat.mod_add by lia.
      split.
      + intros H. destruct (Nat.lt_ge_cases (x + (N - S y)) N) as [L|G].
        * rewrite Nat.mod_small in H by lia. lia.
        * assert (E : ((x + (N - S y)) mod N = x + (N - S y) - N)%nat).
          { replace (x + (N - S y))%nat with ((x + (N - S y) - N) + 1 * N)%nat at 1 by lia. rewrite Nat.mod_add by lia. apply Nat.mod_small. lia. }
          rewrite E in H. lia.
      + intros ->. replace (S y + (N - S y))%nat with (0 + 1 * N)%nat by lia. rewrite Nat.mod_add by lia. apply Nat.mod_small. lia.
  Qed.

  Lemma csum_pick_at (f : nat -> C) (a : C) x n : (x < n)%nat ->
    csum (fun y => f y * (if Nat.eqb y x then a else 0)) n = f x * a.
  Proof.
    induction n as [|n IH]; intros Hx; [lia|].
    cbn [csum]. destruct (Nat.eq_dec x n) as [->|Hne].
    - rewrite Nat.eqb_refl. rewrite (csum_ext _ (fun _ => 0)); [rewrite csum_zero; ring|].
      intros y Hy. destruct (Nat.eqb_spec y n); [lia|ring].
    - rewrite IH by lia. destruct (Nat.eqb_spec n x); [lia|ring].
  Qed.

  (* the inverse transform recovers the signal *)
  Theorem idft_dft a x : (x < N)%nat -> idft (dft a) x = a x.
  Proof.
    intros Hx. unfold idft, dft.
    assert (Hn : (INR N : C) <> 0) by (intros E; apply (f_equal fst) in E; cbn in E; apply (not_0_INR N); [lia|assumption]).
    rewrite (csum_ext _ (fun k => csum (fun y => a y * w ^^ (k * (x + (N - 1) * y))) N)).
    2:{ intros k _. rewrite Cmult_comm, <- csum_scal. apply csum_ext. intros y _.
        replace (k * (x + (N - 1) * y))%nat with (k * x + (N - 1) * (k * y))%nat by nia.
        rewrite Cpow_add. ring. }
    rewrite csum_swap.
    rewrite (csum_ext _ (fun y => a y * (if Nat.eqb y x then INR N else 0))).
    2:{ intros y Hy. rewrite csum_scal. f_equal. rewrite geom_any.
        destruct (kernel_match x y Hx Hy) as [K1 K2].
        destruct (Nat.eqb_spec ((x + (N - 1) * y) mod N) 0) as [E|E].
        - rewrite <- (K1 E). rewrite Nat.eqb_refl. reflexivity.
        - destruct (Nat.eqb_spec y x) as [Eyx|_]; [|reflexivity]. exfalso. apply E. apply K2. symmetry. assumption. }
    rewrite (csum_pick_at a (INR N) x N Hx). field. assumption.
  Qed.
End Transform.

Section Convolution.
  Variable N : nat.
  Hypothesis HN : (0 < N)%nat.
  Let w := wN N.

  (* sums over Z_N are invariant under rotation of the index *)
  Lemma csum_rot1 (f : nat -> C) : csum (fun x => f ((x + 1) mod N)) N = csum f N.
  Proof.
    destruct N as [|n]; [lia|]. clear HN w.
    rewrite <- (csum_shift1 f n).
    change (csum (fun x => f ((x + 1) mod S n)) (S n)) with (csum (fun x => f ((x + 1) mod S n)) n + f ((n + 1) mod S n)).
    f_equal.
    - apply csum_ext. intros x Hx. rewrite Nat.mod_small by lia. f_equal. lia.
    - replace (n + 1)%nat with (S n) by lia. rewrite Nat.mod_same by lia. reflexivity.
  Qed.

  Lemma csum_rot (f : nat -> C) s : csum (fun x => f ((x + s) mod N)) N = csum f N.
  Proof.
    induction s as [|s IH].
    - apply csum_ext. intros x Hx. rewrite Nat.add_0_r, Nat.mod_small by lia. reflexivity.
    - rewrite <- IH. rewrite <- (csum_rot1 (fun z => f ((z + s) mod N))).
      apply csum_ext. intros x _. f_equal. rewrite Nat.add_mod_idemp_l by lia. f_equal. lia.
  Qed.

  (* circular convolution on Z_N *)
  Definition circ_conv (a b : nat -> C) (x : nat) : C := csum (fun y => a y * b ((x + (N - y)) mod N)) N.

  Lemma kernel_periodic k m : w ^^ ((N - 1) * (k * (m mod N))) = w ^^ ((N - 1) * (k * m)).
  Proof.
    unfold w. rewrite (w_mod N HN ((N - 1) * (k * (m mod N)))), (w_mod N HN ((N - 1) * (k * m))). f_equal.
    rewrite !Nat.mul_assoc. rewrite Nat.mul_mod_idemp_r by lia. reflexivity.
  Qed.

  (* convolution theorem: the transform of a circular convolution is the product of the transforms *)
  Theorem dft_circ_conv a b k : dft N (circ_conv a b) k = dft N a k * dft N b k.
  Proof.
    unfold dft, circ_conv. fold w.
    rewrite (csum_ext _ (fun x => csum (fun y => a y * (b ((x + (N - y)) mod N) * w ^^ ((N - 1) * (k * x)))) N)).
    2:{ intros x _. rewrite Cmult_comm, <- csum_scal. apply csum_ext. intros y _. ring. }
    rewrite csum_swap.
    rewrite (csum_ext _ (fun y => (a y * w ^^ ((N - 1) * (k * y))) * csum (fun z => b z * w ^^ ((N - 1) * (k * z))) N)).
    - rewrite <- (csum_ext (fun y => csum (fun z => b z * w ^^ ((N - 1) * (k * z))) N * (a y * w ^^ ((N - 1) * (k * y)))));
        [|intros; ring]. rewrite csum_scal. ring.
    - intros y Hy. rewrite csum_scal.
      assert (Claim : csum (fun x => b ((x + (N - y)) mod N) * w ^^ ((N - 1) * (k * x))) N =
                      w ^^ ((N - 1) * (k * y)) * csum (fun z => b z * w ^^ ((N - 1) * (k * z))) N).
      { rewrite <- csum_scal.
        rewrite <- (csum_rot (fun z => w ^^ ((N - 1) * (k * y)) * (b z * w ^^ ((N - 1) * (k * z)))) (N - y)).
        apply csum_ext. intros x Hx.
        rewrite (Cmult_comm (w ^^ ((N - 1) * (k * y)))), <- Cmult_assoc. f_equal.
        rewrite <- Cpow_add.
        replace ((N - 1) * (k * ((x + (N - y)) mod N)) + (N - 1) * (k * y))%nat with ((N - 1) * (k * ((x + (N - y)) mod N + y)))%nat by nia.
        rewrite <- (kernel_periodic k ((x + (N - y)) mod N + y)).
        rewrite Nat.add_mod_idemp_l by lia.
        replace (x + (N - y) + y)%nat with (x + 1 * N)%nat by lia. rewrite Nat.mod_add by lia.
        rewrite kernel_periodic. reflexivity. }
      rewrite Claim. ring.
  Qed.
End Convolution.

(* FFT convolution IS spatial circular convolution (1-D, complex transform on Z_N) *)
Theorem conv_via_dft N a b x : (0 < N)%nat -> (x < N)%nat ->
  idft N (fun k => dft N a k * dft N b k) x = circ_conv N a b x.
Proof.
  intros HN Hx. rewrite <- (idft_dft N HN (circ_conv N a b) x Hx).
  unfold idft. f_equal. apply csum_ext. intros k _. rewrite (dft_circ_conv N HN a b k). reflexivity.
Qed.

(* a unit impulse at position p: convolving with it circularly shifts the signal by p *)
Definition delta_at (p : nat) (x : nat) : C := if Nat.eqb x p then 1 else 0.

Lemma circ_conv_delta N p b x : (0 < N)%nat -> (p < N)%nat ->
  circ_conv N (delta_at p) b x = b ((x + (N - p)) mod N).
Proof.
  intros HN Hp. unfold circ_conv, delta_at.
  rewrite (csum_ext _ (fun y => b ((x + (N - y)) mod N) * (if Nat.eqb y p then 1 else 0))); [|intros; ring].
  rewrite (csum_pick_at N) by assumption. ring.
Qed.

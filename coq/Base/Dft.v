(* Discrete Fourier transforms over Coquelicot's C: the geometric-sum keystone,
   the half-plane model of jnp.fft.irfft2 / rfft2 and the total-flux (DC) theorems. *)
From Coq Require Import Reals Lra Lia Arith.
From Coquelicot Require Import Coquelicot.
Open Scope C_scope.

(* sum over k = 0 .. n-1 *)
Fixpoint csum (f : nat -> C) (n : nat) : C :=
  match n with O => 0 | S m => csum f m + f m end.

Lemma csum_ext f g n : (forall k, (k < n)%nat -> f k = g k) -> csum f n = csum g n.
Proof. induction n as [|n IH]; intros H; simpl; [reflexivity|]. rewrite IH, H; auto. Qed.

Lemma csum_scal a f n : csum (fun k => a * f k) n = a * csum f n.
Proof. induction n as [|n IH]; simpl; [ring|rewrite IH; ring]. Qed.

Lemma csum_plus f g n : csum (fun k => f k + g k) n = csum f n + csum g n.
Proof. induction n as [|n IH]; simpl; [ring|rewrite IH; ring]. Qed.

Lemma csum_zero n : csum (fun _ => 0) n = 0.
Proof. induction n as [|n IH]; simpl; [reflexivity|rewrite IH; ring]. Qed.

Lemma csum_const c n : csum (fun _ => c) n = INR n * c.
Proof.
  induction n as [|n IH]; [simpl; ring|]. cbn [csum]. rewrite IH, S_INR, RtoC_plus. ring.
Qed.

Lemma csum_swap f n m : csum (fun i => csum (fun j => f i j) m) n = csum (fun j => csum (fun i => f i j) n) m.
Proof.
  induction n as [|n IH]; simpl.
  - rewrite csum_zero. reflexivity.
  - rewrite IH, <- csum_plus. reflexivity.
Qed.

Fixpoint Cpow (z : C) (n : nat) : C := match n with O => 1 | S m => z * Cpow z m end.
Notation "z ^^ n" := (Cpow z n) (at level 30, right associativity) : C_scope.

Lemma Cpow_add z a b : z ^^ (a + b) = z ^^ a * z ^^ b.
Proof. induction a as [|a IH]; simpl; [ring|rewrite IH; ring]. Qed.

Lemma Cpow_mul z a b : z ^^ (a * b) = (z ^^ a) ^^ b.
Proof.
  induction b as [|b IH]; [rewrite Nat.mul_0_r; reflexivity|].
  rewrite Nat.mul_succ_r, Cpow_add, IH. simpl. ring.
Qed.

Lemma Cpow_1_l n : (1 : C) ^^ n = 1.
Proof. induction n as [|n IH]; simpl; [reflexivity|rewrite IH; ring]. Qed.

(* (z - 1) * sum_{k<n} z^k = z^n - 1 *)
Lemma geom_telescope z n : (z - 1) * csum (fun k => z ^^ k) n = z ^^ n - 1.
Proof. induction n as [|n IH]; simpl; [ring|]. rewrite Cmult_plus_distr_l, IH. ring. Qed.

Section RootOfUnity.
  Variable N : nat.
  Variable w : C.
  Hypothesis HN : (0 < N)%nat.
  Hypothesis Hw : w ^^ N = 1.
  Hypothesis Hprim : forall k, (0 < k < N)%nat -> w ^^ k <> 1.

  (* sum_{k<N} w^(d k) = N if d = 0, 0 if 0 < d < N *)
  Lemma geom_zero d : (0 < d < N)%nat -> csum (fun k => w ^^ (d * k)) N = 0.
  Proof.
    intros Hd.
    assert (E : csum (fun k => w ^^ (d * k)) N = csum (fun k => (w ^^ d) ^^ k) N).
    { apply csum_ext. intros k _. apply Cpow_mul. }
    rewrite E.
    pose proof (geom_telescope (w ^^ d) N) as T.
    assert (Hone : (w ^^ d) ^^ N = 1).
    { rewrite <- Cpow_mul, Nat.mul_comm, Cpow_mul, Hw. apply Cpow_1_l. }
    rewrite Hone in T. replace (1 - 1) with (0 : C) in T by ring.
    destruct (Ceq_dec (csum (fun k => (w ^^ d) ^^ k) N) 0) as [Z|NZ]; [assumption|].
    exfalso. assert (Hd1 : w ^^ d - 1 <> 0).
    { intros H. apply (Hprim d Hd). replace (w ^^ d) with (w ^^ d - 1 + 1) by ring. rewrite H. ring. }
    apply (Cmult_neq_0 _ _ Hd1 NZ). assumption.
  Qed.

  Lemma geom_full : csum (fun k => w ^^ (0 * k)) N = INR N.
  Proof.
    rewrite (csum_ext _ (fun _ => 1)); [|intros; reflexivity].
    rewrite csum_const. ring.
  Qed.
End RootOfUnity.

(* ---------- the primitive N-th root of unity exp(2 pi i / N) ---------- *)

Definition cis (t : R) : C := (cos t, sin t).

Lemma Cpow_cis t k : cis t ^^ k = cis (INR k * t).
Proof.
  induction k as [|k IH].
  - simpl. unfold cis. rewrite Rmult_0_l, cos_0, sin_0. reflexivity.
  - cbn [Cpow]. rewrite IH. unfold cis, Cmult. cbn [fst snd].
    rewrite S_INR. replace ((INR k + 1) * t)%R with (t + INR k * t)%R by ring.
    rewrite cos_plus, sin_plus. f_equal; ring.
Qed.

Definition wN (N : nat) : C := cis (2 * PI / INR N).

Lemma wN_pow_N N : (0 < N)%nat -> wN N ^^ N = 1.
Proof.
  intros H. unfold wN. rewrite Cpow_cis.
  replace (INR N * (2 * PI / INR N))%R with (2 * PI)%R by (field; apply not_0_INR; lia).
  unfold cis. rewrite cos_2PI, sin_2PI. reflexivity.
Qed.

Lemma cos_lt_1 x : (0 < x < 2 * PI)%R -> (cos x <> 1)%R.
Proof.
  intros [H0 H1] Hc.
  assert (Hs : (0 < sin (x / 2))%R) by (apply sin_gt_0; lra).
  pose proof (cos_2a_sin (x / 2)) as E. replace (2 * (x / 2))%R with x in E by field.
  rewrite Hc in E. nra.
Qed.

Lemma wN_primitive N k : (0 < k < N)%nat -> wN N ^^ k <> 1.
Proof.
  intros [H0 H1] E. unfold wN in E. rewrite Cpow_cis in E. unfold cis in E.
  apply (f_equal fst) in E. cbn [fst] in E. change (fst (RtoC 1)) with 1%R in E. revert E. apply cos_lt_1.
  assert (HN : (0 < INR N)%R) by (apply lt_0_INR; lia).
  assert (Hk : (0 < INR k)%R) by (apply lt_0_INR; lia).
  assert (Hkn : (INR k < INR N)%R) by (apply lt_INR; assumption).
  pose proof PI_RGT_0 as Hpi. split.
  - apply Rmult_lt_0_compat; [assumption|]. apply Rdiv_lt_0_compat; lra.
  - replace (INR k * (2 * PI / INR N))%R with (2 * PI * (INR k / INR N))%R by (field; lra).
    rewrite <- (Rmult_1_r (2 * PI)) at 2. apply Rmult_lt_compat_l; [lra|].
    apply (Rmult_lt_reg_r (INR N)); [assumption|]. unfold Rdiv. rewrite Rmult_assoc, Rinv_l by lra. lra.
Qed.

(* ---------- totals ---------- *)

Section Totals.
  Variable N : nat.
  Hypothesis HN : (0 < N)%nat.
  Let w := wN N.

  Lemma delta_sum k : (k < N)%nat -> csum (fun r => w ^^ (k * r)) N = if Nat.eqb k 0 then INR N else 0.
  Proof.
    intros Hk. destruct (Nat.eqb_spec k 0) as [->|Hne].
    - apply geom_full.
    - apply (geom_zero N w); [apply wN_pow_N; assumption|intros j Hj; apply wN_primitive; assumption|lia].
  Qed.

  Lemma csum_pick (f : nat -> C) (a : C) :
    csum (fun k => f k * (if Nat.eqb k 0 then a else 0)) N = f 0%nat * a.
  Proof.
    destruct N as [|n]; [lia|]. clear HN w.
    induction n as [|n IH].
    - simpl. ring.
    - cbn [csum] in *. rewrite IH. cbn [Nat.eqb]. ring.
  Qed.

  (* half-plane inverse transform, as jnp.fft.irfft2(F, s = (N, N)) computes it from F[ky, kx], kx = 0 .. N/2:
     complex inverse FFT along ky, then C2R along kx (real parts of the kx = 0 and Nyquist columns,
     twice the real part of the columns 0 < kx < N/2).  T is the complex number whose real part / N^2 is the pixel. *)
  Definition half := ((N - 1) / 2)%nat.     (* number of columns with 0 < kx < N/2 *)

  Definition irfft2_T (F : nat -> nat -> C) (r c : nat) : C :=
    csum (fun ky => F ky 0%nat * w ^^ (ky * r)) N +
    2 * csum (fun j => csum (fun ky => F ky (S j) * w ^^ (ky * r)) N * w ^^ (S j * c)) half +
    (if Nat.even N then csum (fun ky => F ky (N / 2)%nat * w ^^ (ky * r)) N * w ^^ ((N / 2) * c) else 0).

  Definition irfft2 (F : nat -> nat -> C) (r c : nat) : R := (Re (irfft2_T F r c) / (INR N * INR N))%R.

  Lemma half_lt j : (j < half)%nat -> (0 < S j < N)%nat.
  Proof.
    unfold half. intros H. split; [lia|].
    assert ((N - 1) / 2 * 2 <= N - 1)%nat by (rewrite Nat.mul_comm; apply Nat.mul_div_le; lia). lia.
  Qed.

  Lemma nyquist_lt : Nat.even N = true -> (0 < N / 2 < N)%nat.
  Proof.
    intros He. apply Nat.even_spec in He. destruct He as [m ->].
    replace (2 * m / 2)%nat with m by (symmetry; rewrite Nat.mul_comm; apply Nat.div_mul; lia). lia.
  Qed.

  (* sum over all pixels of the complex pre-image = N^2 * F[0,0] *)
  Theorem irfft2_T_total F :
    csum (fun r => csum (fun c => irfft2_T F r c) N) N = INR N * INR N * F 0%nat 0%nat.
  Proof.
    unfold irfft2_T.
    assert (Hc : forall r, csum (fun c => csum (fun ky => F ky 0%nat * w ^^ (ky * r)) N +
        2 * csum (fun j => csum (fun ky => F ky (S j) * w ^^ (ky * r)) N * w ^^ (S j * c)) half +
        (if Nat.even N then csum (fun ky => F ky (N / 2)%nat * w ^^ (ky * r)) N * w ^^ (N / 2 * c) else 0)) N
        = INR N * csum (fun ky => F ky 0%nat * w ^^ (ky * r)) N).
    { intros r. rewrite !csum_plus. rewrite csum_const.
      assert (H2 : csum (fun c => 2 * csum (fun j => csum (fun ky => F ky (S j) * w ^^ (ky * r)) N * w ^^ (S j * c)) half) N = 0).
      { rewrite csum_scal. rewrite csum_swap.
        rewrite (csum_ext _ (fun _ => 0)); [rewrite csum_zero; ring|].
        intros j Hj. rewrite csum_scal. rewrite (delta_sum (S j)); [|apply half_lt in Hj; lia]. cbn [Nat.eqb]. ring. }
      assert (H3 : csum (fun c => if Nat.even N then csum (fun ky => F ky (N / 2)%nat * w ^^ (ky * r)) N * w ^^ (N / 2 * c) else 0) N = 0).
      { destruct (Nat.even N) eqn:He; [|apply csum_zero].
        rewrite csum_scal. pose proof (nyquist_lt He) as Hq. rewrite (delta_sum (N / 2)%nat) by lia.
        destruct (Nat.eqb_spec (N / 2) 0); [lia|]. ring. }
      rewrite H2, H3. ring. }
    rewrite (csum_ext _ _ N (fun r _ => Hc r)).
    rewrite csum_scal, csum_swap.
    rewrite (csum_ext _ (fun ky => F ky 0%nat * (if Nat.eqb ky 0 then INR N else 0))).
    - rewrite csum_pick. ring.
    - intros ky Hky. rewrite csum_scal, (delta_sum ky Hky). reflexivity.
  Qed.
End Totals.

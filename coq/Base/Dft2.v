(* Two-dimensional transforms on Z_N x Z_N over Coquelicot's C:
   - the 2-D convolution theorem (transform of a circular convolution = product of transforms);
   - the half-plane (C2R) inverse: for a REAL image g, jnp.fft.irfft2 applied to the half plane of the
     transform of g returns g (Hermitian symmetry is used, not assumed);
   - hence: irfft2 (rfft2 a * rfft2 b) = circular convolution of a and b, pixel by pixel, for real a, b. *)
From Coq Require Import Reals Lra Lia Arith.
From Coquelicot Require Import Coquelicot.
From PS Require Import Base.Dft.
Open Scope C_scope.

(* ---------- conjugation, real parts ---------- *)

Ltac cx := apply injective_projections; simpl; ring.

Lemma Cconj_plus a b : Cconj (a + b) = Cconj a + Cconj b.
Proof. destruct a, b. cx. Qed.

Lemma Cconj_mult a b : Cconj (a * b) = Cconj a * Cconj b.
Proof. destruct a, b. cx. Qed.

Lemma Cconj_0 : Cconj 0 = 0.
Proof. cx. Qed.

Lemma Cconj_csum f n : Cconj (csum f n) = csum (fun k => Cconj (f k)) n.
Proof. induction n as [|n IH]; cbn [csum]; [apply Cconj_0|]. rewrite Cconj_plus, IH. reflexivity. Qed.

Definition is_real (z : C) : Prop := Im z = 0%R.

Lemma is_real_conj z : is_real z -> Cconj z = z.
Proof. destruct z as [a b]. unfold is_real. simpl. intros ->. cx. Qed.

Lemma is_real_plus a b : is_real a -> is_real b -> is_real (a + b).
Proof. destruct a, b. unfold is_real. simpl. intros -> ->. ring. Qed.

Lemma is_real_mult a b : is_real a -> is_real b -> is_real (a * b).
Proof. destruct a, b. unfold is_real. simpl. intros -> ->. ring. Qed.

Lemma is_real_csum f n : (forall k, (k < n)%nat -> is_real (f k)) -> is_real (csum f n).
Proof.
  induction n as [|n IH]; cbn [csum]; intros H.
  - unfold is_real. reflexivity.
  - apply is_real_plus; [apply IH; intros; apply H; lia|apply H; lia].
Qed.

Lemma Re_plus a b : Re (a + b) = (Re a + Re b)%R.
Proof. destruct a, b. reflexivity. Qed.

Lemma Re_csum f n : Re (csum f n) = Re (csum (fun k => RtoC (Re (f k))) n).
Proof. induction n as [|n IH]; cbn [csum]; [reflexivity|]. rewrite !Re_plus, IH. reflexivity. Qed.

Lemma Re_add_conj z : Re (z + Cconj z) = (2 * Re z)%R.
Proof. destruct z. simpl. ring. Qed.

Lemma Re_scal_real (r : R) z : Re (RtoC r * z) = (r * Re z)%R.
Proof. destruct z. simpl. ring. Qed.

Lemma Re_RtoC (r : R) : Re (RtoC r) = r.
Proof. reflexivity. Qed.

(* ---------- index splitting and reversal ---------- *)

Lemma csum_app f a b : csum f (a + b) = csum f a + csum (fun j => f (a + j)%nat) b.
Proof.
  induction b as [|b IH].
  - rewrite Nat.add_0_r. cbn [csum]. ring.
  - replace (a + S b)%nat with (S (a + b)) by lia. cbn [csum]. rewrite IH. ring.
Qed.

Lemma csum_rev f n : csum (fun j => f (n - 1 - j)%nat) n = csum f n.
Proof.
  revert f. induction n as [|n IH]; intros f; [reflexivity|].
  rewrite <- (csum_shift1 f n).
  cbn [csum]. f_equal.
  - rewrite <- (IH (fun x => f (S x))). apply csum_ext. intros j Hj. f_equal. lia.
  - f_equal. lia.
Qed.

(* k = 0, the pairs (j+1, N-(j+1)) for j < (N-1)/2, and the Nyquist index for even N *)
Lemma csum_hermitian_split N f : (0 < N)%nat ->
  csum f N = f 0%nat + csum (fun j => f (S j) + f (N - S j)%nat) (half N)
             + (if Nat.even N then f (N / 2)%nat else 0).
Proof.
  intros HN. unfold half.
  destruct (Nat.even N) eqn:He.
  - apply Nat.even_spec in He. destruct He as [m ->].
    assert (Hm : (0 < m)%nat) by lia.
    replace (2 * m / 2)%nat with m by (symmetry; rewrite Nat.mul_comm; apply Nat.div_mul; lia).
    replace ((2 * m - 1) / 2)%nat with (m - 1)%nat.
    2:{ apply (Nat.div_unique _ _ _ 1%nat); lia. }
    replace (2 * m)%nat with (1 + ((m - 1) + (1 + (m - 1))))%nat at 1 by lia.
    rewrite csum_app. cbn [csum]. rewrite csum_app. rewrite csum_app. cbn [csum].
    rewrite csum_plus.
    rewrite <- (csum_rev (fun j => f (1 + (m - 1 + (1 + j)))%nat) (m - 1)).
    replace (1 + (m - 1 + 0))%nat with m by lia.
    rewrite (csum_ext (fun j => f (1 + j)%nat) (fun j => f (S j))) by (intros; reflexivity).
    rewrite (csum_ext (fun j => f (1 + (m - 1 + (1 + (m - 1 - 1 - j))))%nat) (fun j => f (2 * m - S j)%nat)).
    2:{ intros j Hj. f_equal. lia. }
    ring.
  - assert (Ho : Nat.odd N = true) by (rewrite <- Nat.negb_even, He; reflexivity).
    apply Nat.odd_spec in Ho. destruct Ho as [m ->].
    replace ((2 * m + 1 - 1) / 2)%nat with m.
    2:{ apply (Nat.div_unique _ _ _ 0%nat); lia. }
    replace (2 * m + 1)%nat with (1 + (m + m))%nat at 1 by lia.
    rewrite csum_app. cbn [csum]. rewrite csum_app.
    rewrite csum_plus.
    rewrite <- (csum_rev (fun j => f (1 + (m + j))%nat) m).
    rewrite (csum_ext (fun j => f (1 + j)%nat) (fun j => f (S j))) by (intros; reflexivity).
    rewrite (csum_ext (fun j => f (1 + (m + (m - 1 - j)))%nat) (fun j => f (2 * m + 1 - S j)%nat)).
    2:{ intros j Hj. f_equal. lia. }
    ring.
Qed.

(* ---------- conjugates of roots of unity ---------- *)

Lemma cis_conj_unit t : Cconj (cis t) * cis t = 1.
Proof.
  unfold cis, Cconj, Cmult. simpl. apply injective_projections; simpl.
  - pose proof (sin2_cos2 t) as H. unfold Rsqr in H. lra.
  - ring.
Qed.

Section Conj.
  Variable N : nat.
  Hypothesis HN : (0 < N)%nat.
  Let w := wN N.

  Lemma w_conj m m' : ((m + m') mod N = 0)%nat -> Cconj (w ^^ m) = w ^^ m'.
  Proof.
    intros H.
    assert (H1 : w ^^ m' * w ^^ m = 1).
    { rewrite <- Cpow_add. apply (w_one_iff N HN). rewrite Nat.add_comm. exact H. }
    assert (H2 : Cconj (w ^^ m) * w ^^ m = 1).
    { unfold w, wN. rewrite Cpow_cis. apply cis_conj_unit. }
    transitivity (Cconj (w ^^ m) * (w ^^ m' * w ^^ m)); [rewrite H1; ring|].
    transitivity (w ^^ m' * (Cconj (w ^^ m) * w ^^ m)); [ring|rewrite H2; ring].
  Qed.

  (* the transform of a real signal is Hermitian *)
  Lemma dft_real_hermitian rho k : (forall x, is_real (rho x)) -> (0 < k < N)%nat ->
    dft N rho (N - k) = Cconj (dft N rho k).
  Proof.
    intros Hr Hk. unfold dft. fold w. rewrite Cconj_csum. apply csum_ext. intros x Hx.
    rewrite Cconj_mult, (is_real_conj _ (Hr x)). f_equal.
    symmetry. apply w_conj.
    replace ((N - 1) * (k * x) + (N - 1) * ((N - k) * x))%nat with (((N - 1) * x) * N)%nat by nia.
    apply Nat.mod_mul. lia.
  Qed.

  (* 1-D complex-to-real inverse: from the half spectrum of a real signal *)
  Theorem c2r_real rho c : (forall x, is_real (rho x)) -> (c < N)%nat ->
    Re (dft N rho 0%nat
        + 2 * csum (fun j => dft N rho (S j) * w ^^ (S j * c)) (half N)
        + (if Nat.even N then dft N rho (N / 2)%nat * w ^^ ((N / 2) * c) else 0))
    = (INR N * Re (rho c))%R.
  Proof.
    intros Hr Hc.
    pose proof (idft_dft N HN rho c Hc) as Hinv. unfold idft in Hinv. fold w in Hinv.
    assert (HNR : INR N <> 0%R) by (apply not_0_INR; lia).
    assert (Hsum : csum (fun k => dft N rho k * w ^^ (k * c)) N = RtoC (INR N) * rho c).
    { rewrite <- Hinv. rewrite Cmult_assoc. rewrite Cinv_r; [ring|].
      intros E. apply HNR. injection E. tauto. }
    rewrite <- Re_scal_real, <- Hsum.
    rewrite (csum_hermitian_split N _ HN).
    rewrite !Re_plus. f_equal. f_equal.
    - rewrite Nat.mul_0_l. cbn [Cpow]. rewrite Cmult_1_r. reflexivity.
    - rewrite <- csum_scal.
      rewrite Re_csum. rewrite (Re_csum (fun j => _ + _)). f_equal. apply csum_ext. intros j Hj. f_equal.
      pose proof (half_lt N HN j Hj) as Hjn.
      rewrite dft_real_hermitian by (assumption || lia).
      rewrite <- (w_conj (S j * c) ((N - S j) * c)).
      2:{ replace (S j * c + (N - S j) * c)%nat with (c * N)%nat by nia. apply Nat.mod_mul. lia. }
      rewrite <- Cconj_mult, Re_add_conj.
      destruct (dft N rho (S j) * w ^^ (S j * c)) as [u v]. simpl. ring.
  Qed.
End Conj.

(* ---------- two dimensions ---------- *)

Section TwoD.
  Variable N : nat.
  Hypothesis HN : (0 < N)%nat.
  Let w := wN N.

  (* rows are transformed along x (index kx), then columns along y (index ky): F[ky, kx] *)
  Definition dft2 (a : nat -> nat -> C) (ky kx : nat) : C :=
    dft N (fun y => dft N (fun x => a y x) kx) ky.

  Definition circ_conv2 (a b : nat -> nat -> C) (r c : nat) : C :=
    csum (fun y => csum (fun x => a y x * b ((r + (N - y)) mod N)%nat ((c + (N - x)) mod N)%nat) N) N.

  Lemma dft_ext f g k : (forall x, (x < N)%nat -> f x = g x) -> dft N f k = dft N g k.
  Proof. intros H. unfold dft. apply csum_ext. intros x Hx. rewrite (H x Hx). reflexivity. Qed.

  Lemma dft_csum (f : nat -> nat -> C) n k :
    dft N (fun c => csum (fun y => f y c) n) k = csum (fun y => dft N (f y) k) n.
  Proof.
    unfold dft.
    rewrite (csum_ext _ (fun x => csum (fun y => f y x * wN N ^^ ((N - 1) * (k * x))) n)).
    - apply csum_swap.
    - intros x _. rewrite Cmult_comm, <- csum_scal. apply csum_ext. intros; ring.
  Qed.

  Lemma dft_scal_r (f : nat -> C) (z : C) k : dft N (fun x => f x * z) k = dft N f k * z.
  Proof.
    unfold dft. rewrite Cmult_comm, <- csum_scal. apply csum_ext. intros; ring.
  Qed.

  (* 2-D convolution theorem *)
  Theorem dft2_circ_conv2 a b ky kx : dft2 (circ_conv2 a b) ky kx = dft2 a ky kx * dft2 b ky kx.
  Proof.
    unfold dft2.
    (* inner transform along the columns index c, for a fixed row r *)
    assert (Hin : forall r, dft N (fun c => circ_conv2 a b r c) kx
                  = circ_conv N (fun y => dft N (fun x => a y x) kx) (fun y => dft N (fun x => b y x) kx) r).
    { intros r. unfold circ_conv2. rewrite dft_csum. unfold circ_conv. apply csum_ext. intros y Hy.
      change (fun c => csum (fun x => a y x * b ((r + (N - y)) mod N)%nat ((c + (N - x)) mod N)%nat) N)
        with (circ_conv N (fun x => a y x) (fun x => b ((r + (N - y)) mod N)%nat x)).
      apply (dft_circ_conv N HN). }
    rewrite (dft_ext _ _ ky (fun r _ => Hin r)).
    apply (dft_circ_conv N HN).
  Qed.

  Lemma irfft2_T_ext F G r c : (forall ky kx, (ky < N)%nat -> F ky kx = G ky kx) -> irfft2_T N F r c = irfft2_T N G r c.
  Proof.
    intros H. unfold irfft2_T.
    assert (E : forall kx, csum (fun ky => F ky kx * wN N ^^ (ky * r)) N = csum (fun ky => G ky kx * wN N ^^ (ky * r)) N).
    { intros kx. apply csum_ext. intros ky Hky. rewrite H by assumption. reflexivity. }
    rewrite (E 0%nat), (E (N / 2)%nat). f_equal. f_equal. f_equal.
    apply csum_ext. intros j _. rewrite (E (S j)). reflexivity.
  Qed.

  (* the half-plane inverse recovers a real image from the half plane of its transform *)
  Theorem irfft2_dft2_real g r c : (forall y x, is_real (g y x)) -> (r < N)%nat -> (c < N)%nat ->
    irfft2 N (dft2 g) r c = Re (g r c).
  Proof.
    intros Hg Hr Hc. unfold irfft2, irfft2_T.
    assert (HNR : INR N <> 0%R) by (apply not_0_INR; lia).
    assert (Hcol : forall kx, csum (fun ky => dft2 g ky kx * wN N ^^ (ky * r)) N
                   = RtoC (INR N) * dft N (fun x => g r x) kx).
    { intros kx. unfold dft2.
      pose proof (idft_dft N HN (fun y => dft N (fun x => g y x) kx) r Hr) as Hinv. unfold idft in Hinv.
      rewrite <- Hinv. rewrite Cmult_assoc. rewrite Cinv_r; [ring|].
      intros E. apply HNR. injection E. tauto. }
    rewrite (Hcol 0%nat), (Hcol (N / 2)%nat).
    rewrite (csum_ext (fun j => csum (fun ky => dft2 g ky (S j) * wN N ^^ (ky * r)) N * wN N ^^ (S j * c))
                      (fun j => RtoC (INR N) * (dft N (fun x => g r x) (S j) * wN N ^^ (S j * c)))).
    2:{ intros j _. rewrite Hcol. ring. }
    rewrite csum_scal.
    replace (RtoC (INR N) * dft N (fun x => g r x) 0%nat
             + 2 * (RtoC (INR N) * csum (fun j => dft N (fun x => g r x) (S j) * wN N ^^ (S j * c)) (half N))
             + (if Nat.even N then RtoC (INR N) * dft N (fun x => g r x) (N / 2)%nat * wN N ^^ (N / 2 * c) else 0))
      with (RtoC (INR N) * (dft N (fun x => g r x) 0%nat
             + 2 * csum (fun j => dft N (fun x => g r x) (S j) * wN N ^^ (S j * c)) (half N)
             + (if Nat.even N then dft N (fun x => g r x) (N / 2)%nat * wN N ^^ (N / 2 * c) else 0))).
    2:{ destruct (Nat.even N); ring. }
    rewrite Re_scal_real.
    rewrite (c2r_real N HN (fun x => g r x) c (Hg r) Hc).
    field. exact HNR.
  Qed.

  Lemma circ_conv2_real a b r c : (forall y x, is_real (a y x)) -> (forall y x, is_real (b y x)) ->
    is_real (circ_conv2 a b r c).
  Proof.
    intros Ha Hb. unfold circ_conv2. apply is_real_csum. intros y _. apply is_real_csum. intros x _.
    apply is_real_mult; [apply Ha|apply Hb].
  Qed.

  (* FFT convolution in the half-plane form used by the renderers IS circular convolution, pixel by pixel *)
  Theorem irfft2_product_is_circ_conv2 a b r c :
    (forall y x, is_real (a y x)) -> (forall y x, is_real (b y x)) -> (r < N)%nat -> (c < N)%nat ->
    irfft2 N (fun ky kx => dft2 a ky kx * dft2 b ky kx) r c = Re (circ_conv2 a b r c).
  Proof.
    intros Ha Hb Hr Hc.
    rewrite <- (irfft2_dft2_real (circ_conv2 a b) r c (fun y x => circ_conv2_real a b y x Ha Hb) Hr Hc).
    unfold irfft2. f_equal. f_equal. apply irfft2_T_ext. intros ky kx _. symmetry. apply dft2_circ_conv2.
  Qed.

  (* a unit of light at (row py, column px): convolving with it translates the other array to that position,
     rows to rows and columns to columns - it never mirrors or transposes it *)
  Definition delta2 (py px : nat) (y x : nat) : C := delta_at py y * delta_at px x.

  Theorem circ_conv2_delta py px b r c : (py < N)%nat -> (px < N)%nat ->
    circ_conv2 (delta2 py px) b r c = b ((r + (N - py)) mod N)%nat ((c + (N - px)) mod N)%nat.
  Proof.
    intros Hy Hx. unfold circ_conv2, delta2, delta_at.
    rewrite (csum_ext _ (fun y => csum (fun x => b ((r + (N - y)) mod N)%nat ((c + (N - x)) mod N)%nat * (if Nat.eqb x px then 1 else 0)) N
                                  * (if Nat.eqb y py then 1 else 0))).
    2:{ intros y _. rewrite Cmult_comm, <- csum_scal. apply csum_ext. intros; ring. }
    rewrite (csum_pick_at N HN _ 1 py N Hy).
    rewrite (csum_pick_at N HN _ 1 px N Hx). ring.
  Qed.
End TwoD.

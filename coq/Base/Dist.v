(* Log-densities of the numpyro distributions pysersic uses, over R. *)
From Coq Require Import Reals Lra.
From PS Require Import Base.RBase.
Open Scope R_scope.

Definition normal_lpdf (x loc scale : R) : R :=
  - (x - loc) ^ 2 / (2 * scale ^ 2) - ln scale - ln (2 * PI) / 2.

(* Student-t with 5 degrees of freedom: the normaliser
   lgamma(3) - lgamma(5/2) - ln(5 pi)/2 with Gamma(5/2) = 3 sqrt(pi) / 4 *)
Definition t5_lnorm : R := ln 2 - ln (3 * sqrt PI / 4) - ln (5 * PI) / 2.

Definition student_t5_lpdf (x loc scale : R) : R :=
  t5_lnorm - ln scale - 3 * ln (1 + ((x - loc) / scale) ^ 2 / 5).

(* two-component mixture of normals with common location, weight w on the second *)
Definition mixture2_lpdf (x w loc s1 s2 : R) : R :=
  ln ((1 - w) * exp (normal_lpdf x loc s1) + w * exp (normal_lpdf x loc s2)).

(* latent-site distributions: described, with the unnormalised log-density and
   the support; normalisers that need erf are kept symbolic (lnZ) *)
Inductive ldist :=
| LNormal (loc scale : R)
| LUniform (low high : R)
| LTruncNormal (loc scale : R) (low high : option R).

Definition in_support (d : ldist) (x : R) : Prop :=
  match d with
  | LNormal _ _ => True
  | LUniform lo hi => lo <= x <= hi
  | LTruncNormal _ _ lo hi =>
    (match lo with Some a => a <= x | None => True end) /\
    (match hi with Some b => x <= b | None => True end)
  end.

(* log-density up to the point-independent normaliser lnZ *)
Definition ldist_kernel (d : ldist) (x : R) : R :=
  match d with
  | LNormal loc scale => - (x - loc) ^ 2 / (2 * scale ^ 2)
  | LUniform _ _ => 0
  | LTruncNormal loc scale _ _ => - (x - loc) ^ 2 / (2 * scale ^ 2)
  end.

(* affine push-forward x = loc + scale * z of a base distribution on z *)
Definition affine_push (d : ldist) (loc scale : R) : ldist :=
  match d with
  | LNormal m s => LNormal (loc + scale * m) (scale * s)
  | LUniform lo hi => LUniform (loc + scale * lo) (loc + scale * hi)
  | LTruncNormal m s lo hi =>
    LTruncNormal (loc + scale * m) (scale * s)
                 (match lo with Some a => Some (loc + scale * a) | None => None end)
                 (match hi with Some b => Some (loc + scale * b) | None => None end)
  end.

(* Loss values as the optimiser loop sees them: IEEE-754 doubles restricted to
   NaN, -inf, +inf and (integer-valued) finite numbers, with the IEEE strict
   comparison `<` that Python's `loss < best_loss` computes. *)
From Coq Require Import ZArith Bool Lia.

Inductive loss : Type :=
| NaN : loss
| NInf : loss
| Fin : Z -> loss
| PInf : loss.

Definition loss_eqb (a b : loss) : bool :=
  match a, b with
  | NaN, NaN => true
  | NInf, NInf => true
  | PInf, PInf => true
  | Fin x, Fin y => Z.eqb x y
  | _, _ => false
  end.

(* IEEE `a < b`: false whenever either side is NaN. *)
Definition ltb (a b : loss) : bool :=
  match a, b with
  | NaN, _ => false
  | _, NaN => false
  | NInf, NInf => false
  | NInf, _ => true
  | _, NInf => false
  | Fin x, Fin y => Z.ltb x y
  | Fin _, PInf => true
  | PInf, _ => false
  end.

Definition is_nan (a : loss) : bool := match a with NaN => true | _ => false end.

Lemma ltb_nan_l b : ltb NaN b = false.
Proof. reflexivity. Qed.

Lemma ltb_nan_r a : ltb a NaN = false.
Proof. destruct a; reflexivity. Qed.

Lemma ltb_irrefl a : ltb a a = false.
Proof. destruct a; simpl; auto. apply Z.ltb_irrefl. Qed.

Lemma ltb_trans a b c : ltb a b = true -> ltb b c = true -> ltb a c = true.
Proof.
  destruct a, b, c; simpl; try discriminate; auto.
  intros H1 H2. apply Z.ltb_lt in H1. apply Z.ltb_lt in H2. apply Z.ltb_lt. lia.
Qed.

Lemma ltb_asym a b : ltb a b = true -> ltb b a = false.
Proof.
  destruct a, b; simpl; try discriminate; auto.
  intros H. apply Z.ltb_lt in H. apply Z.ltb_ge. lia.
Qed.

Lemma ltb_true_not_nan a b : ltb a b = true -> is_nan a = false /\ is_nan b = false.
Proof. destruct a, b; simpl; try discriminate; auto. Qed.

Lemma ltb_pinf_false b : ltb PInf b = false.
Proof. destruct b; reflexivity. Qed.

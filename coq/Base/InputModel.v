(* Vocabulary and semantics for the input-validation model (C18).
   Gen/InputChecks.v instantiates `step` lists from the source. *)
From Coq Require Import ZArith List Bool Lia.
Import ListNotations.
Open Scope Z_scope.

Inductive arr := Data | Rms | Psf | Mask | Im.
Inductive exn := ShapeMatchError | ValueError | KernelError | AssertionError.

Inductive cond :=
| ShapeNe (a b : arr)          (* a.shape != b.shape *)
| HasNegative (a : arr)        (* some element of a is < 0 *)
| ShapeLexLt (a b : arr)       (* Python tuple comparison  a.shape < b.shape  (lexicographic) *)
| ShapeAnyAxisLt (a b : arr)   (* any(x < y for x, y in zip(a.shape, b.shape)) *)
| ShapeAllAxisLt (a b : arr).  (* all(x < y for ...) *)

Record step := { only_if_mask : bool; test : cond; raises : exn }.

Record inputs := {
  shape : arr -> list Z;
  has_neg : arr -> bool;
  mask_given : bool
}.

Fixpoint list_eqb (l1 l2 : list Z) : bool :=
  match l1, l2 with
  | [], [] => true
  | x :: l1', y :: l2' => (x =? y) && list_eqb l1' l2'
  | _, _ => false
  end.

Lemma list_eqb_eq l1 l2 : list_eqb l1 l2 = true <-> l1 = l2.
Proof.
  revert l2; induction l1 as [|x l1 IH]; intros [|y l2]; simpl; split; try discriminate; auto.
  - intros H. apply andb_true_iff in H. destruct H as [H1 H2]. apply Z.eqb_eq in H1. apply IH in H2. congruence.
  - intros H. inversion H; subst. rewrite Z.eqb_refl. simpl. apply IH. reflexivity.
Qed.

(* CPython tuple `<`: first differing position decides; a proper prefix is smaller *)
Fixpoint lex_lt (l1 l2 : list Z) : bool :=
  match l1, l2 with
  | [], [] => false
  | [], _ :: _ => true
  | _ :: _, [] => false
  | x :: l1', y :: l2' => if x =? y then lex_lt l1' l2' else x <? y
  end.

Fixpoint any_lt (l1 l2 : list Z) : bool :=
  match l1, l2 with
  | x :: l1', y :: l2' => (x <? y) || any_lt l1' l2'
  | _, _ => false
  end.

Fixpoint all_lt (l1 l2 : list Z) : bool :=
  match l1, l2 with
  | x :: l1', y :: l2' => (x <? y) && all_lt l1' l2'
  | _, _ => true
  end.

Definition eval_cond (i : inputs) (c : cond) : bool :=
  match c with
  | ShapeNe a b => negb (list_eqb (shape i a) (shape i b))
  | HasNegative a => has_neg i a
  | ShapeLexLt a b => lex_lt (shape i a) (shape i b)
  | ShapeAnyAxisLt a b => any_lt (shape i a) (shape i b)
  | ShapeAllAxisLt a b => all_lt (shape i a) (shape i b)
  end.

(* first raising step, in program order *)
Fixpoint run_steps (i : inputs) (ss : list step) : option exn :=
  match ss with
  | [] => None
  | s :: ss' =>
    if (negb (only_if_mask s) || mask_given i) && eval_cond i (test s)
    then Some (raises s) else run_steps i ss'
  end.

(* how an attribute of the fitter is produced from a constructor argument *)
Inductive ingest_op :=
| CastF32 (arg : arr)          (* jnp.array(arg.astype(np.float32)) *)
| ParseMask (arg : arr).       (* all-True if absent, else logical_not(arg != 0) *)

(* mask value semantics: the user marks a pixel with a non-zero value *)
Definition parse_mask_pixel (v : Z) : bool := v =? 0.   (* True = good pixel *)

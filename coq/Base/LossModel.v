(* What a pysersic loss function IS for numpyro's log_density: latent nuisance
   sites, deterministic sites, and one observed (or factor) site evaluated per
   pixel, possibly under handlers.mask(mask = good).  Gen/Losses.v instantiates
   one `loss_model` per function of pysersic/loss.py. *)
From Coq Require Import Reals List String Bool Lra.
From PS Require Import Base.RBase Base.Dist.
Import ListNotations.
Open Scope R_scope.

(* how the function reduces an image to a scalar outside the per-pixel site *)
Inductive mean_kind :=
| NoMean
| MeanAllRms      (* jnp.mean(rms): every pixel, masked or not *)
| MeanGoodRms.    (* jnp.mean(rms, where = mask): good pixels only *)

Record loss_model := {
  lm_latents : list (string * ldist);
  lm_dets    : list (string * (R -> (string -> R) -> R));  (* name, value(mean_rms, latents) *)
  lm_mean    : mean_kind;
  lm_masked  : bool;        (* the observed / factor site sits inside handlers.mask(mask = mask) *)
  lm_site    : string;      (* its name (before the suffix) *)
  lm_factor  : bool;        (* numpyro.factor rather than sample(obs = data) *)
  (* per-pixel log term: data, rms, model pixel, mean_rms, latent values *)
  lm_logp    : R -> R -> R -> R -> (string -> R) -> R
}.

Section Semantics.
  Variable pixel : Type.
  Variable pixels : list pixel.            (* every pixel of the frame, once *)
  Variables data rms mdl : pixel -> R.
  Variable good : pixel -> bool.           (* fitter.mask: True = use the pixel *)
  Variable lat : string -> R.
  Variable lp_lat : string -> ldist -> R -> R.   (* log-density of a latent site (abstract normaliser) *)

  Fixpoint sum_over (l : list pixel) (f : pixel -> R) : R :=
    match l with
    | [] => 0
    | p :: l' => f p + sum_over l' f
    end.

  Definition count (l : list pixel) (b : pixel -> bool) : R :=
    sum_over l (fun p => if b p then 1 else 0).

  Definition mean_rms (k : mean_kind) : R :=
    match k with
    | NoMean => 0
    | MeanAllRms => sum_over pixels rms / sum_over pixels (fun _ => 1)
    | MeanGoodRms => sum_over pixels (fun p => if good p then rms p else 0) / count pixels good
    end.

  Definition latent_logdens (L : loss_model) : R :=
    fold_right (fun nd acc => lp_lat (fst nd) (snd nd) (lat (fst nd)) + acc) 0 (lm_latents L).

  (* numpyro: a masked site contributes log_prob only where the mask is True *)
  Definition pixel_logdens (L : loss_model) : R :=
    sum_over pixels (fun p =>
      if (negb (lm_masked L) || good p)%bool
      then lm_logp L (data p) (rms p) (mdl p) (mean_rms (lm_mean L)) lat
      else 0).

  Definition loss_logdens (L : loss_model) : R := latent_logdens L + pixel_logdens L.
End Semantics.

(* syntactic criterion of C06 *)
Definition mask_safe (L : loss_model) : bool :=
  lm_masked L && match lm_mean L with MeanAllRms => false | _ => true end.

Lemma sum_over_ext {pixel} (l : list pixel) f g :
  (forall p, In p l -> f p = g p) -> sum_over pixel l f = sum_over pixel l g.
Proof.
  induction l as [|a l IH]; intros H; simpl; [reflexivity|].
  rewrite (H a (or_introl eq_refl)), IH; [reflexivity|]. intros p Hp. apply H. right. assumption.
Qed.

(* masked pixels carry no information: if two sets of images agree on every
   GOOD pixel, the log-density is the same - whatever the masked pixels hold *)
Theorem mask_safe_sound {pixel} (L : loss_model) (pixels : list pixel)
        (data rms mdl data' rms' mdl' : pixel -> R) (good : pixel -> bool) lat lp_lat :
  mask_safe L = true ->
  (forall p, In p pixels -> good p = true -> data p = data' p /\ rms p = rms' p /\ mdl p = mdl' p) ->
  loss_logdens pixel pixels data rms mdl good lat lp_lat L =
  loss_logdens pixel pixels data' rms' mdl' good lat lp_lat L.
Proof.
  intros Hsafe Hagree. unfold mask_safe in Hsafe. apply andb_true_iff in Hsafe. destruct Hsafe as [Hm Hk].
  unfold loss_logdens. f_equal. unfold pixel_logdens. rewrite Hm. cbn [negb orb].
  assert (Hmean : mean_rms pixel pixels rms good (lm_mean L) = mean_rms pixel pixels rms' good (lm_mean L)).
  { destruct (lm_mean L); [reflexivity|discriminate|]. unfold mean_rms. f_equal.
    apply sum_over_ext. intros p Hp. destruct (good p) eqn:G; [|reflexivity].
    destruct (Hagree p Hp G) as (_ & Hr & _). assumption. }
  rewrite Hmean. apply sum_over_ext. intros p Hp. destruct (good p) eqn:G; [|reflexivity].
  destruct (Hagree p Hp G) as (Hd & Hr & Hmo). rewrite Hd, Hr, Hmo. reflexivity.
Qed.

(* with no mask supplied (good = all True) every pixel is used *)
Lemma all_good_all_used {pixel} (L : loss_model) (pixels : list pixel) data rms mdl lat :
  pixel_logdens pixel pixels data rms mdl (fun _ => true) lat L =
  sum_over pixel pixels (fun p => lm_logp L (data p) (rms p) (mdl p) (mean_rms pixel pixels rms (fun _ => true) (lm_mean L)) lat).
Proof.
  unfold pixel_logdens. apply sum_over_ext. intros p _. rewrite orb_true_r. reflexivity.
Qed.

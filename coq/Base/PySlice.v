(* numpy / Python basic slicing `a[start:stop]` on one axis of length len
   (step 1), with negative indices and clamping, as CPython's
   PySlice_AdjustIndices computes it. *)
From Coq Require Import ZArith List Lia Bool FinFun.
Import ListNotations.
Open Scope Z_scope.

Definition norm_idx (len i : Z) : Z :=
  let j := if i <? 0 then i + len else i in
  Z.max 0 (Z.min len j).

Definition slice_bounds (len : Z) (start stop : option Z) : Z * Z :=
  let lo := match start with None => 0 | Some s => norm_idx len s end in
  let hi := match stop with None => len | Some s => norm_idx len s end in
  (lo, Z.max lo hi).

(* the integers lo, lo+1, ..., hi-1 *)
Definition zrange (lo hi : Z) : list Z :=
  map (fun k => lo + Z.of_nat k) (seq 0 (Z.to_nat (hi - lo))).

Definition slice_indices (len : Z) (start stop : option Z) : list Z :=
  let '(lo, hi) := slice_bounds len start stop in zrange lo hi.

Lemma zrange_In lo hi x : In x (zrange lo hi) <-> lo <= x < hi.
Proof.
  unfold zrange. rewrite in_map_iff. split.
  - intros (k & <- & Hk). apply in_seq in Hk. lia.
  - intros H. exists (Z.to_nat (x - lo)). split; [lia|]. apply in_seq. lia.
Qed.

Lemma zrange_length lo hi : length (zrange lo hi) = Z.to_nat (hi - lo).
Proof. unfold zrange. rewrite map_length, seq_length. reflexivity. Qed.

Lemma zrange_NoDup lo hi : NoDup (zrange lo hi).
Proof.
  unfold zrange. apply Injective_map_NoDup; [|apply seq_NoDup].
  intros a b H. lia.
Qed.

Lemma NoDup_app_intro {A} (l1 l2 : list A) :
  NoDup l1 -> NoDup l2 -> (forall x, In x l1 -> In x l2 -> False) -> NoDup (l1 ++ l2).
Proof.
  induction l1 as [|a l1 IH]; intros H1 H2 Hd; simpl; [assumption|].
  inversion H1; subst. constructor.
  - intros Hin. apply in_app_or in Hin. destruct Hin as [Hin|Hin]; [contradiction|].
    apply (Hd a); [left; reflexivity|assumption].
  - apply IH; try assumption. intros x Hx1 Hx2. apply (Hd x); [right; assumption|assumption].
Qed.

(* row-major product of two index lists: the pixels of a 2-D slice *)
Definition prod2 (rows cols : list Z) : list (Z * Z) := list_prod rows cols.

Lemma prod2_In rows cols r c : In (r, c) (prod2 rows cols) <-> In r rows /\ In c cols.
Proof. unfold prod2. apply in_prod_iff. Qed.

Lemma prod2_length rows cols : length (prod2 rows cols) = (length rows * length cols)%nat.
Proof. unfold prod2. apply prod_length. Qed.

Lemma prod2_NoDup rows cols : NoDup rows -> NoDup cols -> NoDup (prod2 rows cols).
Proof.
  unfold prod2. induction rows as [|r rows IH]; intros Hr Hc; simpl; [constructor|].
  inversion Hr; subst. apply NoDup_app_intro.
  - apply Injective_map_NoDup; [|assumption]. intros a b H; inversion H; reflexivity.
  - apply IH; assumption.
  - intros [a b] Hi1 Hi2. apply in_map_iff in Hi1. destruct Hi1 as (x & Hx & _). inversion Hx; subst.
    apply in_prod_iff in Hi2. tauto.
Qed.

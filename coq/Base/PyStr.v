(* The fragment of CPython `str` the code relies on: `sub in s`, `+`,
   str.replace(old, new) (leftmost, non-overlapping, all occurrences),
   str.removesuffix, split(sep)[0], f"{j:d}". *)
From Coq Require Import String Ascii List Arith Bool Lia.
From Coq Require Import DecimalString Decimal DecimalNat.
Import ListNotations.
Open Scope string_scope.

(* s.startswith(w) *)
Fixpoint prefixb (w s : string) {struct s} : bool :=
  match w with
  | EmptyString => true
  | String a w' =>
    match s with
    | EmptyString => false
    | String b s' => Ascii.eqb a b && prefixb w' s'
    end
  end.

(* `sub in s` *)
Fixpoint contains (sub s : string) : bool :=
  prefixb sub s ||
  match s with
  | EmptyString => false
  | String _ s' => contains sub s'
  end.

Lemma prefixb_nil s : prefixb EmptyString s = true.
Proof. destruct s; reflexivity. Qed.

Lemma prefix_app w a b : prefixb w a = true -> prefixb w (a ++ b) = true.
Proof.
  revert a; induction w as [|c w IH]; intros a H; [apply prefixb_nil|].
  destruct a as [|d a]; simpl in *; [discriminate|].
  apply andb_true_iff in H. destruct H as [H1 H2]. rewrite H1, (IH _ H2). reflexivity.
Qed.

Lemma contains_app_l w a b : contains w a = true -> contains w (a ++ b) = true.
Proof.
  induction a as [|c a IH]; intros H.
  - simpl in H. rewrite orb_false_r in H. destruct w; [destruct b; reflexivity|discriminate].
  - cbn [contains] in H. apply orb_true_iff in H. destruct H as [H|H].
    + pose proof (prefix_app w (String c a) b H) as Hp.
      change (String c a ++ b) with (String c (a ++ b)) in *. cbn [contains]. rewrite Hp. reflexivity.
    + change (String c a ++ b) with (String c (a ++ b)). cbn [contains]. rewrite (IH H). apply orb_true_r.
Qed.

Lemma contains_app_r w a b : contains w b = true -> contains w (a ++ b) = true.
Proof. induction a as [|c a IH]; simpl; intros H; [assumption|]. rewrite (IH H). apply orb_true_r. Qed.

(* str.removesuffix *)
Fixpoint strip_suffix (sfx s : string) : option string :=
  if String.eqb s sfx then Some EmptyString
  else match s with
       | EmptyString => None
       | String c s' => option_map (String c) (strip_suffix sfx s')
       end.

Definition removesuffix (sfx s : string) : string :=
  match strip_suffix sfx s with
  | Some p => p
  | None => s
  end.

Lemma length_append a b : String.length (a ++ b) = String.length a + String.length b.
Proof. induction a as [|c a IH]; simpl; [reflexivity|rewrite IH; reflexivity]. Qed.

Lemma strip_suffix_app sfx p : strip_suffix sfx (p ++ sfx) = Some p.
Proof.
  induction p as [|c p IH].
  - simpl. destruct sfx as [|d sfx]; simpl; [reflexivity|]. rewrite Ascii.eqb_refl, String.eqb_refl. reflexivity.
  - change (String c p ++ sfx) with (String c (p ++ sfx)). cbn [strip_suffix].
    destruct (String.eqb (String c (p ++ sfx)) sfx) eqn:E.
    + apply String.eqb_eq in E. apply (f_equal String.length) in E.
      simpl in E. rewrite length_append in E. lia.
    + rewrite IH. reflexivity.
Qed.

(* the repaired render_source: the suffix is recovered exactly, whatever it is *)
Lemma removesuffix_app sfx p : removesuffix sfx (p ++ sfx) = p.
Proof. unfold removesuffix. rewrite strip_suffix_app. reflexivity. Qed.

(* str.replace(old, new), old non-empty: scan left to right, skip = characters
   of the current match still to be dropped *)
Fixpoint replace_go (old new : string) (skip : nat) (s : string) : string :=
  match s with
  | EmptyString => EmptyString
  | String c s' =>
    match skip with
    | S k => replace_go old new k s'
    | O => if prefixb old s then new ++ replace_go old new (String.length old - 1) s'
           else String c (replace_go old new 0 s')
    end
  end.

Fixpoint interleave (new s : string) : string :=
  match s with
  | EmptyString => new
  | String c s' => new ++ String c (interleave new s')
  end.

Definition py_replace (old new s : string) : string :=
  match old with
  | EmptyString => interleave new s
  | _ => replace_go old new 0 s
  end.

(* s.split(sep)[0], sep non-empty *)
Fixpoint split_first (sep s : string) : string :=
  match s with
  | EmptyString => EmptyString
  | String c s' => if prefixb sep s then EmptyString else String c (split_first sep s')
  end.

Lemma split_first_app sep p :
  sep <> EmptyString -> contains sep p = false -> False \/ True.
Proof. auto. Qed.

(* f"{j:d}" for a non-negative int *)
Definition dec (n : nat) : string := NilEmpty.string_of_uint (Nat.to_uint n).

Lemma dec_inj n m : dec n = dec m -> n = m.
Proof.
  unfold dec. intros H.
  apply (f_equal NilEmpty.uint_of_string) in H.
  rewrite !NilEmpty.usu in H. inversion H as [H1].
  apply (f_equal Nat.of_uint) in H1. rewrite !DecimalNat.Unsigned.of_to in H1. exact H1.
Qed.

Example py_replace_examples :
  py_replace "_1" "" "f_1_1" = "f" /\ py_replace "" "X" "ab" = "XaXbX" /\
  py_replace "aa" "b" "aaa" = "ba" /\ removesuffix "_1" "f_1_1" = "f_1" /\
  removesuffix "" "abc" = "abc" /\ removesuffix "zz" "abc" = "abc" /\
  split_first "_auto_loc" "xc_0_auto_loc" = "xc_0" /\ dec 12 = "12" /\ contains "theta" "bspl_w_theta" = true.
Proof. vm_compute. repeat split; reflexivity. Qed.

(* ---------- keys of the form  p ++ "_" ++ dec i ++ suffix ---------- *)

Lemma append_assoc (a b c : string) : (a ++ b) ++ c = a ++ (b ++ c).
Proof. induction a as [|x a IH]; simpl; [reflexivity|rewrite IH; reflexivity]. Qed.

Lemma append_nil_r (a : string) : a ++ EmptyString = a.
Proof. induction a as [|x a IH]; simpl; [reflexivity|rewrite IH; reflexivity]. Qed.

Lemma append_inv_head (a b c : string) : a ++ b = a ++ c -> b = c.
Proof. induction a as [|x a IH]; simpl; intros H; [assumption|]. inversion H. auto. Qed.

(* right cancellation *)
Lemma append_inv_tail (a b s : string) : a ++ s = b ++ s -> a = b.
Proof.
  revert b; induction a as [|x a IH]; intros b H.
  - destruct b as [|y b]; [reflexivity|]. apply (f_equal String.length) in H.
    simpl in H. rewrite length_append in H. lia.
  - destruct b as [|y b].
    + apply (f_equal String.length) in H. simpl in H. rewrite length_append in H. lia.
    + simpl in H. inversion H; subst. f_equal. apply IH. assumption.
Qed.

(* split at the LAST underscore *)
Fixpoint rsplit_us (s : string) : option (string * string) :=
  match s with
  | EmptyString => None
  | String c s' =>
    match rsplit_us s' with
    | Some (a, d) => Some (String c a, d)
    | None => if Ascii.eqb c "_"%char then Some (EmptyString, s') else None
    end
  end.

Fixpoint no_us (s : string) : bool :=
  match s with
  | EmptyString => true
  | String c s' => negb (Ascii.eqb c "_"%char) && no_us s'
  end.

Lemma rsplit_us_none d : no_us d = true -> rsplit_us d = None.
Proof.
  induction d as [|c d IH]; simpl; intros H; [reflexivity|].
  apply andb_true_iff in H. destruct H as [H1 H2]. rewrite (IH H2).
  destruct (Ascii.eqb c "_"); [discriminate|reflexivity].
Qed.

Lemma rsplit_us_app a d : no_us d = true -> rsplit_us (a ++ "_" ++ d) = Some (a, d).
Proof.
  intros Hd. induction a as [|c a IH].
  - cbn [append rsplit_us]. rewrite (rsplit_us_none d Hd). reflexivity.
  - change (String c a ++ "_" ++ d) with (String c (a ++ "_" ++ d)). cbn [rsplit_us]. rewrite IH. reflexivity.
Qed.

(* decimal numerals contain no underscore *)
Lemma no_us_uint u : no_us (NilEmpty.string_of_uint u) = true.
Proof. induction u; simpl; auto. Qed.

Lemma no_us_dec n : no_us (dec n) = true.
Proof. apply no_us_uint. Qed.

(* the per-source key determines the parameter name and the source index *)
Definition source_key (p : string) (i : nat) (sfx : string) : string := p ++ "_" ++ dec i ++ sfx.

Lemma source_key_inj p i p' i' sfx : source_key p i sfx = source_key p' i' sfx -> p = p' /\ i = i'.
Proof.
  unfold source_key. intros H.
  rewrite <- !append_assoc in H. apply append_inv_tail in H.
  rewrite !append_assoc in H.
  assert (H1 := rsplit_us_app p (dec i) (no_us_dec i)).
  assert (H2 := rsplit_us_app p' (dec i') (no_us_dec i')).
  rewrite H in H1. rewrite H1 in H2. inversion H2; subst. split; [reflexivity|]. apply dec_inj. assumption.
Qed.

(* Real-number primitives the translator maps numerical Python onto. *)
From Coq Require Import Reals Lra.
Open Scope R_scope.

(* jnp.power on floats: 0 ** y = 0 for y > 0 (unlike exp (y * ln 0) = 1 in Coq,
   where ln 0 = 0); negative bases give NaN in JAX and are outside every
   theorem's domain. *)
Definition rpow (x y : R) : R := if Rle_dec x 0 then 0 else exp (y * ln x).

Lemma rpow_pos x y : 0 < x -> rpow x y = exp (y * ln x).
Proof. intros H. unfold rpow. destruct (Rle_dec x 0); [lra|reflexivity]. Qed.

Lemma rpow_Rpower x y : 0 < x -> rpow x y = Rpower x y.
Proof. intros H. rewrite rpow_pos by assumption. reflexivity. Qed.

Lemma rpow_nonpos x y : x <= 0 -> rpow x y = 0.
Proof. intros H. unfold rpow. destruct (Rle_dec x 0); [reflexivity|lra]. Qed.

Lemma rpow_gt0 x y : 0 < x -> 0 < rpow x y.
Proof. intros H. rewrite rpow_pos by assumption. apply exp_pos. Qed.

Lemma rpow_ge0 x y : 0 <= rpow x y.
Proof. unfold rpow. destruct (Rle_dec x 0); [lra|left; apply exp_pos]. Qed.

(* sum over the component axis: k = 0 .. n-1 *)
Fixpoint rsum (f : nat -> R) (n : nat) : R :=
  match n with
  | O => 0
  | S m => rsum f m + f m
  end.

Lemma rsum_ext f g n : (forall k, (k < n)%nat -> f k = g k) -> rsum f n = rsum g n.
Proof.
  induction n as [|n IH]; intros H; simpl; [reflexivity|].
  rewrite IH, H; auto.
Qed.

Lemma rsum_scal a f n : rsum (fun k => a * f k) n = a * rsum f n.
Proof. induction n as [|n IH]; simpl; [ring|rewrite IH; ring]. Qed.

Lemma rsum_plus f g n : rsum (fun k => f k + g k) n = rsum f n + rsum g n.
Proof. induction n as [|n IH]; simpl; [ring|rewrite IH; ring]. Qed.

Lemma rsum_zero n : rsum (fun _ => 0) n = 0.
Proof. induction n as [|n IH]; simpl; [reflexivity|rewrite IH; ring]. Qed.

Lemma rsum_ge0 f n : (forall k, (k < n)%nat -> 0 <= f k) -> 0 <= rsum f n.
Proof.
  induction n as [|n IH]; intros H; simpl; [lra|].
  assert (0 <= rsum f n) by (apply IH; auto). assert (0 <= f n) by (apply H; auto). lra.
Qed.

(* jax.lax.logistic *)
Definition logistic (x : R) : R := 1 / (1 + exp (- x)).

Lemma logistic_range x : 0 < logistic x < 1.
Proof.
  unfold logistic. pose proof (exp_pos (- x)) as H.
  split.
  - apply Rdiv_lt_0_compat; lra.
  - apply (Rmult_lt_reg_r (1 + exp (- x))); [lra|]. field_simplify; lra.
Qed.

(* np.remainder(a, b) for b > 0: a - b * floor(a / b) *)
Definition pymod (a b : R) : R := a - b * IZR (Int_part (a / b)).

Lemma Int_part_floor r : IZR (Int_part r) <= r < IZR (Int_part r) + 1.
Proof.
  unfold Int_part. destruct (archimed r) as [H1 H2]. rewrite minus_IZR. lra.
Qed.

Lemma pymod_range a b : 0 < b -> 0 <= pymod a b < b.
Proof.
  intros Hb. unfold pymod. destruct (Int_part_floor (a / b)) as [H1 H2].
  assert (Ha : a = (a / b) * b) by (field; lra).
  split.
  - assert (IZR (Int_part (a / b)) * b <= (a / b) * b) by (apply Rmult_le_compat_r; lra). lra.
  - assert ((a / b) * b < (IZR (Int_part (a / b)) + 1) * b) by (apply Rmult_lt_compat_r; lra). lra.
Qed.

Lemma pymod_congruent a b : exists k : Z, pymod a b = a + IZR k * b.
Proof. exists (- Int_part (a / b))%Z. unfold pymod. rewrite opp_IZR. ring. Qed.

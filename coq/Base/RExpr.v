(* Deep embedding of the arithmetic the renderers perform, with the AD-safety
   predicate of C10: every primitive is evaluated strictly inside the domain where
   its local partial derivatives are finite, and for jnp.where BOTH branches are
   (reverse mode multiplies the partials of the unselected branch by a zero
   cotangent, so an infinite partial there still produces NaN). *)
From Coq Require Import Reals String ZArith.
From PS Require Import Base.RBase.
Open Scope R_scope.

Inductive rexpr :=
| RC (c : R) | RPi | RV (x : string)
| RAdd (a b : rexpr) | RSub (a b : rexpr) | RMul (a b : rexpr) | RDiv (a b : rexpr) | RNeg (a : rexpr)
| RPowZ (a : rexpr) (k : Z) | RPow (a b : rexpr)
| RCos (a : rexpr) | RSin (a : rexpr) | RExp (a : rexpr) | RSqrt (a : rexpr) | RLn (a : rexpr) | RAbs (a : rexpr)
| RLogistic (a : rexpr) | RLgamma (a : rexpr)
| RWhereEq (c1 c2 a b : rexpr).     (* jnp.where(c1 == c2, a, b) *)

Section Eval.
  Variable env : string -> R.
  Variable lgamma : R -> R.

  Fixpoint eval (e : rexpr) : R :=
    match e with
    | RC c => c
    | RPi => PI
    | RV x => env x
    | RAdd a b => eval a + eval b
    | RSub a b => eval a - eval b
    | RMul a b => eval a * eval b
    | RDiv a b => eval a / eval b
    | RNeg a => - eval a
    | RPowZ a k => match k with Zneg p => / (eval a ^ Pos.to_nat p) | _ => eval a ^ Z.to_nat k end
    | RPow a b => rpow (eval a) (eval b)
    | RCos a => cos (eval a)
    | RSin a => sin (eval a)
    | RExp a => exp (eval a)
    | RSqrt a => sqrt (eval a)
    | RLn a => ln (eval a)
    | RAbs a => Rabs (eval a)
    | RLogistic a => logistic (eval a)
    | RLgamma a => lgamma (eval a)
    | RWhereEq c1 c2 a b => if Req_EM_T (eval c1) (eval c2) then eval a else eval b
    end.

  Fixpoint ad_safe (e : rexpr) : Prop :=
    match e with
    | RC _ | RPi | RV _ => True
    | RAdd a b | RSub a b | RMul a b => ad_safe a /\ ad_safe b
    | RDiv a b => ad_safe a /\ ad_safe b /\ eval b <> 0
    | RNeg a | RCos a | RSin a | RExp a | RLogistic a => ad_safe a
    | RPowZ a k => ad_safe a /\ ((k < 0)%Z -> eval a <> 0)
    | RPow a b => ad_safe a /\ ad_safe b /\ 0 < eval a
    | RSqrt a => ad_safe a /\ 0 < eval a
    | RLn a => ad_safe a /\ 0 < eval a
    | RAbs a => ad_safe a /\ eval a <> 0
    | RLgamma a => ad_safe a /\ 0 < eval a
    | RWhereEq c1 c2 a b => ad_safe c1 /\ ad_safe c2 /\ ad_safe a /\ ad_safe b
    end.
End Eval.

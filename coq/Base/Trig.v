(* Angle-shift rewriting for the rotation convention theta + pi/2 used by all
   three evaluation paths. *)
From Coq Require Import Reals Lra.
Open Scope R_scope.

Lemma cos_shift t : cos (t + PI / 2) = - sin t.
Proof. rewrite cos_plus, cos_PI2, sin_PI2. ring. Qed.
Lemma sin_shift t : sin (t + PI / 2) = cos t.
Proof. rewrite sin_plus, cos_PI2, sin_PI2. ring. Qed.

(* theta + pi *)
Lemma cos_shift_pi t : cos (t + PI + PI / 2) = sin t.
Proof. rewrite cos_shift, neg_sin. ring. Qed.
Lemma sin_shift_pi t : sin (t + PI + PI / 2) = - cos t.
Proof. rewrite sin_shift, neg_cos. ring. Qed.

(* transpose: theta -> pi/2 - theta *)
Lemma cos_shift_tr t : cos (PI / 2 - t + PI / 2) = - cos t.
Proof. replace (PI / 2 - t + PI / 2) with (PI - t) by field. rewrite Rtrigo_facts.cos_pi_minus. reflexivity. Qed.
Lemma sin_shift_tr t : sin (PI / 2 - t + PI / 2) = sin t.
Proof. replace (PI / 2 - t + PI / 2) with (PI - t) by field. apply sin_PI_x. Qed.

(* mirror: theta -> - theta *)
Lemma cos_shift_neg t : cos (- t + PI / 2) = sin t.
Proof. rewrite cos_shift, sin_neg. ring. Qed.
Lemma sin_shift_neg t : sin (- t + PI / 2) = cos t.
Proof. rewrite sin_shift, cos_neg. reflexivity. Qed.

Lemma sin2_cos2_1 t : sin t ^ 2 = 1 - cos t ^ 2.
Proof. pose proof (sin2_cos2 t) as H. unfold Rsqr in H. simpl. lra. Qed.

Ltac trig_shift :=
  rewrite ?cos_shift_pi, ?sin_shift_pi, ?cos_shift_tr, ?sin_shift_tr, ?cos_shift_neg, ?sin_shift_neg, ?cos_shift, ?sin_shift.

(* Model of priors.estimate_sky: gather the pixels of the four border slices
   (regenerated from the source: Gen/EstimateSky.v), drop the masked ones iff
   the concatenation the code uses preserves masks, and take median / count.
   Pixel values are integers (the correspondence uses integer-valued images,
   so the median is exact: we return twice the median). *)
From Coq Require Import ZArith List Bool Lia.
From PS Require Import Base.PySlice Gen.EstimateSky.
Import ListNotations.
Open Scope Z_scope.

Definition slice2 := ((option Z * option Z) * (option Z * option Z))%type.

Definition slice_pixels (H W : Z) (s : slice2) : list (Z * Z) :=
  let '((rs, re), (cs, ce)) := s in
  prod2 (slice_indices H rs re) (slice_indices W cs ce).

Definition border_of (sl : list slice2) (H W : Z) : list (Z * Z) :=
  flat_map (slice_pixels H W) sl.

(* the pixels estimate_sky gathers, in gathering order *)
Definition border (H W n : Z) : list (Z * Z) := border_of (sky_slices n) H W.

Definition unmasked (masked : Z -> Z -> bool) (p : Z * Z) : bool := negb (masked (fst p) (snd p)).

(* pixel values entering the statistics *)
Definition gathered (keeps_mask : bool) (img : Z -> Z -> Z) (masked : Z -> Z -> bool) (H W n : Z) : list Z :=
  map (fun p => img (fst p) (snd p))
      (if keeps_mask then filter (unmasked masked) (border H W n) else border H W n).

Definition sky_values := gathered sky_concat_keeps_mask.

(* the third component of the returned tuple *)
Definition sky_count (masked : Z -> Z -> bool) (H W n : Z) : Z :=
  if sky_count_is_unmasked
  then Z.of_nat (length (filter (unmasked masked) (border H W n)))
  else Z.of_nat (length (border H W n)).

(* insertion sort and (twice the) median *)
Fixpoint insert (x : Z) (l : list Z) : list Z :=
  match l with
  | [] => [x]
  | y :: l' => if x <=? y then x :: l else y :: insert x l'
  end.
Definition isort (l : list Z) : list Z := fold_right insert [] l.

Definition median2 (l : list Z) : option Z :=
  let s := isort l in
  let n := length s in
  match n with
  | O => None
  | _ => if Nat.even n
         then Some (nth (n / 2 - 1) s 0 + nth (n / 2) s 0)
         else Some (2 * nth (n / 2) s 0)
  end.

(* image given as a list of rows (for the correspondence files) *)
Definition img_of (rows : list (list Z)) (r c : Z) : Z :=
  nth (Z.to_nat c) (nth (Z.to_nat r) rows []) 0.
Definition mask_of (rows : list (list bool)) (r c : Z) : bool :=
  nth (Z.to_nat c) (nth (Z.to_nat r) rows []) false.

Definition observe_sky (img : list (list Z)) (msk : list (list bool)) (H W n : Z)
  : option Z * Z * list Z :=
  let vals := sky_values (img_of img) (mask_of msk) H W n in
  (median2 vals, sky_count (mask_of msk) H W n, isort vals).

(* Outcome of constructing a fitter / renderer, over the regenerated steps. *)
From Coq Require Import ZArith List Bool.
From PS Require Import Base.InputModel Gen.InputChecks.
Import ListNotations.
Open Scope Z_scope.

(* the renderer is constructed with im_shape = data.shape and the same PSF *)
Definition renderer_inputs (i : inputs) : inputs :=
  {| shape := fun a => match a with Im => shape i Data | x => shape i x end;
     has_neg := has_neg i; mask_given := mask_given i |}.

(* outcome of constructing a fitter: first the validation steps, then the renderer's own test *)
Definition fitter_outcome (i : inputs) : option exn :=
  match run_steps i check_input_steps with
  | Some e => Some e
  | None => if eval_cond (renderer_inputs i) renderer_psf_test then Some KernelError else None
  end.

Definition renderer_outcome (i : inputs) : option exn :=
  if eval_cond i renderer_psf_test then Some KernelError else None.


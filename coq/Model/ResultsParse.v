(* Model of PySersicResults._parse_injested_data on variable NAMES: what
   happens to a posterior variable is decided by the three name predicates
   regenerated from the source (Gen/ResultsParse.v). *)
From Coq Require Import String List Bool.
From PS Require Import Base.PyStr Gen.ResultsParse Gen.ProfileParams.
Import ListNotations.
Open Scope string_scope.

Inductive fate := KeptUnchanged | KeptWrapped | Dropped | ToModels | ToModelsWrapped.

Definition fate_eqb (a b : fate) : bool :=
  match a, b with
  | KeptUnchanged, KeptUnchanged | KeptWrapped, KeptWrapped | Dropped, Dropped
  | ToModels, ToModels | ToModelsWrapped, ToModelsWrapped => true
  | _, _ => false
  end.

(* the wrap loop runs over all variables first; the purge second *)
Definition fate_of (purge : bool) (v : string) : fate :=
  if purge then
    if drops_internal v then Dropped
    else if is_model v then (if wraps v then ToModelsWrapped else ToModels)
    else if wraps v then KeptWrapped else KeptUnchanged
  else if wraps v then KeptWrapped else KeptUnchanged.

(* every parameter name of every profile type and sky type, without repetition *)
Fixpoint dedup (l : list string) : list string :=
  match l with
  | [] => []
  | x :: l' => if existsb (String.eqb x) l' then dedup l' else x :: dedup l'
  end.

Definition all_params : list string :=
  dedup (flat_map snd profile_params_rendering ++ flat_map snd profile_params_priors ++ flat_map snd sky_params).

(* nuisance variables of the loss functions *)
Definition loss_vars : list string :=
  ["frac_rms_increase"; "sys_rms"; "outlier_frac"; "rms_frac"].
Definition loss_internal_vars : list string :=
  ["sys_rms_base"; "outlier_frac_base"].

Definition is_angle (p : string) : bool := String.eqb p "theta".

Definition non_angle_params : list string := filter (fun p => negb (is_angle p)) all_params ++ loss_vars.

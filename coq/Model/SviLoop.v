(* Executable model of pysersic.pysersic.train_numpyro_svi_early_stop.

   An SVI state is identified with its *lineage*: the list of update-call ids
   (most recent first) that produced it from the initial state [].  The k-th
   call of the jitted update function (k = 0 is the unconditional first step)
   returns the scripted loss `script k`.  No proofs in this file. *)
From Coq Require Import List Arith ZArith Bool.
From PS Require Import Base.ExtLoss.
Import ListNotations.

Definition lineage := list nat.

Record cfg := { num_round : nat; max_train : nat; patience : nat }.

Record event := {
  ev_call   : nat;       (* global id of the update call *)
  ev_parent : lineage;   (* state the update was applied to *)
  ev_loss   : loss;      (* loss returned by that call *)
  ev_wait   : nat;       (* wait_counter when the call was made *)
  ev_adopt  : bool;      (* best_state := new state *)
  ev_break  : bool       (* the `break` was taken at this step *)
}.

Definition ev_state (e : event) : lineage := ev_call e :: ev_parent e.

Section Loop.
  Variable script : nat -> loss.
  Variable pat : nat.

  (* the `for j in t:` loop with k iterations left *)
  Fixpoint inner (k id : nat) (cur : lineage) (bl : loss) (w : nat) : list event :=
    match k with
    | 0 => []
    | S k' =>
      let l := script id in
      if ltb l bl then
        Build_event id cur l w true false :: inner k' (S id) (id :: cur) l 0
      else if pat <=? w then
        [Build_event id cur l w false true]
      else
        Build_event id cur l w false false :: inner k' (S id) (id :: cur) bl (S w)
    end.

  (* incumbent (state, loss) after a list of events *)
  Fixpoint best_after (best : lineage) (bl : loss) (evs : list event) : lineage * loss :=
    match evs with
    | [] => (best, bl)
    | e :: evs' =>
      if ev_adopt e then best_after (ev_state e) (ev_loss e) evs'
      else best_after best bl evs'
    end.

  Definition cur_after (start : lineage) (evs : list event) : lineage :=
    match rev evs with
    | [] => start
    | e :: _ => ev_state e
    end.

  (* `losses.append(loss)` is skipped on the breaking step *)
  Definition appended (evs : list event) : list loss :=
    map ev_loss (filter (fun e => negb (ev_break e)) evs).

  Record rrec := {
    r_index : nat;          (* r: exponent of the decay factor *)
    r_start : lineage;      (* svi_state = copy(best_state) *)
    r_b0    : loss;         (* best_loss at the start of the round *)
    r_evs   : list event
  }.

  Fixpoint rounds (maxt n r id : nat) (best : lineage) (bl : loss) : list rrec :=
    match n with
    | 0 => []
    | S n' =>
      let b0 := if r =? 0 then bl else PInf in
      let evs := inner maxt id best b0 0 in
      let '(best', bl') := best_after best b0 evs in
      Build_rrec r best b0 evs :: rounds maxt n' (S r) (id + length evs) best' bl'
    end.
End Loop.

Record result := {
  res_best   : lineage;     (* svi_class.get_params(best_state) *)
  res_state  : lineage;     (* svi_state *)
  res_losses : list loss;   (* losses (of the last round) *)
  res_rounds : list rrec
}.

Definition run_rounds (c : cfg) (script : nat -> loss) : list rrec :=
  rounds script (patience c) (max_train c) (num_round c) 0 1 [0] (script 0).

(* None models the UnboundLocalError that num_round = 0 raises
   (`svi_state`/`losses` are only bound inside the round loop). *)
Definition run (c : cfg) (script : nat -> loss) : option result :=
  let rs := run_rounds c script in
  match rev rs with
  | [] => None
  | lastr :: _ =>
    let '(b, _) := best_after (r_start lastr) (r_b0 lastr) (r_evs lastr) in
    Some (Build_result b (cur_after (r_start lastr) (r_evs lastr))
                       (appended (r_evs lastr)) rs)
  end.

(* total number of update calls, including call 0 *)
Definition total_calls (rs : list rrec) : nat :=
  1 + fold_right (fun r acc => length (r_evs r) + acc) 0 rs.

(* script given as a finite list, NaN beyond its end (never reached in the
   correspondence runs: the harness supplies a long enough list). *)
Definition script_of (l : list loss) (k : nat) : loss := nth k l NaN.

(* flat observation compared with the implementation:
   (best lineage, final state lineage, appended losses,
    decay exponent of every call after call 0, parent state of every such call) *)
Definition observe (c : cfg) (l : list loss)
  : option (lineage * lineage * list loss * list nat * list lineage) :=
  match run c (script_of l) with
  | None => None
  | Some r =>
    Some (res_best r, res_state r, res_losses r,
          flat_map (fun rr => map (fun _ => r_index rr) (r_evs rr)) (res_rounds r),
          flat_map (fun rr => map ev_parent (r_evs rr)) (res_rounds r))
  end.

(* number of script entries the run consumes *)
Definition consumed (c : cfg) (l : list loss) : nat :=
  total_calls (run_rounds c (script_of l)).

(* boolean comparison of observations: used only to LIST disagreeing cases when
   the kernel-checked equality of a correspondence file fails *)
Fixpoint list_eqb {A} (eqb : A -> A -> bool) (l1 l2 : list A) : bool :=
  match l1, l2 with
  | [], [] => true
  | x :: l1', y :: l2' => eqb x y && list_eqb eqb l1' l2'
  | _, _ => false
  end.

Definition obs := option (lineage * lineage * list loss * list nat * list lineage).

Definition obs_eqb (a b : obs) : bool :=
  match a, b with
  | None, None => true
  | Some (b1, s1, l1, e1, p1), Some (b2, s2, l2, e2, p2) =>
    list_eqb Nat.eqb b1 b2 && list_eqb Nat.eqb s1 s2 && list_eqb loss_eqb l1 l2 &&
    list_eqb Nat.eqb e1 e2 && list_eqb (list_eqb Nat.eqb) p1 p2
  | _, _ => false
  end.

Fixpoint failing_from (i : nat) (cs : list (cfg * list loss * obs)) : list nat :=
  match cs with
  | [] => []
  | (c, l, o) :: cs' =>
    if obs_eqb (observe c l) o then failing_from (S i) cs' else i :: failing_from (S i) cs'
  end.

(* Proofs for C10: AD-safety of the evaluation kernels on the prior support, over the
   deep terms REGENERATED from rendering.py (Gen/DeepFormulas.v). *)
From Coq Require Import Reals Lra ZArith String Lia.
From PS Require Import Base.RBase Base.RExpr Gen.Formulas Gen.DeepFormulas Gen.Amps.
Open Scope R_scope.
Open Scope string_scope.

Definition env9 (X Y xc yc flux r_eff n ellip theta : R) (v : string) : R :=
  if String.eqb v "X" then X else if String.eqb v "Y" then Y else if String.eqb v "xc" then xc else
  if String.eqb v "yc" then yc else if String.eqb v "flux" then flux else if String.eqb v "r_eff" then r_eff else
  if String.eqb v "n" then n else if String.eqb v "ellip" then ellip else if String.eqb v "theta" then theta else 0.

(* the deep term denotes the shallow definition the other theorems are about *)
Lemma sersic2d_deep_eval lg X Y xc yc flux r n e t :
  eval (env9 X Y xc yc flux r n e t) lg sersic2d_deep = sersic2d lg X Y xc yc flux r n e t.
Proof. reflexivity. Qed.

Ltac pos :=
  match goal with
  | |- 0 < exp _ => apply exp_pos
  | |- 0 < PI => apply PI_RGT_0
  | |- 0 < sqrt _ => apply sqrt_lt_R0; pos
  | |- 0 < (if Req_EM_T ?z 0 then 1 else ?z) =>
    destruct (Req_EM_T z 0); [lra|assert (0 <= z) by (apply Rplus_le_le_0_compat; apply pow2_ge_0); lra]
  | |- 0 < ?a * ?b => apply Rmult_lt_0_compat; pos
  | |- 0 < ?a ^ _ => apply pow_lt; pos
  | |- 0 < / ?a => apply Rinv_0_lt_compat; pos
  | |- 0 < ?a / ?b => apply Rdiv_lt_0_compat; pos
  | |- 0 < _ => lra
  end.

Ltac side :=
  match goal with
  | |- True => exact I
  | |- (_ < 0)%Z -> _ => let H := fresh in intros H; exfalso; lia
  | |- _ <> 0 => apply Rgt_not_eq; unfold Rgt; pos
  | |- 0 < _ => pos
  | |- _ => first [lia | lra | discriminate | (intro; lia) | (intro; lra)]
  end.

Ltac reduce_deep :=
  cbn [ad_safe eval];
  cbn [env9 String.eqb Ascii.eqb Bool.eqb];
  change (Z.to_nat 2) with 2%nat.

(* every sample point, every centre (including X = xc, Y = yc), every angle and flux;
   r_eff >= 1/2, 0 <= ellip <= 9/10, n >= 13/20: the support of the generated priors *)
Lemma sersic2d_ad_safe lg X Y xc yc flux r n e t :
  1 / 2 <= r -> 0 <= e <= 9 / 10 -> 13 / 20 <= n ->
  ad_safe (env9 X Y xc yc flux r n e t) lg sersic2d_deep.
Proof.
  intros Hr He Hn. unfold sersic2d_deep. reduce_deep.
  repeat match goal with |- _ /\ _ => split end; side.
Qed.

(* Fourier-space kernels: no primitive with a restricted domain at all *)
Definition env8 (FX FY amps sigmas xc yc theta q : R) (v : string) : R :=
  if String.eqb v "FX" then FX else if String.eqb v "FY" then FY else if String.eqb v "amps" then amps else
  if String.eqb v "sigmas" then sigmas else if String.eqb v "xc" then xc else if String.eqb v "yc" then yc else
  if String.eqb v "theta" then theta else if String.eqb v "q" then q else 0.

Lemma gauss_fourier_ad_safe lg FX FY a sg xc yc t q :
  ad_safe (env8 FX FY a sg xc yc t q) lg gauss_fourier_comp_re_deep /\
  ad_safe (env8 FX FY a sg xc yc t q) lg gauss_fourier_comp_im_deep.
Proof.
  unfold gauss_fourier_comp_re_deep, gauss_fourier_comp_im_deep. cbn [ad_safe eval].
  split; repeat match goal with |- _ /\ _ => split end; side.
Qed.

Definition env5 (FX FY xc yc flux : R) (v : string) : R :=
  if String.eqb v "FX" then FX else if String.eqb v "FY" then FY else if String.eqb v "xc" then xc else
  if String.eqb v "yc" then yc else if String.eqb v "flux" then flux else 0.

Lemma ps_fourier_ad_safe lg FX FY xc yc f :
  ad_safe (env5 FX FY xc yc f) lg ps_fourier_re_deep /\ ad_safe (env5 FX FY xc yc f) lg ps_fourier_im_deep.
Proof.
  unfold ps_fourier_re_deep, ps_fourier_im_deep. cbn [ad_safe eval].
  split; repeat match goal with |- _ /\ _ => split end; side.
Qed.

(* real-space Gaussian components: sigma > 0 and q > 0 suffice *)
Definition env8p (X Y amps sigmas xc yc theta q : R) (v : string) : R :=
  if String.eqb v "X" then X else if String.eqb v "Y" then Y else if String.eqb v "amps" then amps else
  if String.eqb v "sigmas" then sigmas else if String.eqb v "xc" then xc else if String.eqb v "yc" then yc else
  if String.eqb v "theta" then theta else if String.eqb v "q" then q else 0.

Lemma gauss_pixel_ad_safe lg X Y a sg xc yc t q : 0 < sg -> 0 < q ->
  ad_safe (env8p X Y a sg xc yc t q) lg gauss_pixel_comp_deep.
Proof.
  intros Hs Hq. unfold gauss_pixel_comp_deep. cbn [ad_safe eval]. cbn [env8p String.eqb Ascii.eqb Bool.eqb].
  repeat match goal with |- _ /\ _ => split end; side.
Qed.

(* the hybrid broadening and the logspace bounds: r_eff >= 1/2, fractions > 0, ellip <= 9/10, any s_psf *)
Definition env3 (ellip sigmas s_psf : R) (v : string) : R :=
  if String.eqb v "ellip" then ellip else if String.eqb v "sigmas" then sigmas else if String.eqb v "s_psf" then s_psf else 0.

Lemma hybrid_broadening_ad_safe lg e sg s : 0 <= e <= 9 / 10 -> 0 < sg ->
  ad_safe (env3 e sg s) lg sigma_obs_deep /\ ad_safe (env3 e sg s) lg q_obs_deep.
Proof.
  intros He Hs. unfold sigma_obs_deep, q_obs_deep. cbn [ad_safe eval]. cbn [env3 String.eqb Ascii.eqb Bool.eqb].
  change (Z.to_nat 2) with 2%nat.
  assert (H1 : 0 < sg ^ 2) by (apply pow_lt; assumption).
  assert (H2 : 0 <= s ^ 2) by (apply pow2_ge_0).
  assert (H3 : 0 < sg ^ 2 + s ^ 2) by lra.
  assert (H4 : 0 < (1 - e) * (1 - e)) by (apply Rmult_lt_0_compat; lra).
  assert (H5 : 0 < (1 - e) * (1 - e) * sg ^ 2 + s ^ 2) by (assert (0 < (1 - e) * (1 - e) * sg ^ 2) by (apply Rmult_lt_0_compat; assumption); lra).
  assert (H6 : 0 < sqrt (sg ^ 2 + s ^ 2)) by (apply sqrt_lt_R0; assumption).
  assert (H7 : 0 < sqrt (sg ^ 2 + s ^ 2) ^ 2) by (apply pow_lt; assumption).
  repeat match goal with |- _ /\ _ => split end;
    try exact I; try (intros Hk; exfalso; lia); try assumption; try (apply Rgt_not_eq; assumption).
  apply Rdiv_lt_0_compat; assumption.
Qed.

Definition env_ls (r_eff frac_start frac_end : R) (v : string) : R :=
  if String.eqb v "r_eff" then r_eff else if String.eqb v "frac_start" then frac_start else if String.eqb v "frac_end" then frac_end else 0.

Lemma logspace_ad_safe lg r fs fe : 1 / 2 <= r -> 0 < fs -> 0 < fe ->
  ad_safe (env_ls r fs fe) lg logspace_lo_deep /\ ad_safe (env_ls r fs fe) lg logspace_hi_deep.
Proof.
  intros Hr H1 H2. unfold logspace_lo_deep, logspace_hi_deep. cbn [ad_safe eval]. cbn [env_ls String.eqb Ascii.eqb Bool.eqb].
  assert (Hl : ln 10 <> 0).
  { apply Rgt_not_eq. rewrite <- ln_1. apply ln_increasing; lra. }
  repeat match goal with |- _ /\ _ => split end; try exact I; try assumption; try lra;
    apply Rmult_lt_0_compat; lra.
Qed.

(* Proofs for C04: why the hybrid and Fourier renderers differ only in WHERE the largest
   Gaussian components are evaluated; scale covariance of the decomposition; Hermite knots. *)
From Coq Require Import Reals Lra.
From PS Require Import Base.RBase Base.Trig Gen.Formulas Gen.Amps Proofs.SymmetryProofs.
Open Scope R_scope.

(* sigma_obs^2 = sigma^2 + s^2 *)
Lemma sigma_obs_sq sigma s : sigma_obs sigma s ^ 2 = sigma ^ 2 + s ^ 2.
Proof.
  unfold sigma_obs. apply pow2_sqrt.
  assert (0 <= sigma ^ 2) by (apply pow2_ge_0). assert (0 <= s ^ 2) by (apply pow2_ge_0). lra.
Qed.

Lemma sigma_obs_pos sigma s : 0 < sigma -> 0 < sigma_obs sigma s.
Proof.
  intros H. unfold sigma_obs. apply sqrt_lt_R0. assert (0 <= s ^ 2) by (apply pow2_ge_0). assert (0 < sigma ^ 2) by (apply pow_lt; assumption). lra.
Qed.

(* (q_obs sigma_obs)^2 = q^2 sigma^2 + s^2: the minor-axis variance also just gains s^2 *)
Lemma q_obs_sq e sigma s : 0 < sigma ->
  q_obs e sigma s ^ 2 * sigma_obs sigma s ^ 2 = (1 - e) ^ 2 * sigma ^ 2 + s ^ 2.
Proof.
  intros Hs. pose proof (sigma_obs_pos sigma s Hs) as Hp. pose proof (sigma_obs_sq sigma s) as Hq.
  unfold q_obs. fold (sigma_obs sigma s).
  assert (Hnum : 0 <= (1 - e) * (1 - e) * sigma ^ 2 + s ^ 2).
  { assert (0 <= (1 - e) * (1 - e)) by (apply Rle_0_sqr). assert (0 <= sigma ^ 2) by (apply pow2_ge_0). assert (0 <= s ^ 2) by (apply pow2_ge_0). nra. }
  assert (Hden : 0 < sigma_obs sigma s ^ 2) by (apply pow_lt; assumption).
  replace (sqrt (((1 - e) * (1 - e) * sigma ^ 2 + s ^ 2) / sigma_obs sigma s ^ 2) ^ 2)
    with (((1 - e) * (1 - e) * sigma ^ 2 + s ^ 2) / sigma_obs sigma s ^ 2).
  - field. lra.
  - symmetry. apply pow2_sqrt.
    apply Rmult_le_pos; [assumption|]. left. apply Rinv_0_lt_compat. assumption.
Qed.

(* hence the real-space component of the hybrid renderer is the Gaussian with covariance
   R diag(sigma^2, q^2 sigma^2) R^T + s^2 I: exponents along the two principal directions *)
Lemma hybrid_component_covariance xc yc a e sigma s t w : 0 < sigma -> 0 < 1 - e ->
  gauss_pixel_exponent (xc - w * sin t) (yc + w * cos t) a (sigma_obs sigma s) xc yc t (q_obs e sigma s)
    = - (w ^ 2) / (2 * (sigma ^ 2 + s ^ 2)) /\
  gauss_pixel_exponent (xc + w * cos t) (yc + w * sin t) a (sigma_obs sigma s) xc yc t (q_obs e sigma s)
    = - (w ^ 2) / (2 * ((1 - e) ^ 2 * sigma ^ 2 + s ^ 2)).
Proof.
  intros Hs He. pose proof (sigma_obs_sq sigma s) as H1. pose proof (q_obs_sq e sigma s Hs) as H2.
  pose proof (sigma_obs_pos sigma s Hs) as Hp.
  assert (Hm : 0 < (1 - e) ^ 2 * sigma ^ 2 + s ^ 2).
  { assert (0 < (1 - e) ^ 2) by (apply pow_lt; assumption). assert (0 < sigma ^ 2) by (apply pow_lt; assumption). assert (0 <= s ^ 2) by (apply pow2_ge_0). nra. }
  split.
  - rewrite gpe_along_major. replace (2 * sigma_obs sigma s * sigma_obs sigma s) with (2 * sigma_obs sigma s ^ 2) by (simpl; ring).
    rewrite H1. unfold Rdiv. reflexivity.
  - rewrite gpe_along_minor.
    assert (Hq : q_obs e sigma s * q_obs e sigma s * (2 * sigma_obs sigma s * sigma_obs sigma s) = 2 * ((1 - e) ^ 2 * sigma ^ 2 + s ^ 2)).
    { rewrite <- H2. simpl. ring. }
    assert (Hqq : q_obs e sigma s * q_obs e sigma s <> 0).
    { intros Hz. rewrite Hz in Hq. lra. }
    assert (Hss : 2 * sigma_obs sigma s * sigma_obs sigma s <> 0) by nra.
    unfold Rdiv. rewrite Rmult_assoc, <- Rinv_mult by assumption.
    replace (q_obs e sigma s * q_obs e sigma s * (2 * sigma_obs sigma s * sigma_obs sigma s)) with (2 * ((1 - e) ^ 2 * sigma ^ 2 + s ^ 2)) by (rewrite <- Hq; ring).
    reflexivity.
Qed.

(* s = 0 (no PSF): the real-space component is the unbroadened one *)
Lemma no_psf_no_broadening e sigma : 0 < sigma -> sigma_obs sigma 0 ^ 2 = sigma ^ 2 /\ q_obs e sigma 0 ^ 2 * sigma_obs sigma 0 ^ 2 = (1 - e) ^ 2 * sigma ^ 2.
Proof. intros H. split; [rewrite sigma_obs_sq; ring|rewrite (q_obs_sq e sigma 0 H); ring]. Qed.

(* a table built at flux = r_eff = 1 is valid for every flux and radius:
   sersic1D(re x; flux, re, n) = flux / re^2 * sersic1D(x; 1, 1, n) *)
Lemma sersic1d_scale_covariant lg x flux re n : 0 < re -> 0 < n ->
  sersic1d lg (re * x) flux re n = flux / re ^ 2 * sersic1d lg x 1 1 n.
Proof.
  intros Hre Hn. unfold sersic1d.
  replace (re * x / re) with x by (field; lra). replace (x / 1) with x by field.
  pose proof PI_RGT_0 as Hpi.
  set (ex := exp (_ + lg (2 * n))). assert (Hex : 0 < ex) by apply exp_pos.
  field. repeat split; lra.
Qed.

(* cubic Hermite segment as interpax evaluates it *)
Definition hermite (f0 f1 d0 d1 h t : R) : R :=
  (2 * t ^ 3 - 3 * t ^ 2 + 1) * f0 + (t ^ 3 - 2 * t ^ 2 + t) * h * d0 +
  (- 2 * t ^ 3 + 3 * t ^ 2) * f1 + (t ^ 3 - t ^ 2) * h * d1.

(* at the knots the interpolant returns the table values, whatever the derivative estimates *)
Lemma hermite_at_knots f0 f1 d0 d1 h : hermite f0 f1 d0 d1 h 0 = f0 /\ hermite f0 f1 d0 d1 h 1 = f1.
Proof. unfold hermite. split; ring. Qed.

Lemma amps_at_unit_flux an : amps_interp an 1 = an.
Proof. unfold amps_interp. ring. Qed.

(* In Fourier space: the component the hybrid renderer evaluates in real space has, as its transform, the Fourier renderer's
   component times the transfer function exp(-2 pi^2 s^2 |f|^2) of a circular Gaussian PSF of width s *)
Lemma hybrid_component_is_fourier_times_gaussian_psf FX FY a sigma s xc yc t e : 0 < sigma ->
  gauss_fourier_logamp FX FY a (sigma_obs sigma s) xc yc t (q_obs e sigma s)
  = gauss_fourier_logamp FX FY a sigma xc yc t (1 - e) + - (2 * PI * PI * (s * s)) * (FX * FX + FY * FY).
Proof.
  intros Hs. pose proof (sigma_obs_sq sigma s) as H1. pose proof (q_obs_sq e sigma s Hs) as H2.
  unfold gauss_fourier_logamp.
  set (c := cos (t + PI / 2)). set (sn := sin (t + PI / 2)).
  assert (H3 : sn * sn + c * c = 1).
  { pose proof (sin2_cos2 (t + PI / 2)) as H. unfold Rsqr in H. exact H. }
  set (so := sigma_obs sigma s) in *. set (qo := q_obs e sigma s) in *.
  set (u := FX * c + FY * sn). set (v := -1 * FX * sn + FY * c).
  replace (-1 * (u * u + v * v * qo * qo) * (2 * PI * PI * so * so))
    with (- (2 * PI * PI) * (u * u * (so ^ 2) + v * v * (qo ^ 2 * so ^ 2))) by ring.
  rewrite H2, H1.
  replace (FX * FX + FY * FY) with (u * u + v * v).
  - ring.
  - unfold u, v. replace ((FX * c + FY * sn) * (FX * c + FY * sn) + (-1 * FX * sn + FY * c) * (-1 * FX * sn + FY * c))
      with ((FX * FX + FY * FY) * (sn * sn + c * c)) by ring. rewrite H3. ring.
Qed.

(* Proofs for C12 over generate_prior / parameter tables REGENERATED from the source. *)
From Coq Require Import Reals Lra List String Bool.
From PS Require Import Base.RBase Base.PyStr Gen.ProfileParams Gen.GeneratePrior.
Import ListNotations.
Open Scope string_scope.

Definition mem (x : string) (l : list string) : bool := existsb (String.eqb x) l.
Definition subset (a b : list string) : bool := forallb (fun x => mem x b) a.
Definition set_eqb (a b : list string) : bool := subset a b && subset b a && Nat.eqb (List.length a) (List.length b).

Fixpoint lookup (T : string) (tab : list (string * list string)) : list string :=
  match tab with
  | [] => []
  | (k, v) :: tab' => if String.eqb k T then v else lookup T tab'
  end.

Definition profile_types : list string := map fst profile_params_rendering.

(* the required-parameter table is duplicated in two modules: same types, same parameter SETS *)
Lemma tables_agree :
  map fst profile_params_rendering = map fst profile_params_priors /\
  forallb (fun T => set_eqb (lookup T profile_params_rendering) (lookup T profile_params_priors)) profile_types = true.
Proof. split; reflexivity. Qed.

Lemma seven_types : profile_types = ["sersic"; "doublesersic"; "sersic_exp"; "sersic_pointsource"; "pointsource"; "exp"; "dev"].
Proof. reflexivity. Qed.

Section Guesses.
  Variables fg fe xg yg rg re tg sg se : R.

  Definition names_of (T : string) : list string := map fst (generated_prior T fg fe xg yg rg re tg sg se).

  (* exactly the required parameters: none missing, none extra, none twice *)
  Lemma generate_prior_complete :
    forallb (fun T => set_eqb (names_of T) (lookup T profile_params_rendering)) profile_types = true.
  Proof. reflexivity. Qed.

  (* support bounds of a generated prior (from the helper laws of C11) *)
  Definition lower (s : prior_spec) : option R :=
    match s with PGauss _ _ => None | PUnif lo _ => Some lo | PTrunc _ _ lo _ => lo end.
  Definition upper (s : prior_spec) : option R :=
    match s with PGauss _ _ => None | PUnif _ hi => Some hi | PTrunc _ _ _ hi => hi end.

  Definition within (s : prior_spec) (lo hi : R) : Prop :=
    (match lower s with Some a => lo <= a | None => False end) /\
    (match upper s with Some b => b <= hi | None => False end).
  Definition at_least (s : prior_spec) (lo : R) : Prop :=
    match lower s with Some a => lo <= a | None => False end.

  (* physical domain per parameter family *)
  Definition entry_ok (e : string * prior_spec) : Prop :=
    let '(n, s) := e in
    if prefixb "r_eff" n then at_least s (1 / 2)
    else if prefixb "ellip" n then within s 0 (9 / 10)
    else if String.eqb n "n" || prefixb "n_" n then within s (13 / 20) 8
    else if String.eqb n "theta" then within s 0 (2 * PI)
    else if prefixb "f_" n then within s 0 1
    else True.

  Ltac entry :=
    unfold entry_ok;
    cbn [prefixb String.eqb Ascii.eqb Bool.eqb andb orb];
    unfold within, at_least; cbn [lower upper];
    try exact I; try (split; lra); try lra.

  Lemma generate_prior_physical T : In T profile_types -> Forall entry_ok (generated_prior T fg fe xg yg rg re tg sg se).
  Proof.
    pose proof PI_RGT_0 as Hpi.
    intros HT. rewrite seven_types in HT. cbn [In] in HT.
    destruct HT as [<-|[<-|[<-|[<-|[<-|[<-|[<-|[]]]]]]]];
      cbn [generated_prior String.eqb Ascii.eqb Bool.eqb];
      unfold generated_prior_sersic, generated_prior_doublesersic, generated_prior_sersic_exp,
             generated_prior_sersic_pointsource, generated_prior_pointsource, generated_prior_exp, generated_prior_dev;
      repeat (apply Forall_cons; [entry|]); apply Forall_nil.
  Qed.

  (* positions and flux are centred on the guesses *)
  Lemma generate_prior_centres T : In T profile_types ->
    In ("flux", PGauss fg fe) (generated_prior T fg fe xg yg rg re tg sg se) /\
    In ("xc", PGauss xg 1) (generated_prior T fg fe xg yg rg re tg sg se) /\
    In ("yc", PGauss yg 1) (generated_prior T fg fe xg yg rg re tg sg se).
  Proof.
    intros HT. rewrite seven_types in HT. cbn [In] in HT.
    destruct HT as [<-|[<-|[<-|[<-|[<-|[<-|[<-|[]]]]]]]];
      cbn [generated_prior String.eqb Ascii.eqb Bool.eqb];
      unfold generated_prior_sersic, generated_prior_doublesersic, generated_prior_sersic_exp,
             generated_prior_sersic_pointsource, generated_prior_pointsource, generated_prior_exp, generated_prior_dev;
      cbn [In]; tauto.
  Qed.
End Guesses.

(* multi-source priors: the key of parameter p of source i determines (p, i) *)
Lemma multi_prior_naming :
  multi_prior_suffix_is_underscore_index_suffix = true /\
  forall p i p' i' sfx, source_key p i sfx = source_key p' i' sfx -> p = p' /\ i = i'.
Proof. split; [reflexivity|]. intros. eapply source_key_inj; eassumption. Qed.

Lemma sky_param_table :
  sky_params = [("none", []); ("flat", ["sky_back"]); ("tilted-plane", ["sky_back"; "sky_x_sl"; "sky_y_sl"])].
Proof. reflexivity. Qed.

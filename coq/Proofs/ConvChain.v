(* The whole FFT convolution chain of BaseRenderer: PSF_fft = rfft2(psf, s = shape) * ramp_x * ramp_y and
   conv_fft(image) = irfft2(rfft2(image) * PSF_fft).  For an odd square stamp P = 2c+1 the ramps (regenerated
   from the source, Gen/Ramps.v) are the root-of-unity phases w^(c k), which by the transform's shift theorem
   advance the zero-padded stamp by c pixels along both axes, so that its geometric centre entry sits on the
   origin.  Result: every pixel of the model is  sum_{y,x} scene[y,x] * psf_padded[r - y + c, col - x + c]
   (indices circular), i.e. the scene convolved with the stamp as supplied, centred on its geometric centre,
   rows to rows and columns to columns. *)
From Coq Require Import Reals Lra Lia Arith.
From Coquelicot Require Import Coquelicot.
From PS Require Import Base.RBase Base.Dft Base.Dft2 Gen.Ramps Proofs.ConvProofs.
Open Scope C_scope.

Section Chain.
  Variable N : nat.
  Hypothesis HN : (0 < N)%nat.
  Let w := wN N.

  (* shift theorem: advancing a signal by c samples multiplies its transform by w^(c k) *)
  Lemma dft_advance a c k : dft N (fun x => a ((x + c) mod N)%nat) k = w ^^ (c * k) * dft N a k.
  Proof.
    unfold dft. fold w.
    rewrite <- (csum_rot N HN (fun z => a z * w ^^ ((N - 1) * (k * z))) c).
    rewrite <- csum_scal. apply csum_ext. intros x Hx.
    unfold w. rewrite (kernel_periodic N HN k (x + c)). fold w.
    replace ((N - 1) * (k * (x + c)))%nat with ((N - 1) * (k * x) + (N - 1) * (k * c))%nat by nia.
    rewrite Cpow_add.
    transitivity (a ((x + c) mod N)%nat * w ^^ ((N - 1) * (k * x)) * (w ^^ (c * k) * w ^^ ((N - 1) * (k * c)))); [|ring].
    rewrite <- Cpow_add.
    replace (c * k + (N - 1) * (k * c))%nat with (0 + (k * c) * N)%nat by nia.
    unfold w. rewrite (w_mult_N N HN). cbn [Cpow]. ring.
  Qed.

  Definition advance2 (cy cx : nat) (p : nat -> nat -> C) (y x : nat) : C := p ((y + cy) mod N)%nat ((x + cx) mod N)%nat.

  Lemma dft2_advance2 p cy cx ky kx :
    dft2 N (advance2 cy cx p) ky kx = dft2 N p ky kx * (w ^^ (cy * ky) * w ^^ (cx * kx)).
  Proof.
    unfold dft2, advance2.
    rewrite (dft_ext N _ (fun y => w ^^ (cx * kx) * dft N (fun x => p ((y + cy) mod N)%nat x) kx)).
    2:{ intros y _. apply (dft_advance (fun x => p ((y + cy) mod N)%nat x)). }
    rewrite (dft_ext N _ (fun y => dft N (fun x => p ((y + cy) mod N)%nat x) kx * w ^^ (cx * kx))) by (intros; ring).
    rewrite dft_scal_r.
    rewrite (dft_advance (fun y => dft N (fun x => p y x) kx) cy ky). ring.
  Qed.

  Lemma advance2_real p cy cx : (forall y x, is_real (p y x)) -> forall y x, is_real (advance2 cy cx p y x).
  Proof. intros H y x. apply H. Qed.

  (* the chain with explicit root-of-unity phases *)
  Theorem conv_chain_phases a p cy cx r c :
    (forall y x, is_real (a y x)) -> (forall y x, is_real (p y x)) -> (r < N)%nat -> (c < N)%nat ->
    irfft2 N (fun ky kx => dft2 N a ky kx * (dft2 N p ky kx * (w ^^ (cy * ky) * w ^^ (cx * kx)))) r c
    = Re (csum (fun y => csum (fun x => a y x * p (((r + (N - y)) mod N + cy) mod N)%nat (((c + (N - x)) mod N + cx) mod N)%nat) N) N).
  Proof.
    intros Ha Hp Hr Hc.
    change (csum (fun y => csum (fun x => a y x * p (((r + (N - y)) mod N + cy) mod N)%nat (((c + (N - x)) mod N + cx) mod N)%nat) N) N)
      with (circ_conv2 N a (advance2 cy cx p) r c).
    rewrite <- (irfft2_product_is_circ_conv2 N HN a (advance2 cy cx p) r c Ha (advance2_real p cy cx Hp) Hr Hc).
    unfold irfft2. f_equal. f_equal. apply irfft2_T_ext. intros ky kx _.
    rewrite dft2_advance2. reflexivity.
  Qed.
End Chain.

(* the ramps regenerated from the source, at the fftfreq / rfftfreq grid values k/N, for an odd stamp 2c+1 *)
Theorem conv_chain_ramps N a p c0 r c :
  (0 < N)%nat -> (forall y x, is_real (a y x)) -> (forall y x, is_real (p y x)) -> (r < N)%nat -> (c < N)%nat ->
  irfft2 N (fun ky kx => dft2 N a ky kx *
                         (dft2 N p ky kx * (cis (ramp_y_phase (INR (2 * c0 + 1)) (INR ky / INR N)) * cis (ramp_x_phase (INR (2 * c0 + 1)) (INR kx / INR N))))) r c
  = Re (csum (fun y => csum (fun x => a y x * p (((r + (N - y)) mod N + c0) mod N)%nat (((c + (N - x)) mod N + c0) mod N)%nat) N) N).
Proof.
  intros HN Ha Hp Hr Hc.
  rewrite <- (conv_chain_phases N HN a p c0 c0 r c Ha Hp Hr Hc).
  unfold irfft2. f_equal. f_equal. apply irfft2_T_ext. intros ky kx _.
  destruct (ramp_is_integer_shift N c0 kx HN) as [Hx _].
  destruct (ramp_is_integer_shift N c0 ky HN) as [_ Hy].
  rewrite Hx, Hy. reflexivity.
Qed.

(* numpy's fftfreq reports the upper half of the row frequencies as negative, (k - N)/N: same ramp value *)
Lemma ramp_negative_frequency N c0 k : (0 < N)%nat ->
  cis (ramp_y_phase (INR (2 * c0 + 1)) ((INR k - INR N) / INR N)) = cis (ramp_y_phase (INR (2 * c0 + 1)) (INR k / INR N)) /\
  cis (ramp_x_phase (INR (2 * c0 + 1)) ((INR k - INR N) / INR N)) = cis (ramp_x_phase (INR (2 * c0 + 1)) (INR k / INR N)).
Proof.
  intros HN. assert (Hn : INR N <> 0%R) by (apply not_0_INR; lia).
  assert (Ey : ramp_y_phase (INR (2 * c0 + 1)) ((INR k - INR N) / INR N) = (ramp_y_phase (INR (2 * c0 + 1)) (INR k / INR N) - 2 * INR c0 * PI)%R).
  { unfold ramp_y_phase. rewrite plus_INR, mult_INR. simpl (INR 2). simpl (INR 1). field. assumption. }
  assert (Ex : ramp_x_phase (INR (2 * c0 + 1)) ((INR k - INR N) / INR N) = (ramp_x_phase (INR (2 * c0 + 1)) (INR k / INR N) - 2 * INR c0 * PI)%R).
  { unfold ramp_x_phase. rewrite plus_INR, mult_INR. simpl (INR 2). simpl (INR 1). field. assumption. }
  rewrite Ex, Ey. unfold cis.
  assert (Hc : forall x, cos (x - 2 * INR c0 * PI) = cos x).
  { intros x. rewrite <- (cos_period (x - 2 * INR c0 * PI) c0). f_equal. ring. }
  assert (Hs : forall x, sin (x - 2 * INR c0 * PI) = sin x).
  { intros x. rewrite <- (sin_period (x - 2 * INR c0 * PI) c0). f_equal. ring. }
  rewrite !Hc, !Hs. split; reflexivity.
Qed.

Lemma delta2_real py px y x : is_real (delta2 py px y x).
Proof.
  unfold delta2, delta_at. apply is_real_mult; (destruct (Nat.eqb _ _); unfold is_real; reflexivity).
Qed.

(* a unit of light on the integer pixel (row py, column px) renders as the stamp with its centre entry p[c0][c0] on that pixel:
   pixel (r, c) shows p[r - py + c0][c - px + c0] (circular indices; p is zero outside the stamp) *)
Theorem point_source_is_centred_stamp N p c0 py px r c :
  (0 < N)%nat -> (forall y x, is_real (p y x)) -> (py < N)%nat -> (px < N)%nat -> (r < N)%nat -> (c < N)%nat ->
  irfft2 N (fun ky kx => dft2 N (delta2 py px) ky kx *
                         (dft2 N p ky kx * (cis (ramp_y_phase (INR (2 * c0 + 1)) (INR ky / INR N)) * cis (ramp_x_phase (INR (2 * c0 + 1)) (INR kx / INR N))))) r c
  = Re (p (((r + (N - py)) mod N + c0) mod N)%nat (((c + (N - px)) mod N + c0) mod N)%nat).
Proof.
  intros HN Hp Hpy Hpx Hr Hc.
  rewrite (conv_chain_ramps N (delta2 py px) p c0 r c HN (delta2_real py px) Hp Hr Hc).
  change (csum (fun y => csum (fun x => delta2 py px y x * p (((r + (N - y)) mod N + c0) mod N)%nat (((c + (N - x)) mod N + c0) mod N)%nat) N) N)
    with (circ_conv2 N (delta2 py px) (advance2 N c0 c0 p) r c).
  rewrite (circ_conv2_delta N HN py px (advance2 N c0 c0 p) r c Hpy Hpx). reflexivity.
Qed.

(* The whole FFT convolution chain of BaseRenderer: PSF_fft = rfft2(psf, s = shape) * ramp_x * ramp_y and
   conv_fft(image) = irfft2(rfft2(image) * PSF_fft).  For an odd square stamp P = 2c+1 the ramps (regenerated
   from the source, Gen/Ramps.v) are the root-of-unity phases w^(c k), which by the transform's shift theorem
   advance the zero-padded stamp by c pixels along both axes, so that its geometric centre entry sits on the
   origin.  Result: every pixel of the model is  sum_{y,x} scene[y,x] * psf_padded[r - y + c, col - x + c]
   (indices circular), i.e. the scene convolved with the stamp as supplied, centred on its geometric centre,
   rows to rows and columns to columns. *)
From Coq Require Import Reals Lra Lia Arith.
From Coquelicot Require Import Coquelicot.
From PS Require Import Base.RBase Base.Dft Base.Dft2 Gen.Ramps Proofs.ConvProofs Proofs.ConvSymmetry.
Open Scope C_scope.

Section Chain.
  Variable N : nat.
  Hypothesis HN : (0 < N)%nat.
  Let w := wN N.

  (* shift theorem: advancing a signal by c samples multiplies its transform by w^(c k) *)
  Lemma dft_advance a c k : dft N (fun x => a ((x + c) mod N)%nat) k = w ^^ (c * k) * dft N a k.
  Proof.
    unfold dft. fold w.
    rewrite <- (csum_rot N HN (fun z => a z * w ^^ ((N - 1) * (k * z))) c).
    rewrite <- csum_scal. apply csum_ext. intros x Hx.
    unfold w. rewrite (kernel_periodic N HN k (x + c)). fold w.
    replace ((N - 1) * (k * (x + c)))%nat with ((N - 1) * (k * x) + (N - 1) * (k * c))%nat by nia.
    rewrite Cpow_add.
    transitivity (a ((x + c) mod N)%nat * w ^^ ((N - 1) * (k * x)) * (w ^^ (c * k) * w ^^ ((N - 1) * (k * c)))); [|ring].
    rewrite <- Cpow_add.
    replace (c * k + (N - 1) * (k * c))%nat with (0 + (k * c) * N)%nat by nia.
    unfold w. rewrite (w_mult_N N HN). cbn [Cpow]. ring.
  Qed.

  Definition advance2 (cy cx : nat) (p : nat -> nat -> C) (y x : nat) : C := p ((y + cy) mod N)%nat ((x + cx) mod N)%nat.

  Lemma dft2_advance2 p cy cx ky kx :
    dft2 N (advance2 cy cx p) ky kx = dft2 N p ky kx * (w ^^ (cy * ky) * w ^^ (cx * kx)).
  Proof.
    unfold dft2, advance2.
    rewrite (dft_ext N _ (fun y => w ^^ (cx * kx) * dft N (fun x => p ((y + cy) mod N)%nat x) kx)).
    2:{ intros y _. apply (dft_advance (fun x => p ((y + cy) mod N)%nat x)). }
    rewrite (dft_ext N _ (fun y => dft N (fun x => p ((y + cy) mod N)%nat x) kx * w ^^ (cx * kx))) by (intros; ring).
    rewrite dft_scal_r.
    rewrite (dft_advance (fun y => dft N (fun x => p y x) kx) cy ky). ring.
  Qed.

  Lemma advance2_real p cy cx : (forall y x, is_real (p y x)) -> forall y x, is_real (advance2 cy cx p y x).
  Proof. intros H y x. apply H. Qed.

  (* the chain with explicit root-of-unity phases *)
  Theorem conv_chain_phases a p cy cx r c :
    (forall y x, is_real (a y x)) -> (forall y x, is_real (p y x)) -> (r < N)%nat -> (c < N)%nat ->
    irfft2 N (fun ky kx => dft2 N a ky kx * (dft2 N p ky kx * (w ^^ (cy * ky) * w ^^ (cx * kx)))) r c
    = Re (csum (fun y => csum (fun x => a y x * p (((r + (N - y)) mod N + cy) mod N)%nat (((c + (N - x)) mod N + cx) mod N)%nat) N) N).
  Proof.
    intros Ha Hp Hr Hc.
    change (csum (fun y => csum (fun x => a y x * p (((r + (N - y)) mod N + cy) mod N)%nat (((c + (N - x)) mod N + cx) mod N)%nat) N) N)
      with (circ_conv2 N a (advance2 cy cx p) r c).
    rewrite <- (irfft2_product_is_circ_conv2 N HN a (advance2 cy cx p) r c Ha (advance2_real p cy cx Hp) Hr Hc).
    unfold irfft2. f_equal. f_equal. apply irfft2_T_ext. intros ky kx _.
    rewrite dft2_advance2. reflexivity.
  Qed.
End Chain.

(* the ramps regenerated from the source, at the fftfreq / rfftfreq grid values k/N, for an odd stamp 2c+1 *)
Theorem conv_chain_ramps N a p c0 r c :
  (0 < N)%nat -> (forall y x, is_real (a y x)) -> (forall y x, is_real (p y x)) -> (r < N)%nat -> (c < N)%nat ->
  irfft2 N (fun ky kx => dft2 N a ky kx *
                         (dft2 N p ky kx * (cis (ramp_y_phase (INR (2 * c0 + 1)) (INR ky / INR N)) * cis (ramp_x_phase (INR (2 * c0 + 1)) (INR kx / INR N))))) r c
  = Re (csum (fun y => csum (fun x => a y x * p (((r + (N - y)) mod N + c0) mod N)%nat (((c + (N - x)) mod N + c0) mod N)%nat) N) N).
Proof.
  intros HN Ha Hp Hr Hc.
  rewrite <- (conv_chain_phases N HN a p c0 c0 r c Ha Hp Hr Hc).
  unfold irfft2. f_equal. f_equal. apply irfft2_T_ext. intros ky kx _.
  destruct (ramp_is_integer_shift N c0 kx HN) as [Hx _].
  destruct (ramp_is_integer_shift N c0 ky HN) as [_ Hy].
  rewrite Hx, Hy. reflexivity.
Qed.

(* rectangular odd stamps: (2 cy + 1) rows x (2 cx + 1) columns.  The x ramp is evaluated with the stamp's COLUMN count and the
   y ramp with its ROW count (Gen/Ramps.v records which dimension the source code uses for each): the stamp is centred on its
   entry [cy][cx] *)
Theorem conv_chain_ramps_rect N a p cy cx r c :
  (0 < N)%nat -> (forall y x, is_real (a y x)) -> (forall y x, is_real (p y x)) -> (r < N)%nat -> (c < N)%nat ->
  irfft2 N (fun ky kx => dft2 N a ky kx *
                         (dft2 N p ky kx * (cis (ramp_y_phase (INR (2 * cy + 1)) (INR ky / INR N)) * cis (ramp_x_phase (INR (2 * cx + 1)) (INR kx / INR N))))) r c
  = Re (csum (fun y => csum (fun x => a y x * p (((r + (N - y)) mod N + cy) mod N)%nat (((c + (N - x)) mod N + cx) mod N)%nat) N) N).
Proof.
  intros HN Ha Hp Hr Hc.
  rewrite <- (conv_chain_phases N HN a p cy cx r c Ha Hp Hr Hc).
  unfold irfft2. f_equal. f_equal. apply irfft2_T_ext. intros ky kx _.
  destruct (ramp_is_integer_shift N cx kx HN) as [Hx _].
  destruct (ramp_is_integer_shift N cy ky HN) as [_ Hy].
  rewrite Hx, Hy. reflexivity.
Qed.

(* numpy's fftfreq reports the upper half of the row frequencies as negative, (k - N)/N: same ramp value *)
Lemma ramp_negative_frequency N c0 k : (0 < N)%nat ->
  cis (ramp_y_phase (INR (2 * c0 + 1)) ((INR k - INR N) / INR N)) = cis (ramp_y_phase (INR (2 * c0 + 1)) (INR k / INR N)) /\
  cis (ramp_x_phase (INR (2 * c0 + 1)) ((INR k - INR N) / INR N)) = cis (ramp_x_phase (INR (2 * c0 + 1)) (INR k / INR N)).
Proof.
  intros HN. assert (Hn : INR N <> 0%R) by (apply not_0_INR; lia).
  assert (Ey : ramp_y_phase (INR (2 * c0 + 1)) ((INR k - INR N) / INR N) = (ramp_y_phase (INR (2 * c0 + 1)) (INR k / INR N) - 2 * INR c0 * PI)%R).
  { unfold ramp_y_phase. rewrite plus_INR, mult_INR. simpl (INR 2). simpl (INR 1). field. assumption. }
  assert (Ex : ramp_x_phase (INR (2 * c0 + 1)) ((INR k - INR N) / INR N) = (ramp_x_phase (INR (2 * c0 + 1)) (INR k / INR N) - 2 * INR c0 * PI)%R).
  { unfold ramp_x_phase. rewrite plus_INR, mult_INR. simpl (INR 2). simpl (INR 1). field. assumption. }
  rewrite Ex, Ey. unfold cis.
  assert (Hc : forall x, cos (x - 2 * INR c0 * PI) = cos x).
  { intros x. rewrite <- (cos_period (x - 2 * INR c0 * PI) c0). f_equal. ring. }
  assert (Hs : forall x, sin (x - 2 * INR c0 * PI) = sin x).
  { intros x. rewrite <- (sin_period (x - 2 * INR c0 * PI) c0). f_equal. ring. }
  rewrite !Hc, !Hs. split; reflexivity.
Qed.

Lemma delta2_real py px y x : is_real (delta2 py px y x).
Proof.
  unfold delta2, delta_at. apply is_real_mult; (destruct (Nat.eqb _ _); unfold is_real; reflexivity).
Qed.

(* a unit of light on the integer pixel (row py, column px) renders as the stamp with its centre entry p[c0][c0] on that pixel:
   pixel (r, c) shows p[r - py + c0][c - px + c0] (circular indices; p is zero outside the stamp) *)
Theorem point_source_is_centred_stamp N p c0 py px r c :
  (0 < N)%nat -> (forall y x, is_real (p y x)) -> (py < N)%nat -> (px < N)%nat -> (r < N)%nat -> (c < N)%nat ->
  irfft2 N (fun ky kx => dft2 N (delta2 py px) ky kx *
                         (dft2 N p ky kx * (cis (ramp_y_phase (INR (2 * c0 + 1)) (INR ky / INR N)) * cis (ramp_x_phase (INR (2 * c0 + 1)) (INR kx / INR N))))) r c
  = Re (p (((r + (N - py)) mod N + c0) mod N)%nat (((c + (N - px)) mod N + c0) mod N)%nat).
Proof.
  intros HN Hp Hpy Hpx Hr Hc.
  rewrite (conv_chain_ramps N (delta2 py px) p c0 r c HN (delta2_real py px) Hp Hr Hc).
  change (csum (fun y => csum (fun x => delta2 py px y x * p (((r + (N - y)) mod N + c0) mod N)%nat (((c + (N - x)) mod N + c0) mod N)%nat) N) N)
    with (circ_conv2 N (delta2 py px) (advance2 N c0 c0 p) r c).
  rewrite (circ_conv2_delta N HN py px (advance2 N c0 c0 p) r c Hpy Hpx). reflexivity.
Qed.

(* ---------- the mirror law at image level ---------- *)

(* the right-hand side of the chain theorems: the scene convolved with the stamp centred on its entry [c0][c0] *)
Definition conv_centred (N c0 : nat) (a p : nat -> nat -> C) (r c : nat) : C :=
  csum (fun y => csum (fun x => a y x * p (((r + (N - y)) mod N + c0) mod N)%nat (((c + (N - x)) mod N + c0) mod N)%nat) N) N.

Lemma conv_chain_ramps_centred N a p c0 r c :
  (0 < N)%nat -> (forall y x, is_real (a y x)) -> (forall y x, is_real (p y x)) -> (r < N)%nat -> (c < N)%nat ->
  irfft2 N (fun ky kx => dft2 N a ky kx *
                         (dft2 N p ky kx * (cis (ramp_y_phase (INR (2 * c0 + 1)) (INR ky / INR N)) * cis (ramp_x_phase (INR (2 * c0 + 1)) (INR kx / INR N))))) r c
  = Re (conv_centred N c0 a p r c).
Proof. exact (conv_chain_ramps N a p c0 r c). Qed.

(* columns reflected about the frame centre: X -> N-1-X; the (2 c0 + 1)-wide stamp reflected about its own centre column
   (as a zero-padded array: column j -> column 2 c0 - j, circularly) *)
Definition mirror_x (N : nat) (a : nat -> nat -> C) (y x : nat) : C := a y (N - 1 - x)%nat.
Definition mirror_stamp (N c0 : nat) (p : nat -> nat -> C) (i j : nat) : C := p i ((2 * c0 + (N - j)) mod N)%nat.

Lemma mirror_idx N c0 c x : (0 < N)%nat -> (2 * c0 + 1 <= N)%nat -> (c < N)%nat -> (x < N)%nat ->
  ((2 * c0 + (N - ((c + (N - x)) mod N + c0) mod N)) mod N = (((N - 1 - c) + (N - (N - 1 - x))) mod N + c0) mod N)%nat.
Proof. intros HN Hc0 Hc Hx. mod_cases N HN; lia. Qed.

(* mirroring the scene and the PSF stamp mirrors the convolved image: no residual shift, for every frame size
   (even or odd) and every odd stamp that fits the frame *)
Theorem conv_centred_mirror N c0 a p r c : (0 < N)%nat -> (2 * c0 + 1 <= N)%nat -> (c < N)%nat ->
  conv_centred N c0 (mirror_x N a) (mirror_stamp N c0 p) r c = mirror_x N (conv_centred N c0 a p) r c.
Proof.
  intros HN Hc0 Hc. unfold conv_centred, mirror_x, mirror_stamp. apply csum_ext. intros y _.
  rewrite <- (csum_rev (fun x => a y x * p (((r + (N - y)) mod N + c0) mod N)%nat (((N - 1 - c + (N - x)) mod N + c0) mod N)%nat) N).
  apply csum_ext. intros x Hx. f_equal. f_equal. apply mirror_idx; assumption.
Qed.

(* ---------- total light in the spatial form ---------- *)

Section Tot.
  Variable N : nat.
  Hypothesis HN : (0 < N)%nat.

  (* summing a circularly re-indexed signal over the whole frame *)
  Lemma csum_reindex (f : nat -> C) y c0 : (y < N)%nat ->
    csum (fun r => f (((r + (N - y)) mod N + c0) mod N)%nat) N = csum f N.
  Proof.
    intros Hy.
    rewrite <- (csum_rot N HN f c0).
    rewrite <- (csum_rot N HN (fun x => f ((x + c0) mod N)%nat) (N - y)).
    reflexivity.
  Qed.

  (* total light of the convolved image = total of the scene x sum of the stamp *)
  Theorem conv_centred_total c0 a p :
    csum (fun r => csum (fun c => conv_centred N c0 a p r c) N) N
    = csum (fun y => csum (fun x => a y x) N) N * csum (fun i => csum (fun j => p i j) N) N.
  Proof.
    unfold conv_centred.
    pose (F := fun r c y x : nat => a y x * p (((r + (N - y)) mod N + c0) mod N)%nat (((c + (N - x)) mod N + c0) mod N)%nat).
    transitivity (csum (fun r => csum (fun c => csum (fun y => csum (fun x => F r c y x) N) N) N) N); [reflexivity|].
    (* reorder the four sums to y, x, r, c *)
    rewrite (csum_ext _ (fun r => csum (fun y => csum (fun c => csum (fun x => F r c y x) N) N) N))
      by (intros r _; apply (csum_swap (fun c y => csum (fun x => F r c y x) N))).
    rewrite (csum_swap (fun r y => csum (fun c => csum (fun x => F r c y x) N) N)).
    rewrite (csum_ext _ (fun y => csum (fun x => csum (fun r => csum (fun c => F r c y x) N) N) N)).
    2:{ intros y _.
        rewrite (csum_ext _ (fun r => csum (fun x => csum (fun c => F r c y x) N) N))
          by (intros r _; apply (csum_swap (fun c x => F r c y x))).
        apply (csum_swap (fun r x => csum (fun c => F r c y x) N)). }
    set (T := csum (fun i => csum (fun j => p i j) N) N).
    rewrite (csum_ext _ (fun y => csum (fun x => a y x) N * T)).
    - rewrite (csum_ext _ (fun y => T * csum (fun x => a y x) N)) by (intros; ring).
      rewrite csum_scal. ring.
    - intros y Hy.
      assert (Hx : forall x, (x < N)%nat -> csum (fun r => csum (fun c => F r c y x) N) N = T * a y x).
      { intros x Hx. unfold F.
        rewrite (csum_ext _ (fun r => a y x * csum (fun c => p (((r + (N - y)) mod N + c0) mod N)%nat (((c + (N - x)) mod N + c0) mod N)%nat) N))
          by (intros r _; apply csum_scal).
        rewrite csum_scal.
        rewrite (csum_ext _ (fun r => csum (fun j => p (((r + (N - y)) mod N + c0) mod N)%nat j) N)).
        2:{ intros r _. apply (csum_reindex (fun j => p (((r + (N - y)) mod N + c0) mod N)%nat j) x c0 Hx). }
        rewrite (csum_reindex (fun i => csum (fun j => p i j) N) y c0 Hy). fold T. ring. }
      rewrite (csum_ext _ _ N Hx). rewrite csum_scal. apply Cmult_comm.
  Qed.
End Tot.

(* non-vacuity of the convolution-chain theorems: real arrays exist in abundance, e.g. the unit impulse *)
Example chain_hypotheses_hold : forall y x, is_real (delta2 1 2 y x).
Proof. intros. apply delta2_real. Qed.

(* Proofs for C03: the PSF is taken as centred on its geometric array centre and is never
   transposed or mirrored.  Over ramps / point-source code REGENERATED from rendering.py. *)
From Coq Require Import Reals Lra Lia ZArith.
From Coquelicot Require Import Coquelicot.
From PS Require Import Base.RBase Base.Dft Gen.Ramps Gen.Formulas Proofs.SymmetryProofs.
Open Scope R_scope.

(* the two ramps: exp(+ 2 pi i ((P-1)/2) f) along each axis, with pi itself *)
Lemma ramp_form P0 P1 FX FY :
  ramp_x_phase P0 FX = 2 * PI * ((P0 - 1) / 2) * FX /\ ramp_y_phase P1 FY = 2 * PI * ((P1 - 1) / 2) * FY.
Proof. unfold ramp_x_phase, ramp_y_phase. split; field. Qed.

(* for an odd stamp size P = 2c+1 the ramp at frequency k/N is exactly w^(c k): by the DFT shift theorem,
   multiplying the spectrum by it moves the stamp's centre pixel c to the origin - an INTEGER circular shift *)
Lemma ramp_is_integer_shift N c k : (0 < N)%nat ->
  cis (ramp_x_phase (INR (2 * c + 1)) (INR k / INR N)) = Cpow (wN N) (c * k) /\
  cis (ramp_y_phase (INR (2 * c + 1)) (INR k / INR N)) = Cpow (wN N) (c * k).
Proof.
  intros HN. assert (Hn : INR N <> 0) by (apply not_0_INR; lia).
  unfold wN. rewrite Cpow_cis. destruct (ramp_form (INR (2 * c + 1)) (INR (2 * c + 1)) (INR k / INR N) (INR k / INR N)) as [Hx Hy].
  rewrite Hx, Hy. rewrite plus_INR, !mult_INR. simpl (INR 2). simpl (INR 1).
  split; f_equal; field; assumption.
Qed.

(* even stamp sizes: the centre is half-integer and the ramp is the corresponding half-pixel phase *)
Lemma ramp_even_half_pixel c FX : ramp_x_phase (INR (2 * c)) FX = 2 * PI * (INR c - 1 / 2) * FX.
Proof. destruct (ramp_form (INR (2 * c)) 0 FX 0) as [H _]. rewrite H, mult_INR. simpl (INR 2). field. Qed.

(* ---------- pixel-space point source: bilinear read of flux * psf at (row, col) = (Y - dy, X - dx) ---------- *)

(* jax.scipy.ndimage.map_coordinates(order = 1, mode = 'constant') at an integer location returns the array entry
   (0 outside).  A stamp is a function of integer (row, col), 0 outside its support. *)
Definition at_integers (psf : Z -> Z -> R) (row col : Z) : R := psf row col.

(* for integer xc, yc and odd P0 = 2a+1, P1 = 2b+1 the coordinates are integers ... *)
Lemma pixel_ps_coordinates (xc yc : Z) (a b : nat) (r c : Z) :
  IZR r - ps_dy (IZR yc) (INR (2 * a + 1)) (INR (2 * b + 1)) = IZR (r - yc + Z.of_nat a) /\
  IZR c - ps_dx (IZR xc) (INR (2 * a + 1)) (INR (2 * b + 1)) = IZR (c - xc + Z.of_nat b).
Proof.
  unfold ps_dx, ps_dy. rewrite !plus_IZR, !minus_IZR, <- !INR_IZR_INZ, !plus_INR, !mult_INR. simpl (INR 2). simpl (INR 1).
  split; field.
Qed.

(* ... so pixel (r, c) of the point-source image reads psf[r - yc + a][c - xc + b]: the stamp, rows to rows and
   columns to columns, with its centre entry (a, b) on pixel (row yc, column xc) *)
Lemma pixel_ps_is_stamp : pixel_ps_coord_order = RowFromY.
Proof. reflexivity. Qed.

(* Fourier-space point source: flux * exp(-2 pi i (FX xc + FY yc)) - the transform of a delta at (column xc, row yc) *)
Lemma ps_fourier_is_shifted_delta FX FY xc yc f :
  ps_fourier_re FX FY xc yc f = f * cos (- (2 * PI) * (FX * xc + FY * yc)) /\
  ps_fourier_im FX FY xc yc f = f * sin (- (2 * PI) * (FX * xc + FY * yc)).
Proof. apply ps_fourier_form. Qed.

(* for integer positions that phase is w^(-(kx xc + ky yc)): a whole-pixel placement *)
Lemma ps_fourier_integer_position N kx ky (xc yc : nat) f : (0 < N)%nat ->
  (ps_fourier_re (INR kx / INR N) (INR ky / INR N) (INR xc) (INR yc) f, ps_fourier_im (INR kx / INR N) (INR ky / INR N) (INR xc) (INR yc) f)
  = Cmult (RtoC f) (Cconj (Cpow (wN N) (kx * xc + ky * yc))).
Proof.
  intros HN. assert (Hn : INR N <> 0) by (apply not_0_INR; lia).
  destruct (ps_fourier_form (INR kx / INR N) (INR ky / INR N) (INR xc) (INR yc) f) as [Hr Hi]. rewrite Hr, Hi.
  unfold wN. rewrite Cpow_cis. unfold cis, Cconj, Cmult, RtoC. cbn [fst snd].
  rewrite plus_INR, !mult_INR.
  replace (- (2 * PI) * (INR kx / INR N * INR xc + INR ky / INR N * INR yc)) with (- ((INR kx * INR xc + INR ky * INR yc) * (2 * PI / INR N))) by (field; assumption).
  rewrite cos_neg, sin_neg. f_equal; ring.
Qed.

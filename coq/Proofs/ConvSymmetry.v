(* Image-level covariance of the circular (FFT) convolution: it commutes with transposition and with
   integer translations of the frame.  Together with the pointwise laws of the kernels (SymmetryProofs.v)
   this lifts the transpose / translation clauses of C09 through the PSF convolution step. *)
From Coq Require Import Reals Lra Lia Arith.
From Coquelicot Require Import Coquelicot.
From PS Require Import Base.Dft Base.Dft2.
Open Scope C_scope.

(* ---------- arithmetic modulo N with truncated subtraction ---------- *)

Lemma mod3 e N : (0 < N)%nat -> (e < 3 * N)%nat ->
  ((e < N)%nat /\ (e mod N = e)%nat) \/ ((N <= e < 2 * N)%nat /\ (e mod N = e - N)%nat) \/ ((2 * N <= e)%nat /\ (e mod N = e - 2 * N)%nat).
Proof.
  intros HN He.
  destruct (lt_dec e N) as [H1|H1]; [left; split; [assumption|apply Nat.mod_small; assumption]|right].
  destruct (lt_dec e (2 * N)) as [H2|H2]; [left|right]; (split; [lia|]).
  - symmetry. apply (Nat.mod_unique e N 1); lia.
  - symmetry. apply (Nat.mod_unique e N 2); lia.
Qed.

(* eliminate the innermost [_ mod N] by a three-way case split *)
Ltac mod_cases N HN :=
  repeat match goal with
  | |- context [(?e mod N)%nat] =>
      lazymatch e with context [(_ mod _)%nat] => fail | _ => idtac end;
      let H := fresh "Hm" in
      destruct (mod3 e N HN) as [[? H]|[[? H]|[? H]]]; [lia| | |]; rewrite H in *; clear H
  end.

Lemma shift_back N y s : (0 < N)%nat -> (y < N)%nat -> (s < N)%nat -> (((y + s) mod N + (N - s)) mod N = y)%nat.
Proof. intros HN Hy Hs. mod_cases N HN; lia. Qed.

Lemma shift_sub N x y s : (0 < N)%nat -> (x < N)%nat -> (y < N)%nat -> (s < N)%nat ->
  ((x + (N - (y + s) mod N)) mod N = ((x + (N - s)) mod N + (N - y)) mod N)%nat.
Proof. intros HN Hx Hy Hs. mod_cases N HN; lia. Qed.

Section Sym.
  Variable N : nat.
  Hypothesis HN : (0 < N)%nat.

  (* re-indexing the summation variable of a circular correlation kernel by a shift s *)
  Lemma kernel_shift (K : nat -> nat -> C) s x : (s < N)%nat -> (x < N)%nat ->
    csum (fun y => K ((y + (N - s)) mod N)%nat ((x + (N - y)) mod N)%nat) N
    = csum (fun y => K y (((x + (N - s)) mod N + (N - y)) mod N)%nat) N.
  Proof.
    intros Hs Hx.
    rewrite <- (csum_rot N HN (fun y => K ((y + (N - s)) mod N)%nat ((x + (N - y)) mod N)%nat) s).
    apply csum_ext. intros y Hy.
    rewrite (shift_back N y s HN Hy Hs), (shift_sub N x y s HN Hx Hy Hs). reflexivity.
  Qed.

  (* translation of the frame by (sy, sx) pixels, circularly *)
  Definition shift2 (sy sx : nat) (a : nat -> nat -> C) (y x : nat) : C :=
    a ((y + (N - sy)) mod N)%nat ((x + (N - sx)) mod N)%nat.

  Definition transpose2 (a : nat -> nat -> C) (y x : nat) : C := a x y.

  (* moving the scene moves the convolved image by the same whole number of pixels *)
  Theorem circ_conv2_shift a b sy sx r c : (sy < N)%nat -> (sx < N)%nat -> (r < N)%nat -> (c < N)%nat ->
    circ_conv2 N (shift2 sy sx a) b r c = shift2 sy sx (circ_conv2 N a b) r c.
  Proof.
    intros Hsy Hsx Hr Hc. unfold shift2, circ_conv2.
    (* inner sums: re-index x *)
    rewrite (csum_ext _ (fun y => csum (fun x => a ((y + (N - sy)) mod N)%nat x
                                    * b ((r + (N - y)) mod N)%nat (((c + (N - sx)) mod N + (N - x)) mod N)%nat) N)).
    2:{ intros y _.
        apply (kernel_shift (fun u v => a ((y + (N - sy)) mod N)%nat u * b ((r + (N - y)) mod N)%nat v) sx c Hsx Hc). }
    (* outer sum: re-index y *)
    apply (kernel_shift (fun u v => csum (fun x => a u x * b v (((c + (N - sx)) mod N + (N - x)) mod N)%nat) N) sy r Hsy Hr).
  Qed.

  (* transposing scene and PSF transposes the convolved image *)
  Theorem circ_conv2_transpose a b r c :
    circ_conv2 N (transpose2 a) (transpose2 b) r c = transpose2 (circ_conv2 N a b) r c.
  Proof.
    unfold transpose2, circ_conv2. rewrite csum_swap. reflexivity.
  Qed.

  (* the convolution is commutative: scene and PSF enter symmetrically *)
  Theorem circ_conv2_comm a b r c : (r < N)%nat -> (c < N)%nat ->
    circ_conv2 N a b r c = circ_conv2 N b a r c.
  Proof.
    intros Hr Hc.
    (* through the transform: both sides have the same half-plane spectrum product *)
    assert (E : forall ky kx, dft2 N (circ_conv2 N a b) ky kx = dft2 N (circ_conv2 N b a) ky kx).
    { intros. rewrite !(dft2_circ_conv2 N HN). ring. }
    (* invert with the full complex transform pair, rows then columns *)
    unfold dft2 in E.
    assert (Hrow : forall y, (y < N)%nat -> forall kx, dft N (fun x => circ_conv2 N a b y x) kx = dft N (fun x => circ_conv2 N b a y x) kx).
    { intros y Hy kx.
      rewrite <- (idft_dft N HN (fun y' => dft N (fun x => circ_conv2 N a b y' x) kx) y Hy).
      rewrite <- (idft_dft N HN (fun y' => dft N (fun x => circ_conv2 N b a y' x) kx) y Hy).
      unfold idft. f_equal. apply csum_ext. intros ky _. rewrite E. reflexivity. }
    rewrite <- (idft_dft N HN (fun x => circ_conv2 N a b r x) c Hc).
    rewrite <- (idft_dft N HN (fun x => circ_conv2 N b a r x) c Hc).
    unfold idft. f_equal. apply csum_ext. intros kx _. rewrite (Hrow r Hr). reflexivity.
  Qed.

  (* bilinearity: the convolved image of a sum of scenes is the sum of the convolved images, and scaling the
     scene (its flux) scales the convolved image *)
  Theorem circ_conv2_plus_l a1 a2 b r c :
    circ_conv2 N (fun y x => a1 y x + a2 y x) b r c = circ_conv2 N a1 b r c + circ_conv2 N a2 b r c.
  Proof.
    unfold circ_conv2. rewrite <- csum_plus. apply csum_ext. intros y _.
    rewrite <- csum_plus. apply csum_ext. intros x _. ring.
  Qed.

  Theorem circ_conv2_scal_l k a b r c :
    circ_conv2 N (fun y x => k * a y x) b r c = k * circ_conv2 N a b r c.
  Proof.
    unfold circ_conv2. rewrite <- csum_scal. apply csum_ext. intros y _.
    rewrite <- csum_scal. apply csum_ext. intros x _. ring.
  Qed.

  Theorem circ_conv2_scal_r k a b r c :
    circ_conv2 N a (fun y x => k * b y x) r c = k * circ_conv2 N a b r c.
  Proof.
    unfold circ_conv2. rewrite <- csum_scal. apply csum_ext. intros y _.
    rewrite <- csum_scal. apply csum_ext. intros x _. ring.
  Qed.
End Sym.

(* Proofs for C17 over the regenerated border slices (Gen/EstimateSky.v). *)
From Coq Require Import ZArith List Bool Lia.
From PS Require Import Base.PySlice Gen.EstimateSky Model.EstimateSky.
Import ListNotations.
Open Scope Z_scope.

Definition in_bounds (b : Z * Z) (x : Z) : Prop := fst b <= x < snd b.

Lemma slice_indices_In len s e x :
  In x (slice_indices len s e) <-> in_bounds (slice_bounds len s e) x.
Proof.
  unfold slice_indices, in_bounds. destruct (slice_bounds len s e) as [lo hi]. apply zrange_In.
Qed.

Lemma slice_pixels_In H W rs re cs ce r c :
  In (r, c) (slice_pixels H W ((rs, re), (cs, ce))) <->
  in_bounds (slice_bounds H rs re) r /\ in_bounds (slice_bounds W cs ce) c.
Proof. unfold slice_pixels. rewrite prod2_In, !slice_indices_In. reflexivity. Qed.

Lemma slice_indices_NoDup len s e : NoDup (slice_indices len s e).
Proof. unfold slice_indices. destruct (slice_bounds len s e). apply zrange_NoDup. Qed.

Lemma slice_pixels_NoDup H W s : NoDup (slice_pixels H W s).
Proof. destruct s as [[rs re] [cs ce]]. apply prod2_NoDup; apply slice_indices_NoDup. Qed.

Lemma slice_indices_length len s e :
  Z.of_nat (length (slice_indices len s e)) =
  Z.max 0 (snd (slice_bounds len s e) - fst (slice_bounds len s e)).
Proof. unfold slice_indices. destruct (slice_bounds len s e) as [lo hi]. rewrite zrange_length. cbn. lia. Qed.

Lemma slice_pixels_length H W rs re cs ce :
  Z.of_nat (length (slice_pixels H W ((rs, re), (cs, ce)))) =
  Z.max 0 (snd (slice_bounds H rs re) - fst (slice_bounds H rs re)) *
  Z.max 0 (snd (slice_bounds W cs ce) - fst (slice_bounds W cs ce)).
Proof. unfold slice_pixels. rewrite prod2_length, Nat2Z.inj_mul, !slice_indices_length. reflexivity. Qed.

(* bounds of the slice shapes that occur: [:n], [-n:], [n:-n], [:] *)
Lemma sb_all len : 0 <= len -> slice_bounds len None None = (0, len).
Proof. intros. unfold slice_bounds. f_equal. lia. Qed.

Lemma sb_head len n : 0 <= n <= len -> slice_bounds len None (Some n) = (0, n).
Proof.
  intros. unfold slice_bounds, norm_idx. destruct (Z.ltb_spec n 0); [lia|]. f_equal. lia.
Qed.

Lemma sb_tail len n : 1 <= n <= len -> slice_bounds len (Some (- n)) None = (len - n, len).
Proof.
  intros. unfold slice_bounds, norm_idx. destruct (Z.ltb_spec (- n) 0); [|lia]. f_equal; lia.
Qed.

Lemma sb_mid len n : 1 <= n -> 2 * n <= len -> slice_bounds len (Some n) (Some (- n)) = (n, len - n).
Proof.
  intros. unfold slice_bounds, norm_idx.
  destruct (Z.ltb_spec n 0); [lia|]. destruct (Z.ltb_spec (- n) 0); [|lia]. f_equal; lia.
Qed.

Ltac bounds :=
  repeat first [ rewrite sb_all by lia | rewrite sb_head by lia
               | rewrite sb_tail by lia | rewrite sb_mid by lia ];
  unfold in_bounds; cbn [fst snd].

Section Border.
  Variables H W n : Z.
  Hypothesis Hn : 1 <= n.
  Hypothesis HH : 2 * n <= H.
  Hypothesis HW : 2 * n <= W.

  (* a pixel is gathered iff it lies in the frame within n pixels of an edge *)
  Lemma border_spec r c :
    In (r, c) (border H W n) <->
    0 <= r < H /\ 0 <= c < W /\ (r < n \/ H - n <= r \/ c < n \/ W - n <= c).
  Proof.
    unfold border, border_of, sky_slices. cbn [flat_map]. rewrite app_nil_r.
    rewrite !in_app_iff, !slice_pixels_In. bounds. lia.
  Qed.

  (* each such pixel is gathered exactly once *)
  Lemma border_NoDup : NoDup (border H W n).
  Proof.
    unfold border, border_of, sky_slices. cbn [flat_map]. rewrite app_nil_r.
    repeat (apply NoDup_app_intro; [apply slice_pixels_NoDup| |]); try apply slice_pixels_NoDup;
      intros [r c]; rewrite ?in_app_iff, !slice_pixels_In; bounds; lia.
  Qed.

  Lemma border_length :
    Z.of_nat (length (border H W n)) = H * W - (H - 2 * n) * (W - 2 * n).
  Proof.
    unfold border, border_of, sky_slices. cbn [flat_map]. rewrite app_nil_r.
    rewrite !app_length, !Nat2Z.inj_add, !slice_pixels_length. bounds.
    rewrite !Z.max_r by lia. ring.
  Qed.
End Border.

(* ---- invariance: the statistics are functions of `sky_values`, which reads
   the image only at the gathered (and, if masks are kept, unmasked) pixels *)

Lemma map_ext_in' {A B} (f g : A -> B) l : (forall a, In a l -> f a = g a) -> map f l = map g l.
Proof. apply map_ext_in. Qed.

Lemma gathered_interior keeps img img' masked H W n :
  (forall r c, In (r, c) (border H W n) -> img r c = img' r c) ->
  gathered keeps img masked H W n = gathered keeps img' masked H W n.
Proof.
  intros Hagree. unfold gathered. apply map_ext_in. intros [r c] Hin. cbn.
  apply Hagree. destruct keeps; [apply filter_In in Hin; tauto|assumption].
Qed.

Lemma gathered_masked img img' masked H W n :
  (forall r c, In (r, c) (border H W n) -> masked r c = false -> img r c = img' r c) ->
  gathered true img masked H W n = gathered true img' masked H W n.
Proof.
  intros Hagree. unfold gathered. apply map_ext_in. intros [r c] Hin. cbn.
  apply filter_In in Hin. destruct Hin as [Hin Hm]. apply Hagree; [assumption|].
  unfold unmasked in Hm. cbn in Hm. destruct (masked r c); [discriminate|reflexivity].
Qed.

Lemma filter_length_split {A} (f : A -> bool) l :
  (length l = length (filter f l) + length (filter (fun x => negb (f x)) l))%nat.
Proof. induction l as [|a l IH]; simpl; [reflexivity|]. destruct (f a); simpl; lia. Qed.

Lemma count_spec masked H W n :
  sky_count_is_unmasked = true ->
  sky_count masked H W n =
  Z.of_nat (length (border H W n)) -
  Z.of_nat (length (filter (fun p => masked (fst p) (snd p)) (border H W n))).
Proof.
  intros Hflag. unfold sky_count. rewrite Hflag.
  rewrite (filter_length_split (unmasked masked) (border H W n)).
  unfold unmasked. rewrite Nat2Z.inj_add.
  rewrite (filter_ext (fun x => negb (negb (masked (fst x) (snd x)))) (fun p => masked (fst p) (snd p)))
    by (intros; apply negb_involutive).
  lia.
Qed.

Lemma values_spec img masked H W n :
  sky_concat_keeps_mask = true ->
  sky_values img masked H W n =
  map (fun p => img (fst p) (snd p)) (filter (unmasked masked) (border H W n)).
Proof. intros Hflag. unfold sky_values, gathered. rewrite Hflag. reflexivity. Qed.

Lemma masked_invariance img img' masked H W n :
  sky_concat_keeps_mask = true ->
  (forall r c, In (r, c) (border H W n) -> masked r c = false -> img r c = img' r c) ->
  sky_values img masked H W n = sky_values img' masked H W n.
Proof. intros Hflag Hag. unfold sky_values. rewrite Hflag. apply gathered_masked. assumption. Qed.

(* ---- the statistics depend only on the multiset of gathered values (session 3) ---- *)
From Coq Require Import Permutation Sorted.

Lemma insert_comm x y l : insert x (insert y l) = insert y (insert x l).
Proof.
  induction l as [|z l IH]; cbn [insert].
  - destruct (Z.leb_spec x y) as [Hxy|Hxy], (Z.leb_spec y x) as [Hyx|Hyx]; try reflexivity; try lia.
    assert (x = y) by lia. subst. reflexivity.
  - destruct (Z.leb_spec x z) as [Hxz|Hxz], (Z.leb_spec y z) as [Hyz|Hyz]; cbn [insert].
    + destruct (Z.leb_spec x y) as [Hxy|Hxy], (Z.leb_spec y x) as [Hyx|Hyx]; cbn [insert];
        repeat match goal with |- context [?a <=? ?b] => destruct (Z.leb_spec a b); try lia end; try reflexivity.
      assert (x = y) by lia. subst. reflexivity.
    + repeat match goal with |- context [?a <=? ?b] => destruct (Z.leb_spec a b); try lia end; reflexivity.
    + repeat match goal with |- context [?a <=? ?b] => destruct (Z.leb_spec a b); try lia end; reflexivity.
    + repeat match goal with |- context [?a <=? ?b] => destruct (Z.leb_spec a b); try lia end. rewrite IH. reflexivity.
Qed.

Lemma isort_perm_eq l l' : Permutation l l' -> isort l = isort l'.
Proof.
  intros P. induction P as [|x l l' P IH|x y l|l l' l'' P1 IH1 P2 IH2].
  - reflexivity.
  - unfold isort in *. cbn [fold_right]. rewrite IH. reflexivity.
  - unfold isort. cbn [fold_right]. apply insert_comm.
  - congruence.
Qed.

Lemma median2_perm l l' : Permutation l l' -> median2 l = median2 l'.
Proof. intros P. unfold median2. rewrite (isort_perm_eq _ _ P). reflexivity. Qed.

Lemma insert_perm x l : Permutation (insert x l) (x :: l).
Proof.
  induction l as [|y l IH]; cbn [insert]; [apply Permutation_refl|].
  destruct (x <=? y); [apply Permutation_refl|].
  eapply perm_trans; [apply perm_skip, IH | apply perm_swap].
Qed.

Lemma isort_perm l : Permutation (isort l) l.
Proof.
  induction l as [|x l IH]; [apply perm_nil|]. unfold isort in *. cbn [fold_right].
  eapply perm_trans; [apply insert_perm | apply perm_skip, IH].
Qed.

(* the sorted list is ascending: the returned statistics are order statistics of the gathered multiset *)
Lemma insert_sorted x l : LocallySorted Z.le l -> LocallySorted Z.le (insert x l).
Proof.
  intros S. induction S as [|a|a b l S IH Hab]; cbn [insert].
  - constructor.
  - destruct (Z.leb_spec x a); repeat constructor; lia.
  - cbn [insert] in IH. destruct (Z.leb_spec x a) as [Hxa|Hxa].
    + repeat constructor; assumption.
    + destruct (Z.leb_spec x b) as [Hxb|Hxb].
      * constructor; [assumption | lia].
      * constructor; [exact IH | exact Hab].
Qed.

Lemma isort_sorted l : LocallySorted Z.le (isort l).
Proof. induction l as [|x l IH]; [constructor|]. unfold isort in *. cbn [fold_right]. apply insert_sorted, IH. Qed.

(* Proofs for C13 over find_MAP's filtering / regrouping REGENERATED from pysersic.py. *)
From Coq Require Import String Ascii List Bool Reals Lra.
From PS Require Import Base.RBase Base.PyStr Gen.ProfileParams Gen.FindMAP Gen.ResultsParse Model.ResultsParse Proofs.ResultsParseProofs
     Base.ExtLoss Model.SviLoop Proofs.SviLoopProofs.
Import ListNotations.
Open Scope string_scope.

(* a suffix free of every marker find_MAP looks for *)
Definition map_marker_free (t : string) : Prop :=
  contains "Loss" t = false /\ contains "base" t = false /\ contains "auto" t = false /\
  contains "unwrapped" t = false /\ contains "factor" t = false /\ contains "loss" t = false.

Ltac red_map :=
  unfold map_fate_of;
  cbn [append contains prefixb String.eqb Ascii.eqb Bool.eqb andb orb negb].

(* every user-facing parameter (profile, sky, loss nuisance) is returned, rounded *)
Definition user_facing : list string := (all_params ++ loss_vars)%list.

Lemma user_facing_kept s :
  suffix_like s -> map_marker_free s -> s <> "" \/ True ->
  Forall (fun p => map_fate_of (p ++ s) = MapRounded) user_facing.
Proof.
  intros Hs (H0 & H1 & H2 & H3 & H4 & H5) _.
  unfold user_facing, all_params. vm_compute dedup. cbn [app loss_vars].
  destruct Hs as [->|[t ->]].
  - repeat constructor.
  - cbn [append contains prefixb Ascii.eqb Bool.eqb andb orb] in H0, H1, H2, H3, H4, H5.
    repeat constructor; red_map; use_free; reflexivity.
Qed.

(* internal re-parameterisation / guide sites and the likelihood sites are not returned *)
Lemma internals_not_returned a t :
  map_fate_of (a ++ "_base" ++ t) <> MapRounded /\ map_fate_of (a ++ "_base" ++ t) <> MapImage /\
  map_fate_of (a ++ "_auto_loc" ++ t) <> MapRounded /\ map_fate_of (a ++ "_auto_loc" ++ t) <> MapImage /\
  map_fate_of ("Loss" ++ t) = MapSkipped.
Proof.
  assert (Hb : contains "base" (a ++ "_base" ++ t) = true) by (apply contains_app_r; apply contains_app_l; reflexivity).
  assert (Ha : contains "auto" (a ++ "_auto_loc" ++ t) = true) by (apply contains_app_r; apply contains_app_l; reflexivity).
  assert (Hl : contains "Loss" ("Loss" ++ t) = true) by (apply contains_app_l; reflexivity).
  unfold map_fate_of. rewrite Hl.
  repeat split; try discriminate.
  - destruct (contains "Loss" (a ++ "_base" ++ t)); [discriminate|].
    destruct (String.eqb (a ++ "_base" ++ t) "model") eqn:E.
    + apply String.eqb_eq in E. rewrite E in Hb. discriminate.
    + rewrite Hb. cbn. discriminate.
  - destruct (contains "Loss" (a ++ "_base" ++ t)); [discriminate|].
    destruct (String.eqb (a ++ "_base" ++ t) "model") eqn:E.
    + apply String.eqb_eq in E. rewrite E in Hb. discriminate.
    + rewrite Hb. cbn. discriminate.
  - destruct (contains "Loss" (a ++ "_auto_loc" ++ t)); [discriminate|].
    destruct (String.eqb (a ++ "_auto_loc" ++ t) "model") eqn:E.
    + apply String.eqb_eq in E. rewrite E in Ha. discriminate.
    + rewrite Ha. rewrite ?orb_true_r. cbn. discriminate.
  - destruct (contains "Loss" (a ++ "_auto_loc" ++ t)); [discriminate|].
    destruct (String.eqb (a ++ "_auto_loc" ++ t) "model") eqn:E.
    + apply String.eqb_eq in E. rewrite E in Ha. discriminate.
    + rewrite Ha. rewrite ?orb_true_r. cbn. discriminate.
Qed.

Lemma factor_sites_not_returned t :
  map_fate_of ("cash_loss" ++ t) = MapDropped \/ map_fate_of ("cash_loss" ++ t) = MapSkipped.
Proof.
  unfold map_fate_of. destruct (contains "Loss" ("cash_loss" ++ t)); [right; reflexivity|left].
  assert (Hl : contains "loss" ("cash_loss" ++ t) = true) by (apply contains_app_l; reflexivity).
  destruct (String.eqb ("cash_loss" ++ t) "model") eqn:E; [apply String.eqb_eq in E; rewrite E in Hl; discriminate|].
  rewrite Hl. rewrite ?orb_true_r. reflexivity.
Qed.

Lemma model_image_returned : map_fate_of "model" = MapImage.
Proof. reflexivity. Qed.

(* AutoDelta names its parameter <site>_auto_loc; split('_auto_loc')[0] recovers the site name
   (checked by computation on the latent-site names of every profile / sky / nuisance, with suffixes) *)
Definition latent_site_names : list string :=
  flat_map (fun s => map (fun p => p ++ s ++ "_base") user_facing) [""; "_0"; "_12_a"; "_Band_1"].

Lemma guide_name_inverted :
  map (fun n => split_first guide_name_suffix (n ++ guide_name_suffix)) latent_site_names = latent_site_names.
Proof. vm_compute. reflexivity. Qed.

(* FitMulti: parameter p of source i is looked up under exactly the key the multi prior stored it under *)
Lemma regroup_key_is_prior_key p i sfx : regroup_key p i sfx = source_key p i sfx.
Proof. unfold regroup_key. cbn [regroup_key_includes_suffix]. reflexivity. Qed.

Lemma regroup_injective p i p' i' sfx : regroup_key p i sfx = regroup_key p' i' sfx -> p = p' /\ i = i'.
Proof. rewrite !regroup_key_is_prior_key. apply source_key_inj. Qed.

(* learning rate of round r *)
Lemma lr_schedule lr d r : lr_cur lr d r = (lr * d ^ r)%R.
Proof. destruct r; cbn [lr_cur]; [simpl; ring|reflexivity]. Qed.

(* the state whose parameters find_MAP reads is the first lowest-loss state of the final training round (C14) *)
Lemma returns_best_state c script res :
  run c script = Some res ->
  exists front lastr, run_rounds c script = List.app front [lastr] /\
    (exists bl', snd (best_after (r_start lastr) (r_b0 lastr) (r_evs lastr)) = bl' /\
       Forall (fun e => ltb (ev_loss e) bl' = false) (r_evs lastr)).
Proof.
  intros H. destruct (returns_best_of_final_round c script res H) as (front & lastr & H1 & _ & _ & (bl' & H2 & _ & H3) & _).
  exists front, lastr. split; [assumption|]. exists bl'. split; assumption.
Qed.

(* Proofs for C01 (total flux) over kernels / ramps REGENERATED from rendering.py, the amplitude
   table DUMPED from the running renderer, and the DFT development of Base/Dft.v. *)
From Coq Require Import Reals Lra List Lia.
From Coquelicot Require Import Coquelicot.
From PS Require Import Base.RBase Base.Dft Gen.Formulas Gen.Ramps Gen.Amps Gen.AmpTable Gen.RenderGlue
     Proofs.SymmetryProofs Proofs.AgreementProofs.
Import ListNotations.
Open Scope R_scope.

(* ---------------- zero-frequency (DC) values of the Fourier-space kernels ---------------- *)

Lemma gauss_fourier_comp_dc a sg xc yc t q :
  gauss_fourier_comp_re 0 0 a sg xc yc t q = a /\ gauss_fourier_comp_im 0 0 a sg xc yc t q = 0.
Proof.
  destruct (gauss_fourier_structure 0 0 a sg xc yc t q) as [Hr Hi]. rewrite Hr, Hi.
  assert (Hl : gauss_fourier_logamp 0 0 a sg xc yc t q = 0) by (unfold gauss_fourier_logamp; ring).
  assert (Hp : gauss_fourier_phase 0 0 a sg xc yc t q = 0) by (unfold gauss_fourier_phase; ring).
  rewrite Hl, Hp, exp_0, cos_0, sin_0. split; ring.
Qed.

(* the Fourier image of a Gaussian mixture at zero frequency is the sum of its amplitudes *)
Lemma gauss_fourier_dc K amps sg xc yc t q :
  gauss_fourier_re K 0 0 amps sg xc yc t q = rsum amps K /\ gauss_fourier_im K 0 0 amps sg xc yc t q = 0.
Proof.
  split.
  - change (gauss_fourier_re K 0 0 amps sg xc yc t q) with (rsum (fun k => gauss_fourier_comp_re 0 0 (amps k) (sg k) xc yc t q) K).
    apply rsum_ext. intros k _. apply gauss_fourier_comp_dc.
  - change (gauss_fourier_im K 0 0 amps sg xc yc t q) with (rsum (fun k => gauss_fourier_comp_im 0 0 (amps k) (sg k) xc yc t q) K).
    rewrite (rsum_ext _ (fun _ => 0)); [apply rsum_zero|]. intros k _. apply gauss_fourier_comp_dc.
Qed.

Lemma ps_fourier_dc xc yc f : ps_fourier_re 0 0 xc yc f = f /\ ps_fourier_im 0 0 xc yc f = 0.
Proof.
  destruct (ps_fourier_form 0 0 xc yc f) as [Hr Hi]. rewrite Hr, Hi.
  replace (- (2 * PI) * (0 * xc + 0 * yc)) with 0 by ring. rewrite cos_0, sin_0. split; ring.
Qed.

(* both phase ramps are 1 at zero frequency - whatever constant stands for pi - so PSF_fft[0,0] = sum(psf) *)
Lemma ramps_dc P0 P1 : ramp_x_phase P0 0 = 0 /\ ramp_y_phase P1 0 = 0.
Proof. unfold ramp_x_phase, ramp_y_phase. split; ring. Qed.

(* ---------------- totals of the half-plane inverse transform ---------------- *)

Lemma Re_csum f n : Re (csum f n) = rsum (fun k => Re (f k)) n.
Proof. induction n as [|n IH]; [reflexivity|]. cbn [csum rsum]. rewrite <- IH. reflexivity. Qed.

Lemma Re_scal_real (a : R) (z : C) : Re (Cmult (RtoC a) z) = a * Re z.
Proof. destruct z as [x y]. unfold Re, Cmult, RtoC. cbn [fst snd]. ring. Qed.

(* sum over all pixels of irfft2(F) = Re F[0,0], for every frame size N >= 1 (odd or even) and every half-plane array F *)
Theorem irfft2_total N F : (0 < N)%nat ->
  rsum (fun r => rsum (fun c => irfft2 N F r c) N) N = Re (F 0%nat 0%nat).
Proof.
  intros HN. unfold irfft2.
  assert (Hn : INR N <> 0) by (apply not_0_INR; lia).
  rewrite (rsum_ext _ (fun r => / (INR N * INR N) * rsum (fun c => Re (irfft2_T N F r c)) N)).
  2:{ intros r _. rewrite <- rsum_scal. apply rsum_ext. intros c _. unfold Rdiv. ring. }
  rewrite rsum_scal.
  rewrite (rsum_ext _ (fun r => Re (csum (fun c => irfft2_T N F r c) N))).
  2:{ intros r _. rewrite Re_csum. reflexivity. }
  rewrite <- Re_csum. rewrite (irfft2_T_total N HN F).
  rewrite <- Cmult_assoc, !Re_scal_real. field. assumption.
Qed.

(* FFT convolution preserves the DC term: sum(conv_fft(F)) = Re(F[0,0] * PSF_fft[0,0]) *)
Corollary conv_fft_total N F PSF : (0 < N)%nat ->
  rsum (fun r => rsum (fun c => irfft2 N (fun ky kx => Cmult (F ky kx) (PSF ky kx)) r c) N) N = Re (Cmult (F 0%nat 0%nat) (PSF 0%nat 0%nat)).
Proof. intros HN. apply (irfft2_total N (fun ky kx => Cmult (F ky kx) (PSF ky kx)) HN). Qed.

(* with a real PSF_fft[0,0] = sum(psf) and a real zero-frequency value the total is their product *)
Lemma dc_product (f0 psum : R) : Re (Cmult (RtoC f0) (RtoC psum)) = f0 * psum.
Proof. unfold Re, Cmult, RtoC. cbn [fst snd]. ring. Qed.

(* ---------------- the interpolated amplitudes: sum over components, for EVERY n ---------------- *)

(* cubic Hermite segment in Bernstein form: a convex combination of four control values *)
Lemma hermite_bernstein f0 f1 d0 d1 h t :
  hermite f0 f1 d0 d1 h t =
  f0 * (1 - t) ^ 3 + (f0 + h * d0 / 3) * (3 * t * (1 - t) ^ 2) + (f1 - h * d1 / 3) * (3 * t ^ 2 * (1 - t)) + f1 * t ^ 3.
Proof. unfold hermite. field. Qed.

Lemma hermite_hull f0 f1 d0 d1 h t lo hi :
  0 <= t <= 1 ->
  lo <= f0 <= hi -> lo <= f0 + h * d0 / 3 <= hi -> lo <= f1 - h * d1 / 3 <= hi -> lo <= f1 <= hi ->
  lo <= hermite f0 f1 d0 d1 h t <= hi.
Proof.
  intros Ht H0 H1 H2 H3. rewrite hermite_bernstein.
  set (b1 := f0 + h * d0 / 3) in *. set (b2 := f1 - h * d1 / 3) in *. clearbody b1 b2. pose (b0 := f0). pose (b3 := f1). fold b0 b3. fold b0 in H0. fold b3 in H3. clearbody b0 b3.
  assert (W0 : 0 <= (1 - t) ^ 3) by (apply pow_le; lra).
  assert (W1 : 0 <= 3 * t * (1 - t) ^ 2) by (apply Rmult_le_pos; [lra|apply pow_le; lra]).
  assert (W2 : 0 <= 3 * t ^ 2 * (1 - t)) by (apply Rmult_le_pos; [apply Rmult_le_pos; [lra|apply pow_le; lra]|lra]).
  assert (W3 : 0 <= t ^ 3) by (apply pow_le; lra).
  assert (WS : (1 - t) ^ 3 + 3 * t * (1 - t) ^ 2 + 3 * t ^ 2 * (1 - t) + t ^ 3 = 1) by ring.
  set (w0 := (1 - t) ^ 3) in *. set (w1 := 3 * t * (1 - t) ^ 2) in *. set (w2 := 3 * t ^ 2 * (1 - t)) in *. set (w3 := t ^ 3) in *.
  split.
  - replace lo with (lo * (w0 + w1 + w2 + w3)) by (rewrite WS; ring).
    assert (lo * w0 <= b0 * w0) by (apply Rmult_le_compat_r; lra).
    assert (lo * w1 <= b1 * w1) by (apply Rmult_le_compat_r; lra).
    assert (lo * w2 <= b2 * w2) by (apply Rmult_le_compat_r; lra).
    assert (lo * w3 <= b3 * w3) by (apply Rmult_le_compat_r; lra). lra.
  - replace hi with (hi * (w0 + w1 + w2 + w3)) by (rewrite WS; ring).
    assert (b0 * w0 <= hi * w0) by (apply Rmult_le_compat_r; lra).
    assert (b1 * w1 <= hi * w1) by (apply Rmult_le_compat_r; lra).
    assert (b2 * w2 <= hi * w2) by (apply Rmult_le_compat_r; lra).
    assert (b3 * w3 <= hi * w3) by (apply Rmult_le_compat_r; lra). lra.
Qed.

(* piecewise evaluation over a knot list (x, F, D) *)
Fixpoint interp (l : list (R * R * R)) (n : R) : R :=
  match l with
  | (x0, F0, D0) :: (((x1, F1, D1) :: _) as tl) =>
    if Rle_dec n x1 then hermite F0 F1 D0 D1 (x1 - x0) ((n - x0) / (x1 - x0)) else interp tl n
  | _ => 0
  end.

(* every segment that meets [nlo, nhi] has its four Bernstein control values inside [lo, hi] *)
Fixpoint segments_ok (lo hi nlo nhi : R) (l : list (R * R * R)) : Prop :=
  match l with
  | (x0, F0, D0) :: (((x1, F1, D1) :: _) as tl) =>
    x0 < x1 /\
    (x1 < nlo \/ nhi < x0 \/
     (lo <= F0 <= hi /\ lo <= F0 + (x1 - x0) * D0 / 3 <= hi /\ lo <= F1 - (x1 - x0) * D1 / 3 <= hi /\ lo <= F1 <= hi)) /\
    segments_ok lo hi nlo nhi tl
  | _ => True
  end.

Fixpoint last_knot (l : list (R * R * R)) (d : R) : R :=
  match l with [] => d | (x, _, _) :: tl => last_knot tl x end.

Lemma interp_in_band lo hi nlo nhi l n :
  segments_ok lo hi nlo nhi l ->
  match l with (x0, _, _) :: _ => x0 <= n | [] => True end ->
  n <= last_knot l n -> nlo <= n <= nhi -> (2 <= length l)%nat ->
  lo <= interp l n <= hi.
Proof.
  induction l as [|[[x0 F0] D0] tl IH]; intros Hok Hfirst Hlast Hn Hlen; [simpl in Hlen; lia|].
  destruct tl as [|[[x1 F1] D1] tl']; [simpl in Hlen; lia|].
  cbn [segments_ok] in Hok. destruct Hok as (Hx & Hseg & Hrest).
  cbn [interp]. destruct (Rle_dec n x1) as [Hle|Hgt].
  - destruct Hseg as [H|[H|(H0 & H1 & H2 & H3)]]; [lra|lra|].
    apply hermite_hull; try assumption.
    split; [apply Rmult_le_pos; [lra|left; apply Rinv_0_lt_compat; lra]|].
    apply (Rmult_le_reg_r (x1 - x0)); [lra|]. unfold Rdiv. rewrite Rmult_assoc, Rinv_l by lra. lra.
  - apply IH; try assumption.
    + lra.
    + destruct tl' as [|k tl'']; [|simpl; lia].
      cbn [last_knot] in Hlast. lra.
Qed.

(* the certificate on the table dumped in this run *)
Ltac seg_ok :=
  repeat match goal with
         | |- _ /\ _ => split
         | |- True => exact I
         | |- _ < _ => lra
         | |- _ \/ _ => first [left; lra | right; left; lra | right; right; repeat split; lra]
         end.

Lemma table_ok_wide : segments_ok (955 / 1000) (1045 / 1000) (8 / 10) 6 amp_knots.
Proof. unfold amp_knots. cbn [segments_ok]. seg_ok. Qed.

Lemma table_ok_tight : segments_ok (98 / 100) (102 / 100) (125 / 100) 4 amp_knots.
Proof. unfold amp_knots. cbn [segments_ok]. seg_ok. Qed.

Definition S_T (n : R) : R := interp amp_knots n.

(* for EVERY Sersic index in [0.8, 6] the interpolated amplitudes sum to 1 within 4.5 % (2 % on [1.25, 4]) *)
Theorem amp_sum_band n :
  (8 / 10 <= n <= 6 -> 955 / 1000 <= S_T n <= 1045 / 1000) /\
  (125 / 100 <= n <= 4 -> 98 / 100 <= S_T n <= 102 / 100).
Proof.
  split; intros Hn; unfold S_T.
  - apply (interp_in_band _ _ (8 / 10) 6); [exact table_ok_wide| | |assumption|].
    + unfold amp_knots. cbn. lra.
    + unfold amp_knots. cbn [last_knot]. lra.
    + unfold amp_knots. cbn [length]. lia.
  - apply (interp_in_band _ _ (125 / 100) 4); [exact table_ok_tight| | |assumption|].
    + unfold amp_knots. cbn. lra.
    + unfold amp_knots. cbn [last_knot]. lra.
    + unfold amp_knots. cbn [length]. lia.
Qed.

(* Enclosed-light fraction inside the r_eff ellipse for the b_n approximation in use
   (b_n REGENERATED from rendering.py), at 2n integer. *)
From Coq Require Import Reals Lra Lia.
From Coquelicot Require Import Coquelicot.
From Interval Require Import Tactic.
From PS Require Import Base.RBase Gen.Formulas Proofs.SymmetryProofs.
Open Scope R_scope.

Lemma half_light_grid (m : nat) : (2 <= m <= 12)%nat ->
  494 / 1000 <= enclosed_fraction m (sersic_bn (INR m / 2)) <= 5005 / 10000.
Proof.
  intros [H1 H2].
  do 2 (destruct m as [|m]; [exfalso; lia|]).
  do 11 (destruct m as [|m]; [unfold enclosed_fraction, sersic_bn; cbn [horner INR]; split; interval|]).
  exfalso; lia.
Qed.

(* ---------------------------------------------------------------------------------------------
   The closed form used above,  enclosed_fraction m b = 1 - exp(-b) sum_{k<m} b^k / k!,  IS the regularised lower
   incomplete gamma function P(m, b) = (1/(m-1)!) int_0^b t^(m-1) exp(-t) dt, and the light of the GENERATED 1-D
   Sersic profile (sersic1d, from rendering.py) inside radius r is flux x P(2n, b_n (r/re)^(1/n)) for 2n = m integer:
   its growth rate is 2 pi r I(r).  At r = re the argument is b_n itself, so r_eff encloses P(2n, b_n) of the flux.
   --------------------------------------------------------------------------------------------- *)

Lemma rsum_shift f n : rsum f (S n) = f 0%nat + rsum (fun k => f (S k)) n.
Proof.
  induction n as [|n IH]; [cbn [rsum]; ring|].
  cbn [rsum] in *. rewrite IH. ring.
Qed.

Lemma INR_fact_neq_0 k : INR (fact k) <> 0.
Proof. apply not_0_INR. apply fact_neq_0. Qed.

(* the nested form is the partial exponential series *)
Lemma horner_closed m : forall j b, (0 < j)%nat ->
  horner j m b = rsum (fun k => b ^ k * INR (fact (j - 1)) / INR (fact (j - 1 + k))) m.
Proof.
  induction m as [|m IH]; intros j b Hj; [reflexivity|].
  cbn [horner]. rewrite (IH (S j) b) by lia. rewrite rsum_shift.
  replace (j - 1 + 0)%nat with (j - 1)%nat by lia.
  replace (b ^ 0 * INR (fact (j - 1)) / INR (fact (j - 1))) with 1 by (cbn [pow]; field; apply INR_fact_neq_0).
  f_equal. rewrite <- rsum_scal. apply rsum_ext. intros k _.
  replace (S j - 1)%nat with j by lia. replace (j - 1 + S k)%nat with (j + k)%nat by lia.
  assert (Hf : INR (fact j) = INR j * INR (fact (j - 1))).
  { destruct j as [|j']; [lia|]. replace (S j' - 1)%nat with j' by lia. rewrite fact_simpl, mult_INR. reflexivity. }
  rewrite Hf. cbn [pow]. field. split; [apply INR_fact_neq_0|apply not_0_INR; lia].
Qed.

Definition psum (m : nat) (b : R) : R := rsum (fun k => b ^ k / INR (fact k)) m.

Lemma horner_is_psum m b : horner 1 m b = psum m b.
Proof.
  rewrite horner_closed by lia. unfold psum. apply rsum_ext. intros k _.
  cbn [Nat.sub fact INR Nat.add]. field. apply INR_fact_neq_0.
Qed.

Lemma psum_derive m b : is_derive (psum m) b (psum (m - 1) b).
Proof.
  induction m as [|m IH].
  - unfold psum. cbn [rsum Nat.sub]. apply (is_derive_const 0 b).
  - unfold psum in *. cbn [rsum].
    destruct m as [|m'].
    + cbn [rsum Nat.sub pow fact INR]. 
      apply (is_derive_ext (fun _ => 0 + 1 / 1)); [intros; reflexivity|]. apply (is_derive_const (0 + 1 / 1) b).
    + replace (S (S m') - 1)%nat with (S m') by lia. replace (S m' - 1)%nat with m' in IH by lia.
      cbn [rsum]. apply (is_derive_plus (fun x => rsum (fun k => x ^ k / INR (fact k)) (S m')) (fun x => x ^ S m' / INR (fact (S m'))) b).
      * exact IH.
      * auto_derive; [exact I|].
        change (match m' with O => 1 | S _ => INR m' + 1 end) with (INR (S m')).
        rewrite S_INR, plus_INR, mult_INR.
        assert (Hf : 0 < INR (fact m')) by (apply lt_0_INR, lt_O_fact).
        pose proof (pos_INR m') as Hm.
        field. split; nra.
Qed.

(* derivative of the closed form = the normalised gamma integrand *)
Lemma enclosed_fraction_derive m b : (0 < m)%nat ->
  is_derive (enclosed_fraction m) b (exp (- b) * b ^ (m - 1) / INR (fact (m - 1))).
Proof.
  intros Hm.
  apply (is_derive_ext (fun x => 1 - exp (- x) * psum m x)).
  { intros x. unfold enclosed_fraction. rewrite horner_is_psum. reflexivity. }
  pose proof (psum_derive m b) as Hp.
  evar_last.
  - apply (is_derive_minus (fun _ => 1) (fun x => exp (- x) * psum m x) b).
    + apply (is_derive_const 1 b).
    + apply (is_derive_mult (fun x => exp (- x)) (psum m) b); [|exact Hp|intros; apply Rmult_comm].
      apply (is_derive_comp exp (fun x => - x) b); [apply is_derive_exp|apply (is_derive_opp (fun x => x) b); apply (is_derive_id b)].
  - destruct m as [|m']; [lia|]. replace (S m' - 1)%nat with m' by lia.
    unfold psum. cbn [rsum]. unfold minus, plus, opp, mult, scal, one, zero. simpl.
    unfold mult, one. simpl. field. apply INR_fact_neq_0.
Qed.

Lemma enclosed_fraction_0 m : (0 < m)%nat -> enclosed_fraction m 0 = 0.
Proof.
  intros Hm. destruct m as [|m']; [lia|]. unfold enclosed_fraction. cbn [horner].
  rewrite Ropp_0, exp_0. unfold Rdiv. rewrite Rmult_0_l. ring.
Qed.

(* P(m, b) = (1 / (m-1)!) * integral_0^b t^(m-1) exp(-t) dt *)
Theorem enclosed_fraction_is_incomplete_gamma m b : (0 < m)%nat ->
  is_RInt (fun t => exp (- t) * t ^ (m - 1) / INR (fact (m - 1))) 0 b (enclosed_fraction m b).
Proof.
  intros Hm.
  replace (enclosed_fraction m b) with (minus (enclosed_fraction m b) (enclosed_fraction m 0)).
  2:{ rewrite (enclosed_fraction_0 m Hm). unfold minus, plus, opp. simpl. ring. }
  apply (is_RInt_derive (enclosed_fraction m) (fun t => exp (- t) * t ^ (m - 1) / INR (fact (m - 1)))).
  - intros x _. apply enclosed_fraction_derive. exact Hm.
  - intros x _. apply (ex_derive_continuous (fun t => exp (- t) * t ^ (m - 1) / INR (fact (m - 1)))).
    auto_derive. exact I.
Qed.

(* ---------- the radial light growth of the generated 1-D Sersic profile ---------- *)

Lemma exp_pow_nat y m : exp y ^ m = exp (INR m * y).
Proof.
  induction m as [|m IH]; [cbn [pow INR]; rewrite Rmult_0_l, exp_0; reflexivity|].
  cbn [pow]. rewrite IH, S_INR, <- exp_plus. f_equal. ring.
Qed.

Lemma rpow_nat x m : 0 < x -> rpow x (INR m) = x ^ m.
Proof. intros Hx. rewrite rpow_pos by assumption. rewrite <- exp_pow_nat, exp_ln by assumption. reflexivity. Qed.

Section Radial.
  Variable lg : R -> R.
  Variables (flux re : R) (m : nat).
  Hypothesis Hre : 0 < re.
  Hypothesis Hm : (0 < m)%nat.
  Let n := INR m / 2.
  Let b := sersic_bn n.
  (* lg is the log-gamma function at 2n = m *)
  Hypothesis Hlg : exp (lg (2 * n)) = INR (fact (m - 1)).

  Lemma n_pos : 0 < n.
  Proof. unfold n. assert (0 < INR m) by (apply lt_0_INR; exact Hm). lra. Qed.

  Lemma b_pos : 0 < b.
  Proof.
    unfold b, sersic_bn, n. assert (1 <= INR m) by (apply (le_INR 1); lia). lra.
  Qed.

  Lemma two_n : 2 * n = INR m.
  Proof. unfold n. field. Qed.

  (* light inside radius r of the circular profile: flux x P(2n, b (r/re)^(1/n)); its growth rate is 2 pi r I(r) *)
  Theorem sersic1d_light_growth r : 0 < r ->
    is_derive (fun x => flux * enclosed_fraction m (b * rpow (x / re) (1 / n))) r (2 * PI * r * sersic1d lg r flux re n).
  Proof.
    intros Hr. pose proof n_pos as Hn. pose proof b_pos as Hb. pose proof two_n as H2n.
    assert (Hx : 0 < r / re) by (apply Rdiv_lt_0_compat; assumption).
    (* near r the power is exp((1/n) ln(x/re)) *)
    apply (is_derive_ext_loc (fun x => flux * enclosed_fraction m (b * exp (1 / n * ln (x / re))))).
    { apply (locally_open (fun x => 0 < x) _ (open_gt 0)); [|exact Hr].
      intros x Hxp. rewrite rpow_pos; [reflexivity|apply Rdiv_lt_0_compat; assumption]. }
    set (t := fun x => b * exp (1 / n * ln (x / re))).
    assert (Dt : is_derive t r (b * exp (1 / n * ln (r / re)) * (1 / n) / r)).
    { unfold t. auto_derive; [exact Hx|]. unfold Rdiv. field. repeat split; lra. }
    pose proof (enclosed_fraction_derive m (t r) Hm) as DP.
    evar_last.
    - apply (is_derive_scal (fun x => enclosed_fraction m (t x)) r flux).
      apply (is_derive_comp (enclosed_fraction m) t r); [exact DP|exact Dt].
    - (* algebra *)
      unfold scal, mult. simpl. unfold mult. simpl.
      unfold sersic1d. change (2499 / 1250 * n - 3271 / 10000) with b. rewrite H2n.
      rewrite (rpow_nat b m Hb), (rpow_pos (r / re) (1 / n) Hx).
      replace (exp (b + lg (INR m))) with (exp b * INR (fact (m - 1))) by (rewrite exp_plus, <- H2n, Hlg; reflexivity).
      unfold t.
      set (u := exp (1 / n * ln (r / re))).
      assert (Hu : u ^ m = (r / re) ^ 2).
      { unfold u. rewrite exp_pow_nat. replace (INR m * (1 / n * ln (r / re))) with (INR 2 * ln (r / re)).
        - rewrite <- exp_pow_nat, exp_ln by assumption. reflexivity.
        - simpl (INR 2). unfold n. field. apply not_0_INR. lia. }
      replace (exp (- b * (u - 1))) with (exp b * exp (- (b * u))) by (rewrite <- exp_plus; f_equal; ring).
      destruct m as [|m']; [lia|]. replace (S m' - 1)%nat with m' in * by lia.
      replace ((b * u) ^ m') with (b ^ m' * u ^ m') by (rewrite Rpow_mult_distr; reflexivity).
      assert (Hu' : u * u ^ m' = (r / re) ^ 2) by (rewrite <- Hu; reflexivity).
      assert (Hf : 0 < INR (fact m')) by (apply lt_0_INR, lt_O_fact).
      assert (He : 0 < exp b) by (apply exp_pos).
      (* both sides are  flux * exp(-(b u)) * b^(m'+1) * (r/re)^2 / (m'! n r)  *)
      transitivity (flux * exp (- (b * u)) * (b * b ^ m') * (u * u ^ m') / (INR (fact m') * n * r)).
      + field. repeat split; lra.
      + rewrite Hu'. cbn [pow]. pose proof PI_RGT_0 as Hpi. field. repeat split; lra.
  Qed.

  (* the annulus integral of 2 pi r I(r): for 0 < a <= R the light between the radii a and R is
     flux x (P(2n, b (R/re)^(1/n)) - P(2n, b (a/re)^(1/n))) *)
  Theorem sersic1d_light_between a R : 0 < a -> a <= R ->
    is_RInt (fun r => 2 * PI * r * sersic1d lg r flux re n) a R
      (flux * enclosed_fraction m (b * rpow (R / re) (1 / n)) - flux * enclosed_fraction m (b * rpow (a / re) (1 / n))).
  Proof.
    intros Ha HaR.
    apply (is_RInt_derive (fun x => flux * enclosed_fraction m (b * rpow (x / re) (1 / n))) (fun r => 2 * PI * r * sersic1d lg r flux re n)).
    - intros x Hx. rewrite Rmin_left, Rmax_right in Hx by lra. apply sersic1d_light_growth. lra.
    - intros x Hx. rewrite Rmin_left, Rmax_right in Hx by lra.
      assert (Hxp : 0 < x) by lra.
      apply (continuous_ext_loc _ (fun r => 2 * PI * r * (flux / (re * re * 2 * PI * n * exp (b + lg (2 * n))) * rpow b (2 * n) * exp (- b * (exp (1 / n * ln (r / re)) - 1))))).
      + apply (locally_open (fun r => 0 < r) _ (open_gt 0)); [|exact Hxp].
        intros r Hr. unfold sersic1d. change (2499 / 1250 * n - 3271 / 10000) with b.
        rewrite (rpow_pos (r / re)) by (apply Rdiv_lt_0_compat; assumption). reflexivity.
      + apply (ex_derive_continuous (fun r => 2 * PI * r * (flux / (re * re * 2 * PI * n * exp (b + lg (2 * n))) * rpow b (2 * n) * exp (- b * (exp (1 / n * ln (r / re)) - 1))))).
        auto_derive. apply Rmult_lt_0_compat; [exact Hxp|apply Rinv_0_lt_compat; exact Hre].
  Qed.

  (* at R = re the argument of P is b itself: r_eff encloses the fraction P(2n, b_n) of the flux (up to the light inside a) *)
  Corollary sersic1d_light_to_re a : 0 < a -> a <= re ->
    is_RInt (fun r => 2 * PI * r * sersic1d lg r flux re n) a re
      (flux * enclosed_fraction m b - flux * enclosed_fraction m (b * rpow (a / re) (1 / n))).
  Proof.
    intros Ha Hare. pose proof (sersic1d_light_between a re Ha Hare) as H.
    replace (re / re) with 1 in H by (field; lra).
    rewrite (rpow_pos 1) in H by lra. rewrite ln_1, Rmult_0_r, exp_0, Rmult_1_r in H. exact H.
  Qed.
End Radial.

(* ---------- bounds: 0 <= P <= 1, P(m, x) <= x^m/m! near 0, 1 - P(m, x) <= m (m+1)!/x^2 for x >= 1; total light = flux ---------- *)

(* partial exponential sums are Coquelicot / stdlib's sum_f_R0 *)
Lemma psum_sum_f_R0 n x : psum (S n) x = sum_f_R0 (fun k => x ^ k / INR (fact k)) n.
Proof.
  unfold psum. induction n as [|n IH]; [cbn [rsum sum_f_R0]; ring|].
  change (rsum (fun k => x ^ k / INR (fact k)) (S (S n))) with (rsum (fun k => x ^ k / INR (fact k)) (S n) + x ^ S n / INR (fact (S n))).
  rewrite IH. reflexivity.
Qed.

Lemma psum_le_exp m x : 0 <= x -> psum m x <= exp x.
Proof.
  intros Hx. destruct m as [|m].
  - unfold psum. cbn [rsum]. left. apply exp_pos.
  - rewrite psum_sum_f_R0. apply exp_ge_taylor. exact Hx.
Qed.

Lemma psum_nonneg m x : 0 <= x -> 0 <= psum m x.
Proof.
  intros Hx. unfold psum. apply rsum_ge0. intros k _.
  apply Rmult_le_pos; [apply pow_le; exact Hx|]. left. apply Rinv_0_lt_compat. apply lt_0_INR, lt_O_fact.
Qed.

(* 0 <= P(m, x) <= 1 *)
Lemma enclosed_fraction_range m x : 0 <= x -> 0 <= enclosed_fraction m x <= 1.
Proof.
  intros Hx. unfold enclosed_fraction. rewrite horner_is_psum.
  pose proof (psum_le_exp m x Hx) as H1. pose proof (psum_nonneg m x Hx) as H0. pose proof (exp_pos (- x)) as He.
  assert (E : exp (- x) * exp x = 1) by (rewrite <- exp_plus; replace (- x + x) with 0 by ring; apply exp_0).
  split.
  - assert (exp (- x) * psum m x <= exp (- x) * exp x) by (apply Rmult_le_compat_l; lra). lra.
  - assert (0 <= exp (- x) * psum m x) by (apply Rmult_le_pos; lra). lra.
Qed.

(* each term of the partial sum is at most x^(m-1) for x >= 1, so psum m x <= m x^(m-1) *)
Lemma psum_le_pow m x : 1 <= x -> psum m x <= INR m * x ^ (m - 1).
Proof.
  intros Hx. unfold psum. induction m as [|m IH]; [cbn [rsum INR]; lra|].
  cbn [rsum]. replace (S m - 1)%nat with m by lia.
  assert (Hterm : x ^ m / INR (fact m) <= x ^ m).
  { assert (1 <= INR (fact m)) by (apply (le_INR 1), lt_O_fact).
    assert (0 <= x ^ m) by (apply pow_le; lra).
    apply (Rle_trans _ (x ^ m / 1)); [|right; field].
    unfold Rdiv. apply Rmult_le_compat_l; [assumption|]. apply Rinv_le_contravar; lra. }
  assert (Hprev : INR m * x ^ (m - 1) <= INR m * x ^ m).
  { apply Rmult_le_compat_l; [apply pos_INR|]. apply Rle_pow; [lra|lia]. }
  rewrite S_INR. lra.
Qed.

(* tail bound: for x >= 1 the light outside, 1 - P(m, x), is at most m (m+1)! / x^2 *)
Lemma enclosed_fraction_tail m x : 1 <= x -> 1 - enclosed_fraction m x <= INR m * INR (fact (S m)) / x ^ 2.
Proof.
  intros Hx. unfold enclosed_fraction. rewrite horner_is_psum.
  assert (Hx0 : 0 <= x) by lra.
  pose proof (psum_le_pow m x Hx) as Hp.
  (* exp x >= x^(m+1) / (m+1)! *)
  assert (Hexp : x ^ S m / INR (fact (S m)) <= exp x).
  { apply (Rle_trans _ (psum (S (S m)) x)); [|apply psum_le_exp; exact Hx0].
    unfold psum. cbn [rsum].
    assert (0 <= rsum (fun k => x ^ k / INR (fact k)) m) by (apply (psum_nonneg m x Hx0)).
    assert (0 <= x ^ m / INR (fact m)).
    { apply Rmult_le_pos; [apply pow_le; lra|]. left. apply Rinv_0_lt_compat, lt_0_INR, lt_O_fact. }
    lra. }
  assert (Hf : 0 < INR (fact (S m))) by (apply lt_0_INR, lt_O_fact).
  assert (Hxm : 0 < x ^ S m) by (apply pow_lt; lra).
  assert (Hinv : exp (- x) <= INR (fact (S m)) / x ^ S m).
  { rewrite exp_Ropp. apply (Rle_trans _ (/ (x ^ S m / INR (fact (S m))))).
    - apply Rinv_le_contravar; [apply Rdiv_lt_0_compat; assumption|exact Hexp].
    - right. field. split; lra. }
  replace (1 - (1 - exp (- x) * psum m x)) with (exp (- x) * psum m x) by ring.
  apply (Rle_trans _ (INR (fact (S m)) / x ^ S m * (INR m * x ^ (m - 1)))).
  - apply Rmult_le_compat; [left; apply exp_pos|apply psum_nonneg; exact Hx0|exact Hinv|exact Hp].
  - destruct m as [|m']; [cbn [INR]; right; unfold Rdiv; ring|].
    replace (S m' - 1)%nat with m' by lia. right.
    assert (Hxp : 0 < x ^ m') by (apply pow_lt; lra).
    cbn [pow]. field. repeat split; lra.
Qed.

(* near zero: P(m, x) <= x^m / m!  (the integrand is below t^(m-1)/(m-1)!) *)
Lemma enclosed_fraction_small m x : (0 < m)%nat -> 0 <= x -> enclosed_fraction m x <= x ^ m / INR (fact m).
Proof.
  intros Hm Hx.
  pose proof (enclosed_fraction_is_incomplete_gamma m x Hm) as HP.
  assert (HQ : is_RInt (fun t => t ^ (m - 1) / INR (fact (m - 1))) 0 x (x ^ m / INR (fact m))).
  { replace (x ^ m / INR (fact m)) with (minus (x ^ m / INR (fact m)) (0 ^ m / INR (fact m))).
    2:{ unfold minus, plus, opp. simpl. rewrite pow_i by exact Hm. unfold Rdiv. ring. }
    apply (is_RInt_derive (fun t => t ^ m / INR (fact m)) (fun t => t ^ (m - 1) / INR (fact (m - 1)))).
    - intros t _. destruct m as [|m']; [lia|]. replace (S m' - 1)%nat with m' by lia.
      auto_derive; [exact I|].
      change (match m' with O => 1 | S _ => INR m' + 1 end) with (INR (S m')).
      rewrite S_INR, plus_INR, mult_INR.
      assert (0 < INR (fact m')) by (apply lt_0_INR, lt_O_fact). pose proof (pos_INR m').
      field. split; nra.
    - intros t _. apply (ex_derive_continuous (fun t => t ^ (m - 1) / INR (fact (m - 1)))). auto_derive. exact I. }
  rewrite <- (is_RInt_unique _ _ _ _ HP), <- (is_RInt_unique _ _ _ _ HQ).
  apply RInt_le; [exact Hx|eexists; exact HP|eexists; exact HQ|].
  intros t [Ht0 _].
  assert (Hpw : 0 <= t ^ (m - 1)) by (apply pow_le; lra).
  assert (Hf : 0 < / INR (fact (m - 1))) by (apply Rinv_0_lt_compat, lt_0_INR, lt_O_fact).
  assert (He : exp (- t) <= 1).
  { rewrite <- exp_0. destruct (Req_dec t 0) as [->|Hne]; [rewrite Ropp_0; lra|]. left. apply exp_increasing. lra. }
  unfold Rdiv. apply Rmult_le_compat_r; [lra|].
  rewrite <- (Rmult_1_l (t ^ (m - 1))) at 2. apply Rmult_le_compat_r; assumption.
Qed.

Lemma rpow_nonneg x y : 0 <= rpow x y.
Proof. unfold rpow. destruct (Rle_dec x 0); [lra|left; apply exp_pos]. Qed.

(* the `flux` argument IS the total light of the generated 1-D profile (integer 2n = m): the light between radii a and Rout differs
   from flux by at most |flux| (ta^m / m! + m (m+1)! / tR^2), ta = b_n (a/re)^(1/n) -> 0 as a -> 0, tR = b_n (Rout/re)^(1/n) -> infinity *)
Theorem sersic1d_total_light lg flux re m a Rout :
  0 < re -> (0 < m)%nat -> exp (lg (2 * (INR m / 2))) = INR (fact (m - 1)) -> 0 < a -> a <= Rout ->
  let ta := sersic_bn (INR m / 2) * rpow (a / re) (1 / (INR m / 2)) in
  let tR := sersic_bn (INR m / 2) * rpow (Rout / re) (1 / (INR m / 2)) in
  1 <= tR ->
  exists L, is_RInt (fun r => 2 * PI * r * sersic1d lg r flux re (INR m / 2)) a Rout L /\
            Rabs (L - flux) <= Rabs flux * (ta ^ m / INR (fact m) + INR m * INR (fact (S m)) / tR ^ 2).
Proof.
  intros Hre Hm Hlg Ha HaR ta tR HtR.
  exists (flux * enclosed_fraction m tR - flux * enclosed_fraction m ta). split.
  - exact (sersic1d_light_between lg flux re m Hre Hm Hlg a Rout Ha HaR).
  - pose proof (b_pos m Hm) as Hb.
    assert (Hta : 0 <= ta) by (unfold ta; apply Rmult_le_pos; [lra|apply rpow_nonneg]).
    assert (HtR0 : 0 <= tR) by lra.
    pose proof (enclosed_fraction_range m ta Hta) as [Ha0 _].
    pose proof (enclosed_fraction_range m tR HtR0) as [_ HR1].
    pose proof (enclosed_fraction_small m ta Hm Hta) as Hsm.
    pose proof (enclosed_fraction_tail m tR HtR) as Htl.
    replace (flux * enclosed_fraction m tR - flux * enclosed_fraction m ta - flux)
      with (- (flux * ((1 - enclosed_fraction m tR) + enclosed_fraction m ta))) by ring.
    rewrite Rabs_Ropp, Rabs_mult. apply Rmult_le_compat_l; [apply Rabs_pos|].
    rewrite Rabs_pos_eq by lra. lra.
Qed.

(* non-vacuity: the hypotheses of the light-curve theorems are met, e.g. by the exponential profile n = 1 (m = 2) with
   lg the constant 0 = ln Gamma(2), r_eff = 1, and radii 1/2 <= 4 whose outer argument b_n (4/1)^(1/1) = 6.67 >= 1 *)
Example light_curve_hypotheses_hold :
  let lg := fun _ : R => 0 in
  0 < 1 /\ (0 < 2)%nat /\ exp (lg (2 * (INR 2 / 2))) = INR (fact (2 - 1)) /\ 0 < 1 / 2 /\ 1 / 2 <= 4 /\
  1 <= sersic_bn (INR 2 / 2) * rpow (4 / 1) (1 / (INR 2 / 2)).
Proof.
  cbn zeta. repeat split; try lra; try lia.
  - rewrite exp_0. reflexivity.
  - unfold sersic_bn. simpl (INR 2). rewrite rpow_pos by lra.
    replace (1 / ((1 + 1) / 2) * ln (4 / 1)) with (ln 4) by (replace (4 / 1) with 4 by field; field).
    rewrite exp_ln by lra. lra.
Qed.


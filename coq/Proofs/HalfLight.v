(* Enclosed-light fraction inside the r_eff ellipse for the b_n approximation in use
   (b_n REGENERATED from rendering.py), at 2n integer. *)
From Coq Require Import Reals Lia.
From Interval Require Import Tactic.
From PS Require Import Base.RBase Gen.Formulas Proofs.SymmetryProofs.
Open Scope R_scope.

Lemma half_light_grid (m : nat) : (2 <= m <= 12)%nat ->
  494 / 1000 <= enclosed_fraction m (sersic_bn (INR m / 2)) <= 5005 / 10000.
Proof.
  intros [H1 H2].
  do 2 (destruct m as [|m]; [exfalso; lia|]).
  do 11 (destruct m as [|m]; [unfold enclosed_fraction, sersic_bn; cbn [horner INR]; split; interval|]).
  exfalso; lia.
Qed.

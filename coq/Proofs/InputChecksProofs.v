(* Proofs for C18 over the regenerated validation steps (Gen/InputChecks.v). *)
From Coq Require Import ZArith List Bool Lia.
From PS Require Import Base.InputModel Gen.InputChecks Model.InputChecks.
Import ListNotations.
Open Scope Z_scope.

Lemma list_eqb_refl l : list_eqb l l = true.
Proof. apply list_eqb_eq. reflexivity. Qed.

Lemma list_eqb_neq l1 l2 : l1 <> l2 -> list_eqb l1 l2 = false.
Proof. intros H. destruct (list_eqb l1 l2) eqn:E; [|reflexivity]. apply list_eqb_eq in E. contradiction. Qed.

Ltac ltb_cases :=
  repeat match goal with
         | |- context [?a <? ?b] => destruct (Z.ltb_spec a b); try lia
         | |- context [?a =? ?b] => destruct (Z.eqb_spec a b); try lia
         end.

Section Outcomes.
  Variable i : inputs.

  Lemma rms_shape_rejected :
    shape i Rms <> shape i Data -> fitter_outcome i = Some ShapeMatchError.
  Proof.
    intros H. unfold fitter_outcome, check_input_steps. cbn.
    rewrite (list_eqb_neq (shape i Data) (shape i Rms)) by congruence. reflexivity.
  Qed.

  Lemma negative_rms_rejected :
    shape i Rms = shape i Data -> has_neg i Rms = true -> fitter_outcome i = Some ValueError.
  Proof.
    intros Hs Hn. unfold fitter_outcome, check_input_steps. cbn.
    rewrite Hs, list_eqb_refl, Hn. reflexivity.
  Qed.

  Lemma psf_too_large_rejected dh dw ph pw :
    shape i Rms = shape i Data -> has_neg i Rms = false ->
    shape i Data = [dh; dw] -> shape i Psf = [ph; pw] ->
    (dh < ph \/ dw < pw) ->
    fitter_outcome i = Some KernelError.
  Proof.
    intros Hs Hn Hd Hp Hlt. unfold fitter_outcome, check_input_steps, renderer_psf_test. cbn.
    rewrite Hs, list_eqb_refl, Hn, Hd, Hp. cbn.
    ltb_cases; cbn; try reflexivity; ltb_cases; destruct (mask_given i); cbn;
      try reflexivity; try rewrite Hd; try destruct (list_eqb (shape i Mask) [dh; dw]); cbn; ltb_cases; reflexivity.
  Qed.

  Lemma mask_shape_rejected dh dw ph pw :
    shape i Rms = shape i Data -> has_neg i Rms = false ->
    shape i Data = [dh; dw] -> shape i Psf = [ph; pw] -> ph <= dh -> pw <= dw ->
    mask_given i = true -> shape i Mask <> shape i Data ->
    fitter_outcome i = Some ShapeMatchError.
  Proof.
    intros Hs Hn Hd Hp H1 H2 Hm Hne. unfold fitter_outcome, check_input_steps. cbn.
    rewrite Hs, list_eqb_refl, Hn, Hm, (list_eqb_neq _ _ Hne), Hd, Hp. cbn.
    ltb_cases; reflexivity.
  Qed.

  Lemma consistent_accepted dh dw ph pw :
    shape i Rms = shape i Data -> has_neg i Rms = false ->
    shape i Data = [dh; dw] -> shape i Psf = [ph; pw] -> ph <= dh -> pw <= dw ->
    (mask_given i = false \/ shape i Mask = shape i Data) ->
    fitter_outcome i = None.
  Proof.
    intros Hs Hn Hd Hp H1 H2 Hm. unfold fitter_outcome, check_input_steps, renderer_psf_test. cbn.
    rewrite Hs, list_eqb_refl, Hn, Hd, Hp. cbn.
    destruct Hm as [Hm|Hm]; [rewrite Hm|rewrite Hm, Hd, list_eqb_refl]; cbn;
      ltb_cases; cbn; try rewrite andb_false_r; reflexivity.
  Qed.

  (* the renderer's own test, for direct construction of a renderer *)
  Lemma renderer_rejects_iff ih iw ph pw :
    shape i Im = [ih; iw] -> shape i Psf = [ph; pw] ->
    (renderer_outcome i = Some KernelError <-> (ih < ph \/ iw < pw)).
  Proof.
    intros Hi Hp. unfold renderer_outcome, renderer_psf_test. cbn. rewrite Hi, Hp. cbn.
    ltb_cases; cbn; split; intros; try lia; try reflexivity; try discriminate.
  Qed.
End Outcomes.

(* ingestion: every stored array is the float32 cast of the argument of the
   same name (same shape and order), the mask is stored with inverted polarity *)
Section Ingest.
  Variable round32 : Z -> Z.   (* abstract rounding to float32; only used pointwise *)

  Definition stored (op : ingest_op) (values : arr -> list Z) (mask_given : bool) (n : nat) : list Z :=
    match op with
    | CastF32 a => map round32 (values a)
    | ParseMask a =>
      if mask_given then map (fun v => if parse_mask_pixel v then 1 else 0) (values a)
      else repeat 1 n
    end.

  Lemma ingest_faithful values mg n :
    map (fun p => stored (snd p) values mg n) ingest_plan =
    [ map round32 (values Data); map round32 (values Rms); map round32 (values Psf);
      if mg then map (fun v => if v =? 0 then 1 else 0) (values Mask) else repeat 1 n ].
  Proof. reflexivity. Qed.
End Ingest.

Lemma mask_polarity : parse_mask_absent_all_good = true /\ parse_mask_good_is_not_marked = true.
Proof. split; reflexivity. Qed.

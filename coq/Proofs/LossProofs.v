(* Proofs for C07 (each loss is its documented likelihood) and C06 (mask
   safety) over the loss models REGENERATED from pysersic/loss.py. *)
From Coq Require Import Reals Lra List String Bool.
From PS Require Import Base.RBase Base.Dist Base.LossModel Gen.Losses.
Import ListNotations.
Open Scope R_scope.

(* ---------------- C07: the per-pixel terms ---------------- *)

Lemma gaussian_formula d s m mr lat :
  gaussian_loss_logp d s m mr lat = - (d - m) ^ 2 / (2 * s ^ 2) - ln s - ln (2 * PI) / 2.
Proof. reflexivity. Qed.

Lemma gaussian_w_frac_formula d s m mr lat :
  gaussian_loss_w_frac_logp d s m mr lat =
  normal_lpdf d m ((1 + lat "frac_rms_increase"%string) * s) /\
  lm_latents gaussian_loss_w_frac_model = [("frac_rms_increase"%string, LTruncNormal 0 1 (Some (-1 / 2)) (Some 2))].
Proof. split; reflexivity. Qed.

Lemma gaussian_w_sys_formula d s m mr lat :
  gaussian_loss_w_sys_logp d s m mr lat =
  normal_lpdf d m (sqrt (s ^ 2 + (lat "sys_rms_base"%string * mr) ^ 2)) /\
  lm_latents gaussian_loss_w_sys_model = [("sys_rms_base"%string, LTruncNormal 0 1 (Some 0) None)].
Proof. split; reflexivity. Qed.

Lemma cash_formula d s m mr lat : cash_loss_logp d s m mr lat = - (m - d * ln m).
Proof. unfold cash_loss_logp. ring. Qed.

Lemma pseudo_huber_formula d s m mr lat :
  pseudo_huber_loss_logp d s m mr lat = - (3 ^ 2 * (sqrt (1 + (((d - m) / s) / 3) ^ 2) - 1)).
Proof. unfold pseudo_huber_loss_logp. ring. Qed.

(* Student-t, 5 d.o.f., located at the model, scale = c0 * rms with a positive constant c0 *)
Definition t_scale_const : R := sqrt ((5 - 2) / 2).

Lemma t_scale_const_pos : 0 < t_scale_const.
Proof. unfold t_scale_const. apply sqrt_lt_R0. lra. Qed.

Lemma student_t_formula d s m mr lat :
  student_t_loss_logp d s m mr lat = student_t5_lpdf d m (t_scale_const * s).
Proof. reflexivity. Qed.

Lemma student_t_free_sys_formula d s m mr lat :
  student_t_loss_free_sys_logp d s m mr lat =
  student_t5_lpdf d m (t_scale_const * sqrt (s ^ 2 + (lat "sys_rms_base"%string * mr) ^ 2)) /\
  lm_latents student_t_loss_free_sys_model = [("sys_rms_base"%string, LTruncNormal 0 1 (Some 0) None)].
Proof. split; reflexivity. Qed.

(* structure of the Student-t term: symmetric about the model, a function of
   (d - m)/scale only (plus - ln scale), tail exponent -(5+1)/2 = -3 *)
Lemma student_t5_symmetric u loc scale :
  student_t5_lpdf (loc + u) loc scale = student_t5_lpdf (loc - u) loc scale.
Proof. unfold student_t5_lpdf. replace (loc + u - loc) with u by ring. replace (loc - u - loc) with (- u) by ring.
  replace ((- u / scale) ^ 2) with ((u / scale) ^ 2) by (unfold Rdiv; ring). reflexivity. Qed.

Lemma student_t5_standardised x loc scale :
  student_t5_lpdf x loc scale = t5_lnorm - ln scale - 3 * ln (1 + ((x - loc) / scale) ^ 2 / 5).
Proof. reflexivity. Qed.

(* mixtures: ln((1-f) N(d; m, s1) + f N(d; m, 5 s2)),  f = b/20 *)
Lemma mixture_formula d s m mr lat :
  gaussian_mixture_logp d s m mr lat =
  ln ((1 - lat "outlier_frac_base"%string * (1 / 20)) * exp (normal_lpdf d m s) +
      lat "outlier_frac_base"%string * (1 / 20) * exp (normal_lpdf d m (5 * s))) /\
  lm_latents gaussian_mixture_model = [("outlier_frac_base"%string, LTruncNormal 0 1 (Some 0) (Some 5))].
Proof. split; reflexivity. Qed.

Lemma mixture_w_sys_formula d s m mr lat :
  let s' := sqrt (s ^ 2 + (lat "sys_rms_base"%string * mr) ^ 2) in
  gaussian_mixture_w_sys_logp d s m mr lat =
  mixture2_lpdf d (lat "outlier_frac_base"%string * (1 / 20)) m s' (5 * s') /\
  lm_latents gaussian_mixture_w_sys_model =
    [("outlier_frac_base"%string, LTruncNormal 0 1 (Some 0) (Some 5)); ("sys_rms_base"%string, LTruncNormal 0 1 (Some 0) None)].
Proof. split; reflexivity. Qed.

Lemma mixture_w_frac_formula d s m mr lat :
  gaussian_mixture_w_frac_logp d s m mr lat =
  mixture2_lpdf d (lat "outlier_frac_base"%string * (1 / 20)) m ((1 + lat "rms_frac"%string) * s) (5 * s) /\
  lm_latents gaussian_mixture_w_frac_model =
    [("outlier_frac_base"%string, LTruncNormal 0 1 (Some 0) (Some 5));
     ("rms_frac"%string, LTruncNormal 0 (1 / 2) (Some (-2 / 3)) (Some 2))].
Proof. split; reflexivity. Qed.

(* the outlier fraction b/20 with b in [0, 5] lies in [0, 1/4] *)
Lemma outlier_support b : in_support (LTruncNormal 0 1 (Some 0) (Some 5)) b -> 0 <= b * (1 / 20) <= 1 / 4.
Proof. cbn. lra. Qed.

(* ---------------- C06: every loss is mask-safe ---------------- *)

Lemma all_losses_mask_safe : forallb (fun nl => mask_safe (snd nl)) all_losses = true.
Proof. reflexivity. Qed.

Lemma all_losses_names :
  map fst all_losses =
  ["gaussian_loss"; "cash_loss"; "gaussian_loss_w_frac"; "gaussian_loss_w_sys"; "student_t_loss";
   "student_t_loss_free_sys"; "pseudo_huber_loss"; "gaussian_mixture"; "gaussian_mixture_w_sys"; "gaussian_mixture_w_frac"]%string.
Proof. reflexivity. Qed.

Lemma mask_safe_every_loss {pixel} name L (pixels : list pixel) data rms mdl data' rms' mdl' good lat lp_lat :
  In (name, L) all_losses ->
  (forall p, In p pixels -> good p = true -> data p = data' p /\ rms p = rms' p /\ mdl p = mdl' p) ->
  loss_logdens pixel pixels data rms mdl good lat lp_lat L =
  loss_logdens pixel pixels data' rms' mdl' good lat lp_lat L.
Proof.
  intros Hin Hagree. apply mask_safe_sound; [|assumption].
  pose proof all_losses_mask_safe as H. rewrite forallb_forall in H. apply (H (name, L) Hin).
Qed.

(* an unmasked pixel matters: for each loss the per-pixel term is not constant in
   the data value (two data values with different log-density exist) *)
Definition lat1 (_ : string) : R := 1.

Lemma normal_lpdf_sensitive m s : 0 < s -> normal_lpdf m m s <> normal_lpdf (m + s) m s.
Proof.
  intros Hs. unfold normal_lpdf. replace (m - m) with 0 by ring. replace (m + s - m) with s by ring.
  replace (- 0 ^ 2 / (2 * s ^ 2)) with 0 by (field; lra).
  replace (- s ^ 2 / (2 * s ^ 2)) with (- (1 / 2)) by (field; lra). lra.
Qed.

(* ---------------- C06: a masked pixel's value is irrelevant, gradient zero ---------------- *)
From Coquelicot Require Import Coquelicot.

Definition upd (f : nat -> R) (p0 : nat) (v : R) : nat -> R := fun p => if Nat.eqb p p0 then v else f p.

Lemma masked_pixel_irrelevant name L (pixels : list nat) data rms mdl good lat lp_lat p0 v w z v' w' z' :
  In (name, L) all_losses -> good p0 = false ->
  loss_logdens nat pixels (upd data p0 v) (upd rms p0 w) (upd mdl p0 z) good lat lp_lat L =
  loss_logdens nat pixels (upd data p0 v') (upd rms p0 w') (upd mdl p0 z') good lat lp_lat L.
Proof.
  intros Hin Hbad. apply (mask_safe_every_loss name L pixels); [assumption|].
  intros p _ Hg. unfold upd. destruct (Nat.eqb_spec p p0) as [->|_]; [congruence|auto].
Qed.

(* d(log-density)/d(data at a masked pixel) = 0, likewise for rms and the model *)
Lemma masked_pixel_zero_gradient name L (pixels : list nat) data rms mdl good lat lp_lat p0 x :
  In (name, L) all_losses -> good p0 = false ->
  is_derive (fun v => loss_logdens nat pixels (upd data p0 v) rms mdl good lat lp_lat L) x 0 /\
  is_derive (fun w => loss_logdens nat pixels data (upd rms p0 w) mdl good lat lp_lat L) x 0 /\
  is_derive (fun z => loss_logdens nat pixels data rms (upd mdl p0 z) good lat lp_lat L) x 0.
Proof.
  intros Hin Hbad.
  assert (Hself : forall f : nat -> R, upd f p0 (f p0) = f -> True) by trivial.
  assert (Hid : forall (f : nat -> R) p, upd f p0 (f p0) p = f p).
  { intros f p. unfold upd. destruct (Nat.eqb_spec p p0) as [->|_]; reflexivity. }
  split; [|split].
  - apply is_derive_ext with (f := fun _ : R => loss_logdens nat pixels (upd data p0 0) rms mdl good lat lp_lat L); [|apply @is_derive_const].
    intros t. apply (mask_safe_every_loss name L pixels); [assumption|].
    intros p _ Hg. unfold upd. destruct (Nat.eqb_spec p p0) as [->|_]; [congruence|auto].
  - apply is_derive_ext with (f := fun _ : R => loss_logdens nat pixels data (upd rms p0 0) mdl good lat lp_lat L); [|apply @is_derive_const].
    intros t. apply (mask_safe_every_loss name L pixels); [assumption|].
    intros p _ Hg. unfold upd. destruct (Nat.eqb_spec p p0) as [->|_]; [congruence|auto].
  - apply is_derive_ext with (f := fun _ : R => loss_logdens nat pixels data rms (upd mdl p0 0) good lat lp_lat L); [|apply @is_derive_const].
    intros t. apply (mask_safe_every_loss name L pixels); [assumption|].
    intros p _ Hg. unfold upd. destruct (Nat.eqb_spec p p0) as [->|_]; [congruence|auto].
Qed.

From PS Require Import Base.InputModel Gen.InputChecks Gen.BuildModel.

Lemma polarity :
  parse_mask_absent_all_good = true /\ parse_mask_good_is_not_marked = true /\
  In (Mask, ParseMask Mask) ingest_plan /\
  loss_args = ["obs"; "self.data"; "self.rms"; "self.mask"]%string.
Proof.
  split; [reflexivity|]. split; [reflexivity|]. split; [|reflexivity].
  unfold ingest_plan. cbn. tauto.
Qed.

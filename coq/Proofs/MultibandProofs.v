(* Proofs for C15 over the multi-band model REGENERATED from multiband.py / priors.py. *)
From Coq Require Import Reals Lra List String Ascii Bool Arith Lia.
From Coq Require Import DecimalString Decimal DecimalNat.
From PS Require Import Base.RBase Base.PyStr Gen.Multiband Gen.ProfileParams Model.ResultsParse Proofs.ResultsParseProofs.
Import ListNotations.
Open Scope string_scope.

(* ---- squashing into the physical range ---- *)
Lemma restrict_in_range x hi low : (low < hi)%R -> (low < restrict x hi low < hi)%R.
Proof.
  intros H. unfold restrict. destruct (logistic_range x) as [H0 H1].
  assert (0 < logistic x * (hi - low))%R by (apply Rmult_lt_0_compat; lra).
  assert (logistic x * (hi - low) < 1 * (hi - low))%R by (apply Rmult_lt_compat_r; lra).
  lra.
Qed.

(* polynomial link: jnp.polyval = Horner, highest degree first *)
Definition polyval (cs : list R) (t : R) : R := fold_left (fun acc c => (acc * t + c)%R) cs 0%R.

Lemma polyval_snoc cs c t : polyval (cs ++ [c]) t = (polyval cs t * t + c)%R.
Proof. unfold polyval. rewrite fold_left_app. reflexivity. Qed.

Lemma polyval_quadratic a b c t : polyval [a; b; c] t = (a * t ^ 2 + b * t + c)%R.
Proof. unfold polyval. cbn [fold_left]. ring. Qed.

Lemma linked_value_in_range cs t hi low : (low < hi)%R -> (low < restrict (polyval cs t) hi low < hi)%R.
Proof. intros H. apply restrict_in_range. assumption. Qed.

(* spline link: a convex combination of weights in [low, hi] stays in [low, hi] *)
Fixpoint dot (d w : list R) : R :=
  match d, w with
  | a :: d', b :: w' => (a * b + dot d' w')%R
  | _, _ => 0%R
  end.
Fixpoint sumR (l : list R) : R := match l with [] => 0%R | a :: l' => (a + sumR l')%R end.

Lemma dot_bounds (d w : list R) low hi :
  List.length d = List.length w -> Forall (fun a => (0 <= a)%R) d -> Forall (fun b => (low <= b <= hi)%R) w ->
  (low * sumR d <= dot d w <= hi * sumR d)%R.
Proof.
  revert w; induction d as [|a d IH]; intros [|b w] Hl Hd Hw; simpl in *; try discriminate; [lra|].
  inversion Hd; subst. inversion Hw; subst. injection Hl as Hl.
  specialize (IH w Hl H2 H4). nra.
Qed.

Lemma bspline_convex (d w : list R) low hi :
  List.length d = List.length w -> Forall (fun a => (0 <= a)%R) d -> sumR d = 1%R -> Forall (fun b => (low <= b <= hi)%R) w ->
  (low <= dot d w <= hi)%R.
Proof. intros Hl Hd Hs Hw. pose proof (dot_bounds d w low hi Hl Hd Hw) as H. rewrite Hs in H. lra. Qed.

Lemma bspl_weight_range u low hi : (low <= hi)%R -> (0 <= u <= 1)%R -> (low <= bspl_weight_in_range u low hi <= hi)%R.
Proof. intros H [H0 H1]. unfold bspl_weight_in_range. nra. Qed.

(* ---- default physical ranges by parameter name ---- *)

Fixpoint no_char (c : ascii) (s : string) : bool :=
  match s with EmptyString => true | String d s' => negb (Ascii.eqb c d) && no_char c s' end.

Lemma contains_first_char_absent c w s : no_char c s = true -> contains (String c w) s = false.
Proof.
  induction s as [|d s IH]; intros H; [reflexivity|].
  cbn [no_char] in H. apply andb_true_iff in H. destruct H as [H1 H2].
  cbn [contains prefixb]. rewrite (IH H2). destruct (Ascii.eqb c d); [discriminate|reflexivity].
Qed.

Lemma no_char_uint c u : (forall k : nat, (k < 10)%nat -> True) ->
  (Ascii.eqb c "0" || Ascii.eqb c "1" || Ascii.eqb c "2" || Ascii.eqb c "3" || Ascii.eqb c "4" ||
   Ascii.eqb c "5" || Ascii.eqb c "6" || Ascii.eqb c "7" || Ascii.eqb c "8" || Ascii.eqb c "9")%bool = false ->
  no_char c (NilEmpty.string_of_uint u) = true.
Proof.
  intros _ Hc. repeat (apply orb_false_iff in Hc; destruct Hc as [Hc ?]).
  induction u; cbn [NilEmpty.string_of_uint no_char]; rewrite ?IHu; try reflexivity;
    match goal with H : Ascii.eqb c ?d = false |- context [Ascii.eqb c ?d] => rewrite H end; reflexivity.
Qed.

Lemma index_suffix_free w c i :
  (Ascii.eqb c "_" || Ascii.eqb c "0" || Ascii.eqb c "1" || Ascii.eqb c "2" || Ascii.eqb c "3" || Ascii.eqb c "4" ||
   Ascii.eqb c "5" || Ascii.eqb c "6" || Ascii.eqb c "7" || Ascii.eqb c "8" || Ascii.eqb c "9")%bool = false ->
  contains (String c w) ("_" ++ dec i) = false.
Proof.
  intros H. apply contains_first_char_absent. cbn [append no_char].
  apply orb_false_iff in H. destruct H as [H H9]. repeat (apply orb_false_iff in H; destruct H as [H ?]).
  rewrite H. cbn [negb andb]. unfold dec. apply no_char_uint; [auto|].
  repeat (apply orb_false_iff; split); assumption.
Qed.

Definition range_kind (p : string) : nat :=   (* 0 none, 1 sersic index, 2 ellipticity, 3 angle *)
  if String.eqb p "theta" then 3 else if prefixb "ellip" p then 2 else if String.eqb p "n" || prefixb "n_" p then 1 else 0.

Definition expected_range (p : string) : option (R * R) :=
  match range_kind p with
  | 1 => Some ((13 / 20)%R, 8%R) | 2 => Some (0%R, (9 / 10)%R) | 3 => Some (0%R, (2 * PI)%R) | _ => None
  end.

(* single-source fitters: the linked parameter names are the table names themselves *)
Lemma default_range_rule_single :
  Forall (fun p => default_range p = expected_range p) (filter (fun p => negb (prefixb "sky" p)) all_params).
Proof. unfold all_params. vm_compute dedup. cbn [filter prefixb Ascii.eqb Bool.eqb negb andb]. repeat constructor. Qed.

(* multi-source fitters: names carry the source index "_<i>" - the rule looks through it *)
Lemma default_range_rule_multi i :
  Forall (fun p => default_range (p ++ "_" ++ dec i) = expected_range p) (filter (fun p => negb (prefixb "sky" p)) all_params).
Proof.
  assert (Hn : contains "n" (dec i) = false) by (apply contains_first_char_absent; apply no_char_uint; [auto|reflexivity]).
  assert (He : contains "ellip" (dec i) = false) by (apply contains_first_char_absent; apply no_char_uint; [auto|reflexivity]).
  assert (Ht : contains "theta" (dec i) = false) by (apply contains_first_char_absent; apply no_char_uint; [auto|reflexivity]).
  unfold all_params. vm_compute dedup. cbn [filter prefixb Ascii.eqb Bool.eqb negb andb].
  repeat (apply Forall_cons;
    [unfold default_range, expected_range, range_kind;
     cbn [append contains prefixb String.eqb Ascii.eqb Bool.eqb andb orb negb];
     rewrite ?prefixb_nil; cbn [andb orb];
     rewrite ?Hn, ?He, ?Ht; cbn [andb orb]; reflexivity|]).
  apply Forall_nil.
Qed.

(* ---- attaching band names is a pure relabelling ---- *)

Lemma relabel_is_band_site p band : relabel "" ("_" ++ band) p = band_site p band.
Proof. reflexivity. Qed.

(* within one band the map is injective on parameter names *)
Lemma band_site_inj_fixed_band p p' band : band_site p band = band_site p' band -> p = p'.
Proof. unfold band_site. intros H. apply (append_inv_tail p p' ("_" ++ band)). exact H. Qed.

(* band names without underscore: the name determines parameter AND band *)
Lemma band_site_inj_no_us p p' band band' :
  no_us band = true -> no_us band' = true -> band_site p band = band_site p' band' -> p = p' /\ band = band'.
Proof.
  unfold band_site. intros Hb Hb' H.
  pose proof (rsplit_us_app p band Hb) as H1. pose proof (rsplit_us_app p' band' Hb') as H2.
  rewrite H in H1. rewrite H1 in H2. inversion H2. split; reflexivity.
Qed.

(* the default names Band_<i> *)
Lemma band_site_inj_default p p' i i' :
  band_site p (default_band_name i) = band_site p' (default_band_name i') -> p = p' /\ i = i'.
Proof.
  unfold band_site, default_band_name. intros H.
  assert (H' : source_key (p ++ "_Band") i "" = source_key (p' ++ "_Band") i' "").
  { unfold source_key. rewrite !append_nil_r, !append_assoc. exact H. }
  apply source_key_inj in H'. destruct H' as [Hp Hi]. split; [|assumption].
  apply (append_inv_tail p p' "_Band"). assumption.
Qed.

(* the side condition is necessary: band names containing "_" can collide with indexed parameter names *)
Lemma band_site_collision_refuted :
  exists p p' b b', (p <> p' \/ b <> b') /\ band_site p b = band_site p' b'.
Proof. exists "r_eff", "r_eff_1", "1_g", "g". split; [left; discriminate|reflexivity]. Qed.

Lemma multiband_flags :
  band_loss_gets_own_data_rms_mask = true /\ const_param_is_one_shared_site = true /\
  unlinked_param_uses_band_prior = true /\ linked_param_is_deterministic_per_band = true /\
  relabel_keeps_distribution_objects = true.
Proof. repeat split; reflexivity. Qed.

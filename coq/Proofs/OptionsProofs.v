(* Proofs for C20: the oversampling box of the pixel renderer, the Gauss-Legendre
   table actually used (dumped from the running implementation), the hybrid split. *)
From Coq Require Import ZArith QArith List Lia Bool Reals.
From PS Require Import Base.RBase Base.PySlice Gen.PixelBox Gen.GLTable Gen.Amps.
Import ListNotations.

(* ---------------- the box ---------------- *)
Open Scope Z_scope.

Lemma sb_range len a b : 0 <= a -> a <= b -> b <= len -> slice_bounds len (Some a) (Some b) = (a, b).
Proof.
  intros. unfold slice_bounds, norm_idx.
  destruct (Z.ltb_spec a 0); [lia|]. destruct (Z.ltb_spec b 0); [lia|]. f_equal; lia.
Qed.

Lemma slice_indices_In' len s e x :
  In x (slice_indices len s e) <-> fst (slice_bounds len s e) <= x < snd (slice_bounds len s e).
Proof. unfold slice_indices. destruct (slice_bounds len s e) as [lo hi]. apply zrange_In. Qed.

(* square N x N frame, 0 <= os <= N/2 (integer division, as int() computes it for N >= 0):
   row r / column c is box-integrated iff N/2 - os <= r, c < N/2 + os *)
Lemma os_box_spec N os r c :
  0 <= os -> os <= N / 2 ->
  (In r (box_rows N N os) /\ In c (box_cols N N os) <->
   N / 2 - os <= r < N / 2 + os /\ N / 2 - os <= c < N / 2 + os).
Proof.
  intros H0 H1. unfold box_rows, box_cols, grid_rows_of, grid_cols_of, box_lo, box_hi.
  assert (HN : 0 <= N) by (destruct (Z.ltb_spec N 0); [|assumption]; assert (N / 2 < 0) by (apply Z.div_lt_upper_bound; lia); lia).
  assert (Hd : 2 * (N / 2) <= N) by (apply Z.mul_div_le; lia).
  rewrite !slice_indices_In', !sb_range by lia. cbn [fst snd]. tauto.
Qed.

Lemma os_box_size N os : 0 <= os -> os <= N / 2 ->
  Z.of_nat (length (box_rows N N os)) = 2 * os /\ Z.of_nat (length (box_cols N N os)) = 2 * os.
Proof.
  intros H0 H1. unfold box_rows, box_cols, grid_rows_of, grid_cols_of, box_lo, box_hi, slice_indices.
  assert (HN : 0 <= N) by (destruct (Z.ltb_spec N 0); [|assumption]; assert (N / 2 < 0) by (apply Z.div_lt_upper_bound; lia); lia).
  assert (Hd : 2 * (N / 2) <= N) by (apply Z.mul_div_le; lia).
  rewrite !sb_range by lia. rewrite !zrange_length. lia.
Qed.

(* os = 0: nothing is oversampled *)
Lemma os_zero_no_box N : 0 <= N -> box_rows N N 0 = [] /\ box_cols N N 0 = [].
Proof.
  intros HN. unfold box_rows, box_cols, grid_rows_of, grid_cols_of, box_lo, box_hi, slice_indices.
  assert (Hd : 2 * (N / 2) <= N) by (apply Z.mul_div_le; lia).
  assert (0 <= N / 2) by (apply Z.div_pos; lia).
  rewrite !sb_range by lia. unfold zrange. rewrite !Z.add_0_r, !Z.sub_0_r, Z.sub_diag. split; reflexivity.
Qed.

(* ---------------- the quadrature rule that is actually used ---------------- *)
Open Scope Q_scope.

Fixpoint qpow (x : Q) (k : nat) : Q := match k with O => 1 | S k' => x * qpow x k' end.
Definition qsum (l : list Q) : Q := fold_right Qplus 0 l.
Definition qabs_le (x eps : Q) : bool := Qle_bool (- eps) x && Qle_bool x eps.

(* integral of x^k over [-1/2, 1/2] *)
Definition exact_moment (k : nat) : Q :=
  if Nat.even k then qpow (1 # 2) k / (inject_Z (Z.of_nat (S k))) else 0.

Definition moment (xs ws : list Q) (k : nat) : Q := qsum (map (fun xw => snd xw * qpow (fst xw) k) (combine xs ws)).

Definition eps_gl : Q := 1 # 1000000.     (* the nodes are float32 numbers *)

Definition gl_row_ok (row : nat * list Q * list Q) : bool :=
  let '(m, xs, ws) := row in
  Nat.eqb (length xs) m && Nat.eqb (length ws) m &&
  forallb (fun w => Qle_bool (1 # 1000000) w) ws &&                       (* positive weights *)
  qabs_le (qsum ws - 1) eps_gl &&                                          (* they sum to one *)
  forallb (fun k => qabs_le (moment xs ws k - exact_moment k) eps_gl) (seq 0 (2 * m)) &&   (* exact on x^k, k <= 2m-1 *)
  forallb (fun x => Qle_bool (- (1 # 2)) x && Qle_bool x (1 # 2)) xs &&   (* nodes inside the pixel *)
  (* nodes antisymmetric, weights symmetric *)
  forallb (fun p => qabs_le (fst p + snd p) eps_gl) (combine xs (rev xs)) &&
  forallb (fun p => qabs_le (fst p - snd p) eps_gl) (combine ws (rev ws)).

Lemma gl_certificate : forallb gl_row_ok gl_table = true /\ map (fun r => fst (fst r)) gl_table = seq 1 16.
Proof. split; vm_compute; reflexivity. Qed.

(* for an even number of nodes no sub-sample sits on the pixel centre (or on a pixel edge):
   |x| is at least 1e-3 and at most 1/2 - 1e-3 *)
Definition off_lattice (row : nat * list Q * list Q) : bool :=
  let '(m, xs, _) := row in
  if Nat.even m then forallb (fun x => (Qle_bool (1 # 1000) x || Qle_bool x (- (1 # 1000))) && Qle_bool x ((1 # 2) - (1 # 1000)) && Qle_bool ((1 # 1000) - (1 # 2)) x) xs
  else true.

Lemma gl_even_rules_miss_lattice : forallb off_lattice gl_table = true.
Proof. vm_compute. reflexivity. Qed.

(* ---------------- the hybrid split ---------------- *)
Open Scope nat_scope.

Lemma hybrid_partition n m : m <= n -> w_fourier n m ++ w_real n m = seq 0 n /\ NoDup (w_fourier n m ++ w_real n m).
Proof.
  intros H. unfold w_fourier, w_real.
  assert (E : seq 0 (n - m) ++ seq (n - m) (n - (n - m)) = seq 0 n).
  { replace (seq 0 n) with (seq 0 ((n - m) + (n - (n - m)))) by (f_equal; lia). rewrite seq_app. reflexivity. }
  rewrite E. split; [reflexivity|apply seq_NoDup].
Qed.

Lemma hybrid_sizes n m : m <= n -> length (w_real n m) = m /\ length (w_fourier n m) = n - m.
Proof. intros H. unfold w_real, w_fourier. rewrite !seq_length. lia. Qed.

(* num_pixel_render = 0: every component is evaluated in Fourier space, none in real space *)
Lemma hybrid_m0_is_fourier n : w_real n 0 = [] /\ w_fourier n 0 = seq 0 n.
Proof. unfold w_real, w_fourier. rewrite Nat.sub_0_r, Nat.sub_diag. split; reflexivity. Qed.

(* the real-space components are the LARGEST ones *)
Lemma hybrid_real_are_last n m k : m <= n -> (In k (w_real n m) <-> n - m <= k < n).
Proof. intros H. unfold w_real. rewrite in_seq. lia. Qed.

Lemma options_plumbed :
  direct_branch_calls_decomp_with_scaled_bounds = true /\ table_is_unit_flux_unit_radius_decomposition = true /\
  hybrid_real_space_goes_to_observed_slot = true /\ nodes_and_weights_halved = true.
Proof. repeat split; reflexivity. Qed.

(* Proofs for C05: the model a fitter builds = prior sites + sky sites +
   deterministic model image + loss, over units REGENERATED from the source
   (BuildModel, RenderGlue, GeneratePrior, ProfileParams, Losses, Sky, PriorHelpers). *)
From Coq Require Import Reals Lra List String Bool.
From PS Require Import Base.RBase Base.PyStr Base.Dist Base.LossModel
     Gen.ProfileParams Gen.GeneratePrior Gen.Losses Gen.Sky Gen.BuildModel Gen.RenderGlue Gen.PriorHelpers
     Proofs.AutoPriorProofs Proofs.PriorProofs.
Import ListNotations.
Open Scope string_scope.

(* ---- names: every prior parameter is consumed by the renderer under its own name ---- *)

(* single-source fitter: the renderer strips the prior's suffix from every key *)
Definition stripped (sfx k : string) : string :=
  match render_source_strip with
  | StripTrailing => removesuffix sfx k
  | ReplaceEverywhere => py_replace sfx "" k
  end.

Lemma single_names_consumed sfx p : stripped sfx (p ++ sfx) = p.
Proof. unfold stripped. cbn [render_source_strip]. apply removesuffix_app. Qed.

(* multi-source fitter: the key the renderer reads for parameter p of source j is the key
   the multi prior stores it under, and that key determines (p, j) *)
Lemma multi_names_consumed :
  render_for_model_key_is_source_key = true /\ multi_prior_suffix_is_underscore_index_suffix = true /\
  render_for_model_accumulates_all_sources = true /\
  forall p i p' i' sfx, source_key p i sfx = source_key p' i' sfx -> p = p' /\ i = i'.
Proof.
  split; [reflexivity|]. split; [reflexivity|]. split; [reflexivity|].
  intros p i p' i' sfx H. apply (source_key_inj p i p' i' sfx H).
Qed.

(* ---- the sites of the model ---- *)

Inductive site_kind := Latent | Determ | Observed.

Definition suffixed (sfx : string) (l : list string) : list string := map (fun n => n ++ sfx) l.

(* with TransformReparam every helper-built prior p is sampled as p_base and exposed as deterministic p *)
Definition prior_sites (names : list string) (sfx : string) : list (string * site_kind) :=
  flat_map (fun n => [(n ++ sfx ++ "_base", Latent); (n ++ sfx, Determ)]) names.

Definition loss_sites (L : loss_model) (sfx : string) : list (string * site_kind) :=
  List.app (map (fun nd => (fst nd ++ sfx, Latent)) (lm_latents L))
   (List.app (map (fun nd => (fst nd ++ sfx, Determ)) (lm_dets L))
             [(lm_site L ++ sfx, Observed)]).

Definition single_fit_sites (T sky : string) (L : loss_model) (sfx : string) : list (string * site_kind) :=
  List.app (prior_sites (lookup T profile_params_rendering) sfx)
   (List.app (prior_sites (lookup sky sky_params) sfx)
             ((model_site_prefix ++ sfx, Determ) :: loss_sites L sfx)).

Definition is_latent (s : string * site_kind) : bool := match snd s with Latent => true | _ => false end.

Lemma latent_prior names sfx :
  map fst (filter is_latent (prior_sites names sfx)) = map (fun n => n ++ sfx ++ "_base") names.
Proof.
  induction names as [|n names IH]; [reflexivity|].
  unfold prior_sites in *. cbn [flat_map]. rewrite filter_app, map_app, IH. reflexivity.
Qed.

Lemma latent_loss L sfx :
  map fst (filter is_latent (loss_sites L sfx)) = map (fun nd => fst nd ++ sfx) (lm_latents L).
Proof.
  unfold loss_sites. rewrite filter_app, map_app.
  assert (H1 : forall l : list (string * ldist),
             map fst (filter is_latent (map (fun nd => (fst nd ++ sfx, Latent)) l)) = map (fun nd => fst nd ++ sfx) l).
  { induction l as [|a l IH]; [reflexivity|]. cbn [map filter]. unfold is_latent at 1. cbn [snd map fst]. rewrite IH. reflexivity. }
  assert (H2 : forall (l : list (string * (R -> (string -> R) -> R))) tl,
             filter is_latent (List.app (map (fun nd => (fst nd ++ sfx, Determ)) l) [tl]) = filter is_latent [tl]).
  { induction l as [|a l IH]; intros tl; [reflexivity|]. cbn [map List.app filter]. unfold is_latent at 1. cbn [snd]. apply IH. }
  rewrite H1, H2. unfold is_latent. cbn [filter snd map]. rewrite app_nil_r. reflexivity.
Qed.

(* the latent sites are exactly: one per prior parameter, one per sky parameter, the loss's own nuisances *)
Lemma single_latents_exact T sky L sfx :
  map fst (filter is_latent (single_fit_sites T sky L sfx)) =
  List.app (map (fun n => n ++ sfx ++ "_base") (lookup T profile_params_rendering))
   (List.app (map (fun n => n ++ sfx ++ "_base") (lookup sky sky_params))
             (map (fun nd => fst nd ++ sfx) (lm_latents L))).
Proof.
  unfold single_fit_sites. rewrite filter_app, map_app, latent_prior, filter_app, map_app, latent_prior.
  cbn [filter is_latent snd]. rewrite latent_loss. reflexivity.
Qed.

(* ---- the joint density factorises ---- *)
Section Density.
  Variable pixel : Type.
  Variable pixels : list pixel.
  Variables data rms render sky : pixel -> R.
  Variable good : pixel -> bool.
  Variable lat : string -> R.
  Variable lp_lat : string -> ldist -> R -> R.

  (* what the fitter records and hands to the loss *)
  Definition obs_single (p : pixel) : R := model_obs_single (render p) (sky p).

  (* numpyro log_density of the model = sum over its sample sites *)
  Definition fit_logdens (prior_lp sky_lp : R) (L : loss_model) : R :=
    prior_lp + sky_lp + loss_logdens pixel pixels data rms obs_single good lat lp_lat L.

  Lemma posterior_factorises prior_lp sky_lp L :
    fit_logdens prior_lp sky_lp L =
    prior_lp + sky_lp + latent_logdens lat lp_lat L +
    sum_over pixel pixels (fun p => if (negb (lm_masked L) || good p)%bool
                                    then lm_logp L (data p) (rms p) (render p + sky p) (mean_rms pixel pixels rms good (lm_mean L)) lat else 0).
  Proof.
    unfold fit_logdens, loss_logdens, pixel_logdens, obs_single, model_obs_single. ring_simplify.
    rewrite Rplus_assoc. reflexivity.
  Qed.
End Density.

Lemma loss_call_arguments : loss_args = ["obs"; "self.data"; "self.rms"; "self.mask"] /\ model_site_prefix = "model".
Proof. split; reflexivity. Qed.

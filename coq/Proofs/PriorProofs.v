(* Proofs for C11 over the prior helpers REGENERATED from priors.py. *)
From Coq Require Import Reals Lra List String.
From PS Require Import Base.RBase Base.Dist Gen.PriorHelpers.
Open Scope R_scope.

Section Laws.
  (* the standard normal CDF: any function; the laws below hold for every Phi *)
  Variable Phi : R -> R.

  Definition cdf_low (m s : R) (lo : option R) : R := match lo with Some a => Phi ((a - m) / s) | None => 0 end.
  Definition cdf_high (m s : R) (hi : option R) : R := match hi with Some b => Phi ((b - m) / s) | None => 1 end.

  (* full log-density of a base distribution *)
  Definition base_lpdf (d : ldist) (z : R) : R :=
    match d with
    | LNormal m s => normal_lpdf z m s
    | LUniform lo hi => - ln (hi - lo)
    | LTruncNormal m s lo hi => normal_lpdf z m s - ln (cdf_high m s hi - cdf_low m s lo)
    end.

  (* numpyro TransformedDistribution(base, AffineTransform(loc, scale)):
     log_prob x = base.log_prob((x - loc)/scale) - ln |scale|; support = image of the base support *)
  Definition pushed_lpdf (h : ldist * R * R) (x : R) : R :=
    let '(d, loc, scale) := h in base_lpdf d ((x - loc) / scale) - ln (Rabs scale).
  Definition pushed_support (h : ldist * R * R) (x : R) : Prop :=
    let '(d, loc, scale) := h in in_support d ((x - loc) / scale).
  (* the value exposed under the parameter's name by TransformReparam *)
  Definition exposed (h : ldist * R * R) (z : R) : R := let '(_, loc, scale) := h in loc + scale * z.

  Lemma gaussian_helper_law loc scale x : 0 < scale ->
    pushed_lpdf (gaussian_helper loc scale) x = normal_lpdf x loc scale /\
    pushed_support (gaussian_helper loc scale) x.
  Proof.
    intros Hs. unfold gaussian_helper, pushed_lpdf, pushed_support, base_lpdf, normal_lpdf, in_support.
    split; [|exact I]. rewrite Rabs_right by lra. rewrite ln_1. field. lra.
  Qed.

  Lemma uniform_helper_law low high x : low < high ->
    (pushed_support (uniform_helper low high) x <-> low <= x <= high) /\
    pushed_lpdf (uniform_helper low high) x = - ln (high - low).
  Proof.
    intros Hlt. unfold uniform_helper, pushed_lpdf, pushed_support, base_lpdf, in_support.
    assert (Hs : 0 < high - low) by lra. split.
    - split; intros [H1 H2].
      + assert (Hx : x = low + (high - low) * ((x - low) / (high - low))) by (field; lra).
        split; rewrite Hx.
        * assert (0 <= (high - low) * ((x - low) / (high - low))) by (apply Rmult_le_pos; lra). lra.
        * assert ((high - low) * ((x - low) / (high - low)) <= (high - low) * 1) by (apply Rmult_le_compat_l; lra). lra.
      + split.
        * apply Rmult_le_pos; [lra|]. left. apply Rinv_0_lt_compat. lra.
        * apply (Rmult_le_reg_r (high - low)); [lra|]. unfold Rdiv. rewrite Rmult_assoc, Rinv_l by lra. lra.
    - rewrite Rabs_right by lra. replace (1 - 0) with 1 by ring. rewrite ln_1. ring.
  Qed.

  Lemma std_le a loc scale x : 0 < scale -> ((a - loc) / scale <= (x - loc) / scale <-> a <= x).
  Proof.
    intros Hs. split; intros H.
    - apply (Rmult_le_compat_r scale) in H; [|lra]. unfold Rdiv in H. rewrite !Rmult_assoc, Rinv_l in H by lra. lra.
    - unfold Rdiv. apply Rmult_le_compat_r; [left; apply Rinv_0_lt_compat; lra|lra].
  Qed.

  Lemma truncnorm_helper_law loc scale low high x : 0 < scale ->
    (pushed_support (truncnorm_helper loc scale low high) x <->
     (match low with Some a => a <= x | None => True end) /\ (match high with Some b => x <= b | None => True end)) /\
    pushed_lpdf (truncnorm_helper loc scale low high) x =
      normal_lpdf x loc scale -
      ln ((match high with Some b => Phi ((b - loc) / scale) | None => 1 end) -
          (match low with Some a => Phi ((a - loc) / scale) | None => 0 end)).
  Proof.
    intros Hs. unfold truncnorm_helper, pushed_lpdf, pushed_support, base_lpdf, in_support. split.
    - destruct low as [a|], high as [b|]; cbn; rewrite ?std_le by assumption; tauto.
    - rewrite Rabs_right by lra. unfold normal_lpdf. rewrite ln_1.
      assert (Hstd : forall t, (t - 0) / 1 = t) by (intros; field).
      destruct low as [a|], high as [b|]; cbn [cdf_low cdf_high]; rewrite ?Hstd; field; lra.
  Qed.

  (* re-parameterisation: sampling the base z and exposing loc + scale*z differs
     from sampling x directly only by the constant Jacobian  - ln |scale| *)
  Lemma reparam_constant_jacobian d loc scale z : scale <> 0 ->
    pushed_lpdf (d, loc, scale) (exposed (d, loc, scale) z) - base_lpdf d z = - ln (Rabs scale).
  Proof.
    intros Hs. unfold pushed_lpdf, exposed.
    replace ((loc + scale * z - loc) / scale) with z by (field; assumption). ring.
  Qed.

  Lemma exposed_value d loc scale z : exposed (d, loc, scale) z = loc + scale * z.
  Proof. reflexivity. Qed.
End Laws.

Lemma helper_bookkeeping :
  prior_call_samples_every_entry_under_its_key = true /\
  helpers_store_under_name_plus_suffix_with_transform_reparam = true.
Proof. split; reflexivity. Qed.

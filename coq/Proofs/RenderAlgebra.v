(* Proofs for C08: linearity in flux, composite profiles, additivity over sources;
   over formulas and glue REGENERATED from rendering.py. *)
From Coq Require Import Reals Lra List String Bool.
From PS Require Import Base.RBase Gen.Formulas Gen.RenderGlue Gen.Amps Gen.ProfileParams.
Import ListNotations.
Open Scope R_scope.

(* ---- every kernel is (flux or amplitude) times a function of the other parameters ---- *)

Lemma sersic2d_flux_linear lg X Y xc yc a flux r n e t :
  sersic2d lg X Y xc yc (a * flux) r n e t = a * sersic2d lg X Y xc yc flux r n e t.
Proof. unfold sersic2d, Rdiv. ring. Qed.

Lemma sersic1d_flux_linear lg r a flux re n :
  sersic1d lg r (a * flux) re n = a * sersic1d lg r flux re n.
Proof. unfold sersic1d, Rdiv. ring. Qed.

Lemma gauss_fourier_comp_linear FX FY a amp sig xc yc t q :
  gauss_fourier_comp_re FX FY (a * amp) sig xc yc t q = a * gauss_fourier_comp_re FX FY amp sig xc yc t q /\
  gauss_fourier_comp_im FX FY (a * amp) sig xc yc t q = a * gauss_fourier_comp_im FX FY amp sig xc yc t q.
Proof. unfold gauss_fourier_comp_re, gauss_fourier_comp_im. split; ring. Qed.

Lemma gauss_fourier_linear K FX FY a amps sig xc yc t q :
  gauss_fourier_re K FX FY (fun k => a * amps k) sig xc yc t q = a * gauss_fourier_re K FX FY amps sig xc yc t q /\
  gauss_fourier_im K FX FY (fun k => a * amps k) sig xc yc t q = a * gauss_fourier_im K FX FY amps sig xc yc t q.
Proof.
  unfold gauss_fourier_re, gauss_fourier_im. split; rewrite <- rsum_scal; apply rsum_ext; intros k _; ring.
Qed.

Lemma gauss_pixel_linear K X Y a amps sig xc yc t q :
  gauss_pixel K X Y (fun k => a * amps k) sig xc yc t q = a * gauss_pixel K X Y amps sig xc yc t q.
Proof. unfold gauss_pixel. rewrite <- rsum_scal. apply rsum_ext. intros k _. unfold Rdiv. ring. Qed.

Lemma ps_fourier_linear FX FY xc yc a flux :
  ps_fourier_re FX FY xc yc (a * flux) = a * ps_fourier_re FX FY xc yc flux /\
  ps_fourier_im FX FY xc yc (a * flux) = a * ps_fourier_im FX FY xc yc flux.
Proof. unfold ps_fourier_re, ps_fourier_im. split; ring. Qed.

(* interpolated amplitudes: table value (built at unit flux) times flux *)
Lemma amps_linear an a flux : amps_interp an (a * flux) = a * amps_interp an flux.
Proof. unfold amps_interp. ring. Qed.

(* ---- composite profiles: the component lists ---- *)

Lemma doublesersic_components xc yc flux f_1 r1 n1 e1 r2 n2 e2 theta :
  components_doublesersic xc yc flux f_1 r1 n1 e1 r2 n2 e2 theta =
  [CSersic xc yc (flux * f_1) r1 n1 e1 theta; CSersic xc yc (flux * (1 - f_1)) r2 n2 e2 theta].
Proof. reflexivity. Qed.

Lemma sersic_exp_components xc yc flux f_1 r1 e1 r2 n e2 theta :
  components_sersic_exp xc yc flux f_1 r1 e1 r2 n e2 theta =
  [CSersic xc yc (flux * f_1) r1 n e1 theta; CSersic xc yc (flux * (1 - f_1)) r2 1 e2 theta].
Proof. reflexivity. Qed.

Lemma sersic_pointsource_components xc yc flux f_ps r n e theta :
  components_sersic_pointsource xc yc flux f_ps r n e theta =
  [CSersic xc yc ((1 - f_ps) * flux) r n e theta; CPoint xc yc (f_ps * flux)].
Proof. reflexivity. Qed.

Lemma exp_dev_are_sersic xc yc flux r e theta :
  components_exp xc yc flux r e theta = [CSersic xc yc flux r 1 e theta] /\
  components_dev xc yc flux r e theta = [CSersic xc yc flux r 4 e theta] /\
  components_sersic xc yc flux r 1 e theta = components_exp xc yc flux r e theta /\
  components_sersic xc yc flux r 4 e theta = components_dev xc yc flux r e theta.
Proof. repeat split; reflexivity. Qed.

(* ---- rendering of a component list and of a scene, over abstract images ---- *)
Section Scene.
  Variable img : Type.                     (* images / half-plane Fourier images *)
  Variable zero : img.
  Variable add : img -> img -> img.
  Variable scal : R -> img -> img.
  Hypothesis add_0_l : forall a, add zero a = a.
  Hypothesis add_assoc : forall a b c, add (add a b) c = add a (add b c).
  Hypothesis add_comm : forall a b, add a b = add b a.
  (* the renderer-specific triple (Fourier, intrinsic, observed) of a primitive component *)
  Variable prim : comp -> img * img * img.
  (* the two convolution operators are additive (linearity of rfft2 / irfft2) *)
  Variables conv_fft conv_img : img -> img.
  Hypothesis conv_fft_add : forall a b, conv_fft (add a b) = add (conv_fft a) (conv_fft b).
  Hypothesis conv_img_add : forall a b, conv_img (add a b) = add (conv_img a) (conv_img b).
  Hypothesis conv_fft_0 : conv_fft zero = zero.
  Hypothesis conv_img_0 : conv_img zero = zero.

  Definition add3 (a b : img * img * img) : img * img * img :=
    let '(f1, i1, o1) := a in let '(f2, i2, o2) := b in (add f1 f2, add i1 i2, add o1 o2).
  Definition zero3 : img * img * img := (zero, zero, zero).

  (* a profile function sums the triples of its components *)
  Definition render_components (cs : list comp) : img * img * img :=
    fold_left (fun acc c => add3 acc (prim c)) cs zero3.

  Definition observe (t : img * img * img) : img :=
    let '(f, i, o) := t in combine_scene add conv_fft conv_img f i o.

  (* render_for_model: accumulate the triples of all sources from zero, combine once *)
  Definition render_scene (sources : list (list comp)) : img :=
    observe (fold_left (fun acc cs => add3 acc (render_components cs)) sources zero3).

  (* render_source: combine the triple of one source *)
  Definition render_one (cs : list comp) : img := observe (render_components cs).

  Lemma add_interchange a b c d : add (add a b) (add c d) = add (add a c) (add b d).
  Proof.
    rewrite (add_assoc a b (add c d)), <- (add_assoc b c d), (add_comm b c), (add_assoc c b d), <- (add_assoc a c (add b d)).
    reflexivity.
  Qed.

  Lemma observe_add a b : observe (add3 a b) = add (observe a) (observe b).
  Proof.
    destruct a as [[f1 i1] o1], b as [[f2 i2] o2]. unfold observe, add3, combine_scene.
    rewrite conv_fft_add, conv_img_add.
    rewrite (add_interchange (conv_fft f1) (conv_fft f2) (conv_img i1) (conv_img i2)).
    apply add_interchange.
  Qed.

  Lemma observe_zero : observe zero3 = zero.
  Proof. unfold observe, zero3, combine_scene. rewrite conv_fft_0, conv_img_0, !add_0_l. reflexivity. Qed.

  Lemma fold_add3_observe (l : list (img * img * img)) acc :
    observe (fold_left add3 l acc) = fold_left add (map observe l) (observe acc).
  Proof.
    revert acc; induction l as [|t l IH]; intros acc; cbn; [reflexivity|].
    rewrite IH, observe_add. reflexivity.
  Qed.

  (* a scene of several sources is the sum of the individually rendered sources *)
  Lemma scene_additive sources :
    render_scene sources = fold_left add (map render_one sources) zero.
  Proof.
    unfold render_scene, render_one.
    assert (H : forall l acc, fold_left (fun a cs => add3 a (render_components cs)) l acc =
                              fold_left add3 (map render_components l) acc).
    { induction l as [|x l IH]; intros acc; cbn; [reflexivity|apply IH]. }
    rewrite H, fold_add3_observe, observe_zero, map_map. reflexivity.
  Qed.

  (* a composite profile is the sum of its components rendered alone *)
  Lemma composite_additive cs :
    render_one cs = fold_left add (map (fun c => observe (prim c)) cs) zero.
  Proof.
    unfold render_one, render_components.
    assert (H : forall l acc, fold_left (fun a c => add3 a (prim c)) l acc = fold_left add3 (map prim l) acc).
    { induction l as [|x l IH]; intros acc; cbn; [reflexivity|apply IH]. }
    rewrite H, fold_add3_observe, observe_zero, map_map. reflexivity.
  Qed.
End Scene.

Lemma glue_flags :
  render_for_model_accumulates_all_sources = true /\ render_for_model_key_is_source_key = true.
Proof. split; reflexivity. Qed.

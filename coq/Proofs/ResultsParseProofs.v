(* Proofs for C19.  All name theorems quantify over ARBITRARY suffix strings. *)
From Coq Require Import String Ascii List Bool Reals Lra Lia ZArith.
From PS Require Import Base.RBase Base.PyStr Gen.ResultsParse Gen.ProfileParams Model.ResultsParse.
Import ListNotations.
Open Scope string_scope.

(* a string is free of every marker the post-processing looks for *)
Definition marker_free (t : string) : Prop :=
  contains "theta" t = false /\ contains "poly_coeff" t = false /\ contains "bspl_w" t = false /\
  contains "base" t = false /\ contains "auto" t = false /\ contains "unwrapped" t = false /\
  contains "model" t = false.

(* same, except that "theta" may occur (used for what follows an angle name) *)
Definition internal_free (t : string) : Prop :=
  contains "poly_coeff" t = false /\ contains "bspl_w" t = false /\
  contains "base" t = false /\ contains "auto" t = false /\ contains "unwrapped" t = false /\
  contains "model" t = false.

(* suffixes as the fitters build them: empty, or "_" followed by anything
   (source index, band name, user suffix, "_at_wv", ...) *)
Definition suffix_like (s : string) : Prop := s = "" \/ exists t, s = "_" ++ t.

Ltac red_names :=
  unfold fate_of, wraps, drops_internal, is_model;
  cbn [append contains prefixb Ascii.eqb Bool.eqb andb orb negb].

Ltac use_free :=
  repeat match goal with
         | H : contains _ _ = false |- _ => rewrite H; clear H
         end;
  cbn [andb orb negb]; rewrite ?prefixb_nil; cbn [andb orb negb].

(* position angles: theta, theta_<i>, theta_<band>, theta_at_wv, ... *)
Lemma angle_wrapped purge s : suffix_like s -> internal_free s -> fate_of purge ("theta" ++ s) = KeptWrapped.
Proof.
  intros [->|[t ->]] (H1 & H2 & H3 & H4 & H5 & H6).
  - destruct purge; reflexivity.
  - cbn [append contains prefixb Ascii.eqb Bool.eqb andb orb] in H1, H2, H3, H4, H5, H6.
    red_names. use_free. destruct purge; reflexivity.
Qed.

(* every other parameter of every profile / sky / loss, with any marker-free suffix *)
Lemma others_untouched purge s :
  suffix_like s -> marker_free s -> Forall (fun p => fate_of purge (p ++ s) = KeptUnchanged) non_angle_params.
Proof.
  intros Hs (H0 & H1 & H2 & H3 & H4 & H5 & H6).
  unfold non_angle_params, all_params. vm_compute dedup.
  cbn [filter is_angle String.eqb Ascii.eqb Bool.eqb negb app loss_vars].
  destruct Hs as [->|[t ->]].
  - repeat constructor; destruct purge; reflexivity.
  - cbn [append contains prefixb Ascii.eqb Bool.eqb andb orb] in H0, H1, H2, H3, H4, H5, H6.
    repeat constructor; red_names; use_free; destruct purge; reflexivity.
Qed.

(* link-function variables of the multi-band fitters: never wrapped, never dropped *)
Lemma poly_coeff_untouched purge p mid :
  contains "base" (p ++ mid ++ "_poly_coeff") = false ->
  contains "auto" (p ++ mid ++ "_poly_coeff") = false ->
  contains "unwrapped" (p ++ mid ++ "_poly_coeff") = false ->
  contains "model" (p ++ mid ++ "_poly_coeff") = false ->
  fate_of purge (p ++ mid ++ "_poly_coeff") = KeptUnchanged.
Proof.
  intros H1 H2 H3 H4. unfold fate_of, wraps, drops_internal, is_model.
  rewrite H1, H2, H3, H4.
  assert (Hc : contains "poly_coeff" (p ++ mid ++ "_poly_coeff") = true).
  { apply contains_app_r. apply contains_app_r. reflexivity. }
  rewrite Hc. cbn [andb orb negb]. rewrite andb_false_r. destruct purge; reflexivity.
Qed.

Lemma bspl_w_untouched purge t :
  contains "base" t = false -> contains "auto" t = false -> contains "unwrapped" t = false ->
  contains "model" t = false ->
  fate_of purge ("bspl_w_" ++ t) = KeptUnchanged.
Proof.
  intros H1 H2 H3 H4. red_names. rewrite ?prefixb_nil. cbn [andb orb negb].
  use_free. rewrite ?orb_true_r. cbn [negb]. rewrite ?andb_false_r. destruct purge; reflexivity.
Qed.

(* internal re-parameterisation variables are removed when purging *)
Lemma internals_dropped a t :
  fate_of true (a ++ "_base" ++ t) = Dropped /\
  fate_of true (a ++ "_auto_loc" ++ t) = Dropped /\
  fate_of true (a ++ "unwrapped" ++ t) = Dropped.
Proof.
  unfold fate_of, drops_internal.
  assert (Hb : contains "base" (a ++ "_base" ++ t) = true) by (apply contains_app_r; apply contains_app_l; reflexivity).
  assert (Ha : contains "auto" (a ++ "_auto_loc" ++ t) = true) by (apply contains_app_r; apply contains_app_l; reflexivity).
  assert (Hu : contains "unwrapped" (a ++ "unwrapped" ++ t) = true) by (apply contains_app_r; apply contains_app_l; reflexivity).
  rewrite Hb, Ha, Hu. rewrite ?orb_true_r. auto.
Qed.

(* per-draw model images go to .models, unwrapped *)
Lemma models_preserved s :
  suffix_like s -> marker_free s -> fate_of true ("model" ++ s) = ToModels /\ saves_models = true.
Proof.
  intros Hs (H0 & H1 & H2 & H3 & H4 & H5 & H6). split; [|reflexivity].
  destruct Hs as [->|[t ->]]; [reflexivity|].
  cbn [append contains prefixb Ascii.eqb Bool.eqb andb orb] in H0, H1, H2, H3, H4, H5, H6.
  red_names. use_free. reflexivity.
Qed.

(* the wrapped value lies in [0, pi) and is congruent to the sampled one *)
Lemma wrap_range_congruent x :
  (0 <= wrap_value x < PI)%R /\ exists k : Z, wrap_value x = (x + IZR k * PI)%R.
Proof.
  unfold wrap_value. split.
  - apply pymod_range. apply PI_RGT_0.
  - destruct (pymod_congruent (x + PI) PI) as [k Hk]. exists (k + 1)%Z. rewrite Hk, plus_IZR. ring.
Qed.

(* a value in [0,pi) congruent to x IS the wrapped value (used by the correspondence) *)
Lemma wrap_unique x y k :
  (0 <= y < PI)%R -> y = (x + IZR k * PI)%R -> y = wrap_value x.
Proof.
  intros Hy Heq. destruct (wrap_range_congruent x) as [Hr [j Hj]].
  pose proof PI_RGT_0 as Hpi.
  assert (Hd : (IZR (k - j) * PI = y - wrap_value x)%R) by (rewrite minus_IZR, Hj, Heq; ring).
  assert (Hlt : (-1 < IZR (k - j) < 1)%R).
  { split.
    - apply (Rmult_lt_reg_r PI); [assumption|]. rewrite Hd. lra.
    - apply (Rmult_lt_reg_r PI); [assumption|]. rewrite Hd. lra. }
  assert (Hz : (k - j = 0)%Z).
  { destruct Hlt as [Ha Hb]. apply lt_IZR in Hb. change (-1)%R with (IZR (-1)) in Ha. apply lt_IZR in Ha. lia. }
  rewrite Hz in Hd. simpl in Hd. lra.
Qed.

(* ---- the wrap is a canonical representative mod pi (session 3) ---- *)
From Coq Require Import Lra Lia.
Lemma wrap_repr_unique (a b : R) (k : Z) : (0 <= a < PI)%R -> (0 <= b < PI)%R -> (a = b + IZR k * PI)%R -> a = b.
Proof.
  intros Ha Hb E. assert (Hpi := PI_RGT_0).
  destruct (Z_le_gt_dec k (-1)) as [H|H].
  - apply IZR_le in H. nra.
  - destruct (Z_le_gt_dec 1 k) as [H1|H1].
    + apply IZR_le in H1. nra.
    + assert (k = 0%Z) by lia. subst k. lra.
Qed.

Lemma wrap_fixes_range x : (0 <= x < PI)%R -> wrap_value x = x.
Proof.
  intros Hx. destruct (wrap_range_congruent x) as [Hr [k E]]. exact (wrap_repr_unique _ _ k Hr Hx E).
Qed.

Lemma wrap_idempotent x : wrap_value (wrap_value x) = wrap_value x.
Proof. apply wrap_fixes_range. apply (wrap_range_congruent x). Qed.

Lemma wrap_periodic x (m : Z) : wrap_value (x + IZR m * PI) = wrap_value x.
Proof.
  destruct (wrap_range_congruent (x + IZR m * PI)) as [H1 [k1 E1]].
  destruct (wrap_range_congruent x) as [H2 [k2 E2]].
  apply (wrap_repr_unique _ _ (m + k1 - k2) H1 H2).
  rewrite minus_IZR, plus_IZR. lra.
Qed.

(* two angles that differ by a multiple of pi (the same position angle) are reported identically *)
Lemma wrap_canonical x y (m : Z) : (y = x + IZR m * PI)%R -> wrap_value y = wrap_value x.
Proof. intros ->. apply wrap_periodic. Qed.

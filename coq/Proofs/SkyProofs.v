(* Proofs for C16 over the regenerated sky formulas (Gen/Sky.v), grid
   orientation (Gen/Grid.v) and build_model data flow (Gen/BuildModel.v). *)
From Coq Require Import Reals Lra List String ZArith.
From PS Require Import Base.RBase Gen.Sky Gen.Grid Gen.BuildModel.
Import ListNotations.
Open Scope R_scope.

(* pixel (row r, column c) of an N x N frame has X = c and Y = r *)
Definition Xof (r c : Z) : R := IZR (grid_X r c).
Definition Yof (r c : Z) : R := IZR (grid_Y r c).

Lemma grid_convention r c : Xof r c = IZR c /\ Yof r c = IZR r.
Proof. split; reflexivity. Qed.

Lemma grid_square_shape N : grid_rows N N = N /\ grid_cols N N = N.
Proof. split; reflexivity. Qed.

Lemma sky_none_zero X Y s0 s1 : sky_none X Y s0 s1 = 0.
Proof. reflexivity. Qed.

Lemma sky_flat_const X Y s0 s1 back : sky_flat X Y s0 s1 back = back.
Proof. reflexivity. Qed.

(* the stated plane, x = column index, y = row index, pivots at N/2 *)
Lemma sky_plane_form N r c back xs ys :
  sky_tilted (Xof r c) (Yof r c) N N back xs ys = back + (IZR c - N / 2) * xs + (IZR r - N / 2) * ys.
Proof. unfold sky_tilted, Xof, Yof, grid_X, grid_Y. ring. Qed.

Lemma plane_reduces_to_flat X Y s0 s1 back : sky_tilted X Y s0 s1 back 0 0 = sky_flat X Y s0 s1 back.
Proof. unfold sky_tilted, sky_flat. ring. Qed.

Lemma standalone_equal X Y s0 s1 back xs ys : sky_standalone X Y s0 s1 back xs ys = sky_tilted X Y s0 s1 back xs ys.
Proof. unfold sky_standalone, sky_tilted. ring. Qed.

(* sky enters once, additively, after the (convolved) scene: model = out + sky *)
Lemma sky_added_once out sky :
  model_obs_single out sky = out + sky /\ model_obs_multi out sky = out + sky.
Proof. unfold model_obs_single, model_obs_multi. split; ring. Qed.

Lemma sky_independent_of_source out out' sky :
  model_obs_single out sky - model_obs_single out 0 = model_obs_single out' sky - model_obs_single out' 0 /\
  model_obs_multi out sky - model_obs_multi out 0 = model_obs_multi out' sky - model_obs_multi out' 0.
Proof. unfold model_obs_single, model_obs_multi. split; ring. Qed.

Lemma sky_hyperparameters g e :
  sky_hyper_flat g e = [("sky_back"%string, g, e)] /\
  exists s, sky_hyper_tilted g e = [("sky_back"%string, g, e); ("sky_x_sl"%string, 0, s); ("sky_y_sl"%string, 0, s)] /\ s = e / 10.
Proof.
  split; [reflexivity|]. eexists. split; [reflexivity|]. field.
Qed.

Lemma sky_prior_construction : sky_prior_is_affine_normal_reparam = true.
Proof. reflexivity. Qed.

(* ---- further structure of the plane (session 3) ---- *)

(* the slopes are per-pixel gradients: one column to the right adds x_slope, one row down adds y_slope *)
Lemma sky_plane_gradient N r c back xs ys :
  sky_tilted (Xof r (c + 1)) (Yof r (c + 1)) N N back xs ys - sky_tilted (Xof r c) (Yof r c) N N back xs ys = xs /\
  sky_tilted (Xof (r + 1) c) (Yof (r + 1) c) N N back xs ys - sky_tilted (Xof r c) (Yof r c) N N back xs ys = ys.
Proof.
  unfold sky_tilted, Xof, Yof, grid_X, grid_Y. rewrite !plus_IZR. split; ring.
Qed.

(* sky_back is the value of the plane at the pivot (N/2, N/2) *)
Lemma sky_plane_pivot s0 s1 back xs ys : sky_tilted (s0 / 2) (s1 / 2) s0 s1 back xs ys = back.
Proof. unfold sky_tilted. ring. Qed.

(* the plane is jointly linear in (back, x_slope, y_slope) *)
Lemma sky_plane_linear X Y s0 s1 a b1 x1 y1 b2 x2 y2 :
  sky_tilted X Y s0 s1 (a * b1 + b2) (a * x1 + x2) (a * y1 + y2) =
  a * sky_tilted X Y s0 s1 b1 x1 y1 + sky_tilted X Y s0 s1 b2 x2 y2.
Proof. unfold sky_tilted. ring. Qed.

(* point reflection through the pivot: the two values average to sky_back *)
Lemma sky_plane_point_reflection X Y s0 s1 back xs ys :
  sky_tilted X Y s0 s1 back xs ys + sky_tilted (s0 - X) (s1 - Y) s0 s1 back xs ys = 2 * back.
Proof. unfold sky_tilted. field. Qed.

(* total sky over an n x n frame: n^2 back - (n/2) n (xs + ys)  (pixel centres 0..n-1, pivot n/2:
   the frame mean is back - (xs + ys)/2, i.e. sky_back is the value half a pixel past the centre) *)
Fixpoint sumZ (f : Z -> R) (n : nat) : R :=
  match n with O => 0 | S k => sumZ f k + f (Z.of_nat k) end.

Lemma sumZ_IZR n : sumZ IZR n = INR n * (INR n - 1) / 2.
Proof.
  induction n as [|k IH]; [simpl; field|].
  cbn [sumZ]. rewrite IH, <- INR_IZR_INZ, S_INR. field.
Qed.

Lemma sumZ_const a n : sumZ (fun _ => a) n = INR n * a.
Proof. induction n as [|k IH]; [simpl; ring|]. cbn [sumZ]. rewrite IH, S_INR. ring. Qed.

Lemma sumZ_plus f g n : sumZ (fun z => f z + g z) n = sumZ f n + sumZ g n.
Proof. induction n as [|k IH]; [simpl; ring|]. cbn [sumZ]. rewrite IH. ring. Qed.

Lemma sumZ_scal a f n : sumZ (fun z => a * f z) n = a * sumZ f n.
Proof. induction n as [|k IH]; [simpl; ring|]. cbn [sumZ]. rewrite IH. ring. Qed.

Lemma sumZ_ext f g n : (forall z, f z = g z) -> sumZ f n = sumZ g n.
Proof. intros H. induction n as [|k IH]; [reflexivity|]. cbn [sumZ]. rewrite IH, H. reflexivity. Qed.

Lemma sky_plane_row_total n r back xs ys :
  sumZ (fun c => sky_tilted (Xof r c) (Yof r c) (INR n) (INR n) back xs ys) n =
  INR n * (back + (IZR r - INR n / 2) * ys) - INR n / 2 * xs.
Proof.
  rewrite (sumZ_ext _ (fun c => (back - INR n / 2 * xs + (IZR r - INR n / 2) * ys) + xs * IZR c)).
  2:{ intros z. unfold sky_tilted, Xof, Yof, grid_X, grid_Y. ring. }
  rewrite sumZ_plus, sumZ_const, sumZ_scal, sumZ_IZR. field.
Qed.

Lemma sky_plane_frame_total n back xs ys :
  sumZ (fun r => sumZ (fun c => sky_tilted (Xof r c) (Yof r c) (INR n) (INR n) back xs ys) n) n =
  INR n * INR n * back - INR n * INR n / 2 * (xs + ys).
Proof.
  rewrite (sumZ_ext _ (fun r => (INR n * (back - INR n / 2 * ys) - INR n / 2 * xs) + (INR n * ys) * IZR r)).
  2:{ intros z. rewrite sky_plane_row_total. ring. }
  rewrite sumZ_plus, sumZ_const, sumZ_scal, sumZ_IZR. field.
Qed.

(* non-vacuity: a 4 x 4 frame with back = 10, slopes (1, 2) totals 16*10 - 8*3 = 136 *)
Example sky_plane_frame_total_example :
  sumZ (fun r => sumZ (fun c => sky_tilted (Xof r c) (Yof r c) 4 4 10 1 2) 4) 4 = 136.
Proof. replace 4 with (INR 4) by (simpl; ring). rewrite sky_plane_frame_total. simpl. field. Qed.

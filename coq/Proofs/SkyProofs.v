(* Proofs for C16 over the regenerated sky formulas (Gen/Sky.v), grid
   orientation (Gen/Grid.v) and build_model data flow (Gen/BuildModel.v). *)
From Coq Require Import Reals Lra List String ZArith.
From PS Require Import Base.RBase Gen.Sky Gen.Grid Gen.BuildModel.
Import ListNotations.
Open Scope R_scope.

(* pixel (row r, column c) of an N x N frame has X = c and Y = r *)
Definition Xof (r c : Z) : R := IZR (grid_X r c).
Definition Yof (r c : Z) : R := IZR (grid_Y r c).

Lemma grid_convention r c : Xof r c = IZR c /\ Yof r c = IZR r.
Proof. split; reflexivity. Qed.

Lemma grid_square_shape N : grid_rows N N = N /\ grid_cols N N = N.
Proof. split; reflexivity. Qed.

Lemma sky_none_zero X Y s0 s1 : sky_none X Y s0 s1 = 0.
Proof. reflexivity. Qed.

Lemma sky_flat_const X Y s0 s1 back : sky_flat X Y s0 s1 back = back.
Proof. reflexivity. Qed.

(* the stated plane, x = column index, y = row index, pivots at N/2 *)
Lemma sky_plane_form N r c back xs ys :
  sky_tilted (Xof r c) (Yof r c) N N back xs ys = back + (IZR c - N / 2) * xs + (IZR r - N / 2) * ys.
Proof. unfold sky_tilted, Xof, Yof, grid_X, grid_Y. ring. Qed.

Lemma plane_reduces_to_flat X Y s0 s1 back : sky_tilted X Y s0 s1 back 0 0 = sky_flat X Y s0 s1 back.
Proof. unfold sky_tilted, sky_flat. ring. Qed.

Lemma standalone_equal X Y s0 s1 back xs ys : sky_standalone X Y s0 s1 back xs ys = sky_tilted X Y s0 s1 back xs ys.
Proof. unfold sky_standalone, sky_tilted. ring. Qed.

(* sky enters once, additively, after the (convolved) scene: model = out + sky *)
Lemma sky_added_once out sky :
  model_obs_single out sky = out + sky /\ model_obs_multi out sky = out + sky.
Proof. unfold model_obs_single, model_obs_multi. split; ring. Qed.

Lemma sky_independent_of_source out out' sky :
  model_obs_single out sky - model_obs_single out 0 = model_obs_single out' sky - model_obs_single out' 0 /\
  model_obs_multi out sky - model_obs_multi out 0 = model_obs_multi out' sky - model_obs_multi out' 0.
Proof. unfold model_obs_single, model_obs_multi. split; ring. Qed.

Lemma sky_hyperparameters g e :
  sky_hyper_flat g e = [("sky_back"%string, g, e)] /\
  exists s, sky_hyper_tilted g e = [("sky_back"%string, g, e); ("sky_x_sl"%string, 0, s); ("sky_y_sl"%string, 0, s)] /\ s = e / 10.
Proof.
  split; [reflexivity|]. eexists. split; [reflexivity|]. field.
Qed.

Lemma sky_prior_construction : sky_prior_is_affine_normal_reparam = true.
Proof. reflexivity. Qed.

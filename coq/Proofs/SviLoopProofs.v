(* Proofs about Model/SviLoop.v (property C14).  All statements quantify over
   every script (nat -> loss), every patience, max_train and num_round. *)
From Coq Require Import List Arith ZArith Bool Lia.
From PS Require Import Base.ExtLoss Model.SviLoop.
Import ListNotations.

(* ---------- order facts on IEEE losses ---------- *)

Lemma ltb_ge_lt a b c :
  is_nan a = false -> ltb a b = false -> ltb c b = true -> ltb c a = true.
Proof.
  destruct a, b, c; simpl; try discriminate; auto; intros _ H1 H2.
  apply Z.ltb_ge in H1. apply Z.ltb_lt in H2. apply Z.ltb_lt. lia.
Qed.

(* ---------- declarative specifications of a round's event list ---------- *)

(* call ids are consecutive and each update is applied to the state produced by
   the previous one *)
Fixpoint chain_ok (id : nat) (cur : lineage) (evs : list event) : Prop :=
  match evs with
  | [] => True
  | e :: evs' => ev_call e = id /\ ev_parent e = cur /\ chain_ok (S id) (id :: cur) evs'
  end.

(* ev_wait = number of consecutive non-adopting steps immediately before *)
Fixpoint waits_ok (w : nat) (evs : list event) : Prop :=
  match evs with
  | [] => True
  | e :: evs' => ev_wait e = w /\ waits_ok (if ev_adopt e then 0 else S w) evs'
  end.

(* a step is adopted iff its loss is IEEE-strictly below the running best *)
Fixpoint adopts_ok (bl : loss) (evs : list event) : Prop :=
  match evs with
  | [] => True
  | e :: evs' =>
    ev_adopt e = ltb (ev_loss e) bl /\
    adopts_ok (if ev_adopt e then ev_loss e else bl) evs'
  end.

(* the break is taken exactly on a non-improving step made with wait >= patience,
   and nothing follows it *)
Fixpoint breaks_ok (pat : nat) (evs : list event) : Prop :=
  match evs with
  | [] => True
  | e :: evs' =>
    ev_break e = (negb (ev_adopt e) && (pat <=? ev_wait e)) /\
    (ev_break e = true -> evs' = []) /\
    breaks_ok pat evs'
  end.

Definition last_breaks (evs : list event) : Prop :=
  exists pre e, evs = pre ++ [e] /\ ev_break e = true.

Section Inner.
  Variable script : nat -> loss.
  Variable pat : nat.

  Lemma inner_length k id cur bl w : length (inner script pat k id cur bl w) <= k.
  Proof.
    revert id cur bl w; induction k as [|k IH]; intros id cur bl w; cbn [inner]; [simpl; lia|].
    destruct (ltb (script id) bl); [simpl; specialize (IH (S id) (id :: cur) (script id) 0); lia|].
    destruct (pat <=? w); [simpl; lia|].
    simpl; specialize (IH (S id) (id :: cur) bl (S w)); lia.
  Qed.

  Lemma inner_chain k id cur bl w : chain_ok id cur (inner script pat k id cur bl w).
  Proof.
    revert id cur bl w; induction k as [|k IH]; intros id cur bl w; cbn [inner]; [exact I|].
    destruct (ltb (script id) bl); [cbn; auto|].
    destruct (pat <=? w); cbn; auto.
  Qed.

  Lemma inner_loss k id cur bl w :
    Forall (fun e => ev_loss e = script (ev_call e)) (inner script pat k id cur bl w).
  Proof.
    revert id cur bl w; induction k as [|k IH]; intros id cur bl w; cbn [inner]; [constructor|].
    destruct (ltb (script id) bl); [constructor; cbn; auto|].
    destruct (pat <=? w); constructor; cbn; auto.
  Qed.

  Lemma inner_waits k id cur bl w : waits_ok w (inner script pat k id cur bl w).
  Proof.
    revert id cur bl w; induction k as [|k IH]; intros id cur bl w; cbn [inner]; [exact I|].
    destruct (ltb (script id) bl); [cbn; auto|].
    destruct (pat <=? w); cbn; auto.
  Qed.

  Lemma inner_adopts k id cur bl w : adopts_ok bl (inner script pat k id cur bl w).
  Proof.
    revert id cur bl w; induction k as [|k IH]; intros id cur bl w; cbn [inner]; [exact I|].
    destruct (ltb (script id) bl) eqn:E; [cbn; rewrite E; auto|].
    destruct (pat <=? w); cbn; rewrite E; auto.
  Qed.

  Lemma inner_breaks k id cur bl w : breaks_ok pat (inner script pat k id cur bl w).
  Proof.
    revert id cur bl w; induction k as [|k IH]; intros id cur bl w; cbn [inner]; [exact I|].
    destruct (ltb (script id) bl) eqn:E.
    - cbn. split; [reflexivity|]. split; [discriminate|]. apply IH.
    - destruct (pat <=? w) eqn:P; cbn; rewrite P; cbn.
      + split; [reflexivity|]. split; auto.
      + split; [reflexivity|]. split; [discriminate|]. apply IH.
  Qed.

  Lemma inner_wait_le k id cur bl w :
    w <= pat -> Forall (fun e => ev_wait e <= pat) (inner script pat k id cur bl w).
  Proof.
    revert id cur bl w; induction k as [|k IH]; intros id cur bl w Hw; cbn [inner]; [constructor|].
    destruct (ltb (script id) bl); [constructor; cbn; auto; apply IH; lia|].
    destruct (pat <=? w) eqn:P; constructor; cbn; auto.
    apply IH. apply Nat.leb_gt in P. lia.
  Qed.

  (* a round that used fewer than max_train steps ended on the break *)
  Lemma inner_short_breaks k id cur bl w :
    length (inner script pat k id cur bl w) < k -> last_breaks (inner script pat k id cur bl w).
  Proof.
    revert id cur bl w; induction k as [|k IH]; intros id cur bl w; cbn [inner]; [simpl; lia|].
    destruct (ltb (script id) bl).
    - simpl. intros H. destruct (IH (S id) (id :: cur) (script id) 0) as (pre & e & Hp & He); [lia|].
      exists (Build_event id cur (script id) w true false :: pre), e. rewrite Hp. auto.
    - destruct (pat <=? w).
      + intros _. exists [], (Build_event id cur (script id) w false true). auto.
      + simpl. intros H. destruct (IH (S id) (id :: cur) bl (S w)) as (pre & e & Hp & He); [lia|].
        exists (Build_event id cur (script id) w false false :: pre), e. rewrite Hp. auto.
  Qed.
End Inner.

(* ---------- what best_after returns, given adopts_ok ---------- *)

Lemma best_after_lower best bl evs b' bl' :
  adopts_ok bl evs -> best_after best bl evs = (b', bl') ->
  (bl' = bl \/ ltb bl' bl = true) /\ Forall (fun e => ltb (ev_loss e) bl' = false) evs.
Proof.
  revert best bl; induction evs as [|e evs IH]; intros best bl Ha Hb; cbn in *.
  - inversion Hb; subst. split; [auto|constructor].
  - destruct Ha as [Hadopt Hrest]. destruct (ev_adopt e) eqn:A.
    + symmetry in Hadopt. destruct (IH _ _ Hrest Hb) as [Hcmp Hall]. split.
      * right. destruct Hcmp as [->|Hlt]; [assumption|eapply ltb_trans; eassumption].
      * constructor; [|assumption]. destruct Hcmp as [->|Hlt]; [apply ltb_irrefl|apply ltb_asym; assumption].
    + symmetry in Hadopt. destruct (IH _ _ Hrest Hb) as [Hcmp Hall]. split; [assumption|].
      constructor; [|assumption]. destruct Hcmp as [->|Hlt]; [assumption|].
      destruct (ltb (ev_loss e) bl') eqn:E; [|reflexivity].
      rewrite (ltb_trans _ _ _ E Hlt) in Hadopt. discriminate.
Qed.

Lemma best_after_none best bl evs :
  Forall (fun e => ev_adopt e = false) evs -> best_after best bl evs = (best, bl).
Proof.
  induction evs as [|e evs IH]; intros H; cbn; [reflexivity|].
  inversion H; subst. rewrite H2. auto.
Qed.

(* either nothing was adopted, or the result is the LAST adopted event, which is
   the FIRST event of the round carrying the final (lowest) loss: every earlier
   event of the round has a strictly larger loss or NaN. *)
Lemma best_after_first best bl evs b' bl' :
  adopts_ok bl evs -> best_after best bl evs = (b', bl') ->
  (Forall (fun e => ev_adopt e = false) evs /\ b' = best /\ bl' = bl) \/
  (exists pre e post,
      evs = pre ++ e :: post /\ ev_adopt e = true /\
      Forall (fun x => ev_adopt x = false) post /\
      b' = ev_state e /\ bl' = ev_loss e /\ ltb bl' bl = true /\
      Forall (fun x => ltb bl' (ev_loss x) = true \/ is_nan (ev_loss x) = true) pre).
Proof.
  revert best bl; induction evs as [|e evs IH]; intros best bl Ha Hb; cbn in *.
  - inversion Hb; subst. left. auto.
  - destruct Ha as [Hadopt Hrest]. destruct (ev_adopt e) eqn:A.
    + symmetry in Hadopt. destruct (IH _ _ Hrest Hb) as [(Hno & -> & ->)|(pre & x & post & -> & Hx & Hpost & -> & -> & Hlt & Hpre)].
      * right. exists [], e, evs. cbn. repeat split; auto.
      * right. exists (e :: pre), x, post. cbn.
        assert (ltb (ev_loss x) bl = true) by (eapply ltb_trans; eassumption).
        repeat split; auto.
    + symmetry in Hadopt. destruct (IH _ _ Hrest Hb) as [(Hno & -> & ->)|(pre & x & post & -> & Hx & Hpost & -> & -> & Hlt & Hpre)].
      * left. repeat split; auto.
      * right. exists (e :: pre), x, post. cbn.
        assert (ltb (ev_loss x) (ev_loss e) = true \/ is_nan (ev_loss e) = true).
        { destruct (is_nan (ev_loss e)) eqn:N; [right; reflexivity|left].
          eapply ltb_ge_lt; eassumption. }
        repeat split; auto.
Qed.

(* an adopted loss is never NaN and lies strictly below the round's starting
   best and below every loss adopted earlier in the round *)
Lemma adopts_strict bl evs :
  adopts_ok bl evs ->
  forall pre e post, evs = pre ++ e :: post -> ev_adopt e = true ->
    is_nan (ev_loss e) = false /\ ltb (ev_loss e) bl = true /\
    Forall (fun x => ev_adopt x = true -> ltb (ev_loss e) (ev_loss x) = true) pre.
Proof.
  revert bl; induction evs as [|a evs IH]; intros bl Ha pre e post Heq He.
  - destruct pre; discriminate.
  - cbn in Ha. destruct Ha as [Hadopt Hrest]. destruct pre as [|p pre]; cbn in Heq; inversion Heq; subst.
    + rewrite He in Hadopt. symmetry in Hadopt. split; [apply (ltb_true_not_nan _ _ Hadopt)|]. split; [assumption|constructor].
    + destruct (IH _ Hrest pre e post eq_refl He) as (Hn & Hlt & Hall).
      split; [assumption|]. destruct (ev_adopt p) eqn:P.
      * symmetry in Hadopt. split; [eapply ltb_trans; eassumption|]. constructor; auto.
      * split; [assumption|]. constructor; [intros Habs; rewrite P in Habs; discriminate|assumption].
Qed.

(* ---------- rounds ---------- *)

Record round_wf (script : nat -> loss) (pat maxt : nat) (rr : rrec) : Prop := {
  wf_len    : length (r_evs rr) <= maxt;
  wf_short  : length (r_evs rr) < maxt -> last_breaks (r_evs rr);
  wf_waits  : waits_ok 0 (r_evs rr);
  wf_wle    : Forall (fun e => ev_wait e <= pat) (r_evs rr);
  wf_adopts : adopts_ok (r_b0 rr) (r_evs rr);
  wf_breaks : breaks_ok pat (r_evs rr);
  wf_loss   : Forall (fun e => ev_loss e = script (ev_call e)) (r_evs rr)
}.

(* how consecutive rounds are linked *)
Fixpoint linked (r id : nat) (best : lineage) (bl : loss) (rs : list rrec) : Prop :=
  match rs with
  | [] => True
  | rr :: rs' =>
    r_index rr = r /\ r_start rr = best /\
    r_b0 rr = (if r =? 0 then bl else PInf) /\
    chain_ok id best (r_evs rr) /\
    linked (S r) (id + length (r_evs rr))
                 (fst (best_after (r_start rr) (r_b0 rr) (r_evs rr)))
                 (snd (best_after (r_start rr) (r_b0 rr) (r_evs rr))) rs'
  end.

Section Rounds.
  Variable script : nat -> loss.
  Variable pat maxt : nat.

  Lemma rounds_length n r id best bl : length (rounds script pat maxt n r id best bl) = n.
  Proof.
    revert r id best bl; induction n as [|n IH]; intros; cbn [rounds]; [reflexivity|].
    destruct (best_after _ _ _) as [b' bl']. simpl. rewrite IH. reflexivity.
  Qed.

  Lemma rounds_wf n r id best bl :
    Forall (round_wf script pat maxt) (rounds script pat maxt n r id best bl).
  Proof.
    revert r id best bl; induction n as [|n IH]; intros; cbn [rounds]; [constructor|].
    destruct (best_after _ _ _) as [b' bl'] eqn:B. constructor; [|apply IH].
    constructor; cbn.
    - apply inner_length.
    - apply inner_short_breaks.
    - apply inner_waits.
    - apply inner_wait_le. lia.
    - apply inner_adopts.
    - apply inner_breaks.
    - apply inner_loss.
  Qed.

  Lemma rounds_linked n r id best bl :
    linked r id best bl (rounds script pat maxt n r id best bl).
  Proof.
    revert r id best bl; induction n as [|n IH]; intros; cbn [rounds]; [exact I|].
    destruct (best_after _ _ _) as [b' bl'] eqn:B. cbn. rewrite B. cbn.
    repeat split; auto. apply inner_chain.
  Qed.

  Lemma rounds_calls n r id best bl :
    fold_right (fun rr acc => length (r_evs rr) + acc) 0 (rounds script pat maxt n r id best bl) <= n * maxt.
  Proof.
    revert r id best bl; induction n as [|n IH]; intros; cbn [rounds]; [simpl; lia|].
    destruct (best_after _ _ _) as [b' bl']. cbn [fold_right r_evs].
    pose proof (inner_length script pat maxt id best (if r =? 0 then bl else PInf) 0).
    specialize (IH (S r) (id + length (inner script pat maxt id best (if r =? 0 then bl else PInf) 0)) b' bl').
    lia.
  Qed.

  (* global call ids: round k starts at id + (calls of earlier rounds) *)
  Lemma rounds_indices n r id best bl :
    forall k rr, nth_error (rounds script pat maxt n r id best bl) k = Some rr -> r_index rr = r + k.
  Proof.
    revert r id best bl; induction n as [|n IH]; intros r id best bl k rr; cbn [rounds].
    - destruct k; discriminate.
    - destruct (best_after _ _ _) as [b' bl']. destruct k as [|k]; cbn.
      + intros H; inversion H; subst. cbn. lia.
      + intros H. apply IH in H. lia.
  Qed.
End Rounds.

(* ---------- the whole run ---------- *)

Lemma run_none_iff c script : run c script = None <-> num_round c = 0.
Proof.
  unfold run. pose proof (rounds_length script (patience c) (max_train c) (num_round c) 0 1 [0] (script 0)) as HL.
  fold (run_rounds c script) in HL.
  destruct (rev (run_rounds c script)) as [|l rest] eqn:R.
  - split; [intros _|reflexivity]. rewrite <- HL. rewrite <- (rev_involutive (run_rounds c script)), R. reflexivity.
  - destruct (best_after _ _ _). split; [discriminate|]. intros H0. rewrite H0 in HL.
    assert (length (rev (run_rounds c script)) = 0) by (rewrite rev_length; assumption).
    rewrite R in H. discriminate.
Qed.

Lemma run_some c script res :
  run c script = Some res ->
  exists front lastr,
    run_rounds c script = front ++ [lastr] /\
    res_rounds res = run_rounds c script /\
    res_best res = fst (best_after (r_start lastr) (r_b0 lastr) (r_evs lastr)) /\
    res_state res = cur_after (r_start lastr) (r_evs lastr) /\
    res_losses res = appended (r_evs lastr).
Proof.
  unfold run. destruct (rev (run_rounds c script)) as [|l rest] eqn:R; [discriminate|].
  destruct (best_after _ _ _) as [b bl] eqn:B. intros H; inversion H; subst; clear H. cbn.
  exists (rev rest), l. split.
  - rewrite <- (rev_involutive (run_rounds c script)), R. reflexivity.
  - rewrite B. auto.
Qed.

(* ---------- the statements Props/C14.v exports ---------- *)

Lemma step_bound c script :
  length (run_rounds c script) = num_round c /\
  Forall (fun rr => length (r_evs rr) <= max_train c) (run_rounds c script) /\
  total_calls (run_rounds c script) <= 1 + num_round c * max_train c.
Proof.
  unfold run_rounds, total_calls. split; [apply rounds_length|]. split.
  - eapply Forall_impl; [|apply rounds_wf]. intros rr H. apply (wf_len _ _ _ _ H).
  - pose proof (rounds_calls script (patience c) (max_train c) (num_round c) 0 1 [0] (script 0)). lia.
Qed.

Lemma patience_contract c script rr :
  In rr (run_rounds c script) ->
  waits_ok 0 (r_evs rr) /\
  Forall (fun e => ev_wait e <= patience c) (r_evs rr) /\
  breaks_ok (patience c) (r_evs rr) /\
  (length (r_evs rr) < max_train c -> last_breaks (r_evs rr)).
Proof.
  intros Hin. pose proof (rounds_wf script (patience c) (max_train c) (num_round c) 0 1 [0] (script 0)) as H.
  rewrite Forall_forall in H. specialize (H rr Hin). destruct H. auto.
Qed.

Lemma round_start c script :
  linked 0 1 [0] (script 0) (run_rounds c script) /\
  (forall k rr, nth_error (run_rounds c script) k = Some rr -> r_index rr = k) /\
  Forall (fun rr => Forall (fun e => ev_loss e = script (ev_call e)) (r_evs rr)) (run_rounds c script).
Proof.
  split; [apply rounds_linked|]. split.
  - intros k rr H. apply rounds_indices in H. lia.
  - eapply Forall_impl; [|apply rounds_wf]. intros rr H. apply (wf_loss _ _ _ _ H).
Qed.

Lemma adopt_strict c script rr :
  In rr (run_rounds c script) ->
  adopts_ok (r_b0 rr) (r_evs rr) /\
  forall pre e post, r_evs rr = pre ++ e :: post -> ev_adopt e = true ->
    is_nan (ev_loss e) = false /\ ltb (ev_loss e) (r_b0 rr) = true /\
    Forall (fun x => ev_adopt x = true -> ltb (ev_loss e) (ev_loss x) = true) pre.
Proof.
  intros Hin. pose proof (rounds_wf script (patience c) (max_train c) (num_round c) 0 1 [0] (script 0)) as H.
  rewrite Forall_forall in H. specialize (H rr Hin). destruct H.
  split; [assumption|]. apply adopts_strict. assumption.
Qed.

Lemma returns_best_of_final_round c script res :
  run c script = Some res ->
  exists front lastr,
    run_rounds c script = front ++ [lastr] /\
    res_state res = cur_after (r_start lastr) (r_evs lastr) /\
    res_losses res = appended (r_evs lastr) /\
    (* nothing visited in the final round is IEEE-below the returned loss *)
    (exists bl', snd (best_after (r_start lastr) (r_b0 lastr) (r_evs lastr)) = bl' /\
       (bl' = r_b0 lastr \/ ltb bl' (r_b0 lastr) = true) /\
       Forall (fun e => ltb (ev_loss e) bl' = false) (r_evs lastr)) /\
    ((* nothing improved: the round's starting state is returned *)
     (Forall (fun e => ev_adopt e = false) (r_evs lastr) /\ res_best res = r_start lastr)
     \/
     (* otherwise: the first visit of the lowest loss of the final round *)
     (exists pre e post,
         r_evs lastr = pre ++ e :: post /\ ev_adopt e = true /\
         Forall (fun x => ev_adopt x = false) post /\
         res_best res = ev_state e /\
         ltb (ev_loss e) (r_b0 lastr) = true /\
         Forall (fun x => ltb (ev_loss x) (ev_loss e) = false) (r_evs lastr) /\
         Forall (fun x => ltb (ev_loss e) (ev_loss x) = true \/ is_nan (ev_loss x) = true) pre)).
Proof.
  intros Hrun. destruct (run_some _ _ _ Hrun) as (front & lastr & Hrs & _ & Hb & Hs & Hl).
  exists front, lastr. split; [assumption|]. split; [assumption|]. split; [assumption|].
  assert (Hin : In lastr (run_rounds c script)) by (rewrite Hrs; apply in_or_app; right; left; reflexivity).
  destruct (adopt_strict _ _ _ Hin) as [Hadopts _].
  destruct (best_after (r_start lastr) (r_b0 lastr) (r_evs lastr)) as [b' bl'] eqn:B. cbn in Hb.
  destruct (best_after_lower _ _ _ _ _ Hadopts B) as [Hcmp Hall].
  split; [exists bl'; auto|].
  destruct (best_after_first _ _ _ _ _ Hadopts B) as [(Hno & -> & ->)|(pre & e & post & He & Ha & Hpost & -> & -> & Hlt & Hpre)].
  - left. auto.
  - right. exists pre, e, post. repeat split; auto.
Qed.

(* ---------- soundness of the boolean comparison used by the correspondence files ---------- *)

Lemma list_eqb_sound {A} (eqb : A -> A -> bool) (H : forall x y, eqb x y = true -> x = y) :
  forall l1 l2, list_eqb eqb l1 l2 = true -> l1 = l2.
Proof.
  induction l1 as [|x l1 IH]; intros [|y l2] E; cbn [list_eqb] in E; try discriminate; [reflexivity|].
  apply andb_true_iff in E. destruct E as [E1 E2]. rewrite (H x y E1), (IH l2 E2). reflexivity.
Qed.

Lemma loss_eqb_sound a b : loss_eqb a b = true -> a = b.
Proof.
  destruct a, b; cbn [loss_eqb]; intros E; try discriminate; try reflexivity.
  apply Z.eqb_eq in E. rewrite E. reflexivity.
Qed.

Lemma nat_eqb_sound x y : Nat.eqb x y = true -> x = y.
Proof. apply Nat.eqb_eq. Qed.

Lemma obs_eqb_sound (a b : obs) : obs_eqb a b = true -> a = b.
Proof.
  destruct a as [[[[[b1 s1] l1] e1] p1]|], b as [[[[[b2 s2] l2] e2] p2]|]; cbn [obs_eqb]; intros E; try discriminate; [|reflexivity].
  repeat (apply andb_true_iff in E; destruct E as [E ?]).
  rewrite (list_eqb_sound Nat.eqb nat_eqb_sound b1 b2 E).
  rewrite (list_eqb_sound Nat.eqb nat_eqb_sound s1 s2) by assumption.
  rewrite (list_eqb_sound loss_eqb loss_eqb_sound l1 l2) by assumption.
  rewrite (list_eqb_sound Nat.eqb nat_eqb_sound e1 e2) by assumption.
  rewrite (list_eqb_sound (list_eqb Nat.eqb) (list_eqb_sound Nat.eqb nat_eqb_sound) p1 p2) by assumption.
  reflexivity.
Qed.

(* the boolean form used by the long correspondence shards implies the literal equality of observations *)
Lemma failing_from_nil_all_agree cs : forall i, failing_from i cs = [] ->
  map (fun x => observe (fst (fst x)) (snd (fst x))) cs = map snd cs.
Proof.
  induction cs as [|[[c l] o] cs IH]; intros i E; [reflexivity|].
  cbn [failing_from] in E. destruct (obs_eqb (observe c l) o) eqn:Eo; [|discriminate].
  cbn [map fst snd]. rewrite (obs_eqb_sound _ _ Eo), (IH (S i) E). reflexivity.
Qed.

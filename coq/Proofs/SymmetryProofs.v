(* Pointwise symmetry and parameter-meaning lemmas (C09, C02) over the kernels
   REGENERATED from rendering.py (Gen/Formulas.v). *)
From Coq Require Import Reals Lra.
From PS Require Import Base.RBase Base.Trig Gen.Formulas.
Open Scope R_scope.

Ltac trig_ring :=
  trig_shift;
  repeat match goal with |- context [cos ?t] => let c := fresh "c" in set (c := cos t) end;
  repeat match goal with |- context [sin ?t] => let s := fresh "s" in set (s := sin t) end;
  unfold Rdiv; ring.

(* ===================== analytic Sersic kernel ===================== *)

(* sersic2d depends on position and angle only through the squared elliptical radius *)
Lemma sersic2d_via_zsq lg X Y xc yc f r n e t X' Y' xc' yc' t' :
  sersic2d_zsq X Y xc yc r e t = sersic2d_zsq X' Y' xc' yc' r e t' ->
  sersic2d lg X Y xc yc f r n e t = sersic2d lg X' Y' xc' yc' f r n e t'.
Proof. intros H. unfold sersic2d. rewrite H. reflexivity. Qed.

Lemma zsq_theta_pi X Y xc yc r e t :
  sersic2d_zsq X Y xc yc r e (t + PI) = sersic2d_zsq X Y xc yc r e t.
Proof. unfold sersic2d_zsq. trig_ring. Qed.

Lemma zsq_transpose X Y xc yc r e t :
  sersic2d_zsq Y X yc xc r e (PI / 2 - t) = sersic2d_zsq X Y xc yc r e t.
Proof. unfold sersic2d_zsq. trig_ring. Qed.

Lemma zsq_mirror N X Y xc yc r e t :
  sersic2d_zsq (N - 1 - X) Y (N - 1 - xc) yc r e (- t) = sersic2d_zsq X Y xc yc r e t.
Proof. unfold sersic2d_zsq. trig_ring. Qed.

Lemma zsq_centre_symmetric xc yc u v r e t :
  sersic2d_zsq (xc + u) (yc + v) xc yc r e t = sersic2d_zsq (xc - u) (yc - v) xc yc r e t.
Proof. unfold sersic2d_zsq. trig_ring. Qed.

Lemma zsq_translate a b X Y xc yc r e t :
  sersic2d_zsq (X + a) (Y + b) (xc + a) (yc + b) r e t = sersic2d_zsq X Y xc yc r e t.
Proof. unfold sersic2d_zsq. trig_ring. Qed.

(* ellip = 0: no dependence on theta *)
Lemma zsq_round X Y xc yc r t :
  sersic2d_zsq X Y xc yc r 0 t = ((X - xc) ^ 2 + (Y - yc) ^ 2) * (/ r) ^ 2.
Proof.
  unfold sersic2d_zsq. trig_shift. pose proof (sin2_cos2_1 t) as Hs.
  set (c := cos t) in *. set (s := sin t) in *.
  replace (1 - 0) with 1 by ring. rewrite Rmult_1_l. unfold Rdiv. ring [Hs].
Qed.

(* the major axis: along (xc, yc) + w (-sin t, cos t) the elliptical radius is |w| / r_eff ... *)
Lemma zsq_along_major xc yc r e t w :
  sersic2d_zsq (xc - w * sin t) (yc + w * cos t) xc yc r e t = (w * / r) ^ 2.
Proof.
  unfold sersic2d_zsq. trig_shift. pose proof (sin2_cos2_1 t) as Hs.
  set (c := cos t) in *. set (s := sin t) in *. unfold Rdiv. ring [Hs].
Qed.

(* ... and along (cos t, sin t) it is |w| / ((1 - ellip) r_eff): axis ratio 1 - ellip *)
Lemma zsq_along_minor xc yc r e t w :
  sersic2d_zsq (xc + w * cos t) (yc + w * sin t) xc yc r e t = (w * / ((1 - e) * r)) ^ 2.
Proof.
  unfold sersic2d_zsq. trig_shift. pose proof (sin2_cos2_1 t) as Hs.
  set (c := cos t) in *. set (s := sin t) in *. unfold Rdiv. ring [Hs].
Qed.

(* ===================== real-space Gaussian components ===================== *)

Lemma gauss_pixel_via_exponent X Y a sg xc yc t q X' Y' xc' yc' t' :
  gauss_pixel_exponent X Y a sg xc yc t q = gauss_pixel_exponent X' Y' a sg xc' yc' t' q ->
  gauss_pixel_comp X Y a sg xc yc t q = gauss_pixel_comp X' Y' a sg xc' yc' t' q.
Proof. intros H. unfold gauss_pixel_comp. unfold gauss_pixel_exponent in H. rewrite H. reflexivity. Qed.

Lemma gpe_theta_pi X Y a sg xc yc t q :
  gauss_pixel_exponent X Y a sg xc yc (t + PI) q = gauss_pixel_exponent X Y a sg xc yc t q.
Proof. unfold gauss_pixel_exponent. trig_ring. Qed.

Lemma gpe_transpose X Y a sg xc yc t q :
  gauss_pixel_exponent Y X a sg yc xc (PI / 2 - t) q = gauss_pixel_exponent X Y a sg xc yc t q.
Proof. unfold gauss_pixel_exponent. trig_ring. Qed.

Lemma gpe_mirror N X Y a sg xc yc t q :
  gauss_pixel_exponent (N - 1 - X) Y a sg (N - 1 - xc) yc (- t) q = gauss_pixel_exponent X Y a sg xc yc t q.
Proof. unfold gauss_pixel_exponent. trig_ring. Qed.

Lemma gpe_centre_symmetric xc yc u v a sg t q :
  gauss_pixel_exponent (xc + u) (yc + v) a sg xc yc t q = gauss_pixel_exponent (xc - u) (yc - v) a sg xc yc t q.
Proof. unfold gauss_pixel_exponent. trig_ring. Qed.

Lemma gpe_translate da db X Y a sg xc yc t q :
  gauss_pixel_exponent (X + da) (Y + db) a sg (xc + da) (yc + db) t q = gauss_pixel_exponent X Y a sg xc yc t q.
Proof. unfold gauss_pixel_exponent. trig_ring. Qed.

(* same ellipse as the Sersic kernel: sigma along (-sin t, cos t), q sigma along (cos t, sin t) *)
Lemma gpe_along_major xc yc a sg t q w :
  gauss_pixel_exponent (xc - w * sin t) (yc + w * cos t) a sg xc yc t q = - (w ^ 2) * / (2 * sg * sg).
Proof.
  unfold gauss_pixel_exponent. trig_shift. pose proof (sin2_cos2_1 t) as Hs.
  set (c := cos t) in *. set (s := sin t) in *. unfold Rdiv. ring [Hs].
Qed.

Lemma gpe_along_minor xc yc a sg t q w :
  gauss_pixel_exponent (xc + w * cos t) (yc + w * sin t) a sg xc yc t q = - (w ^ 2) * / (q * q) * / (2 * sg * sg).
Proof.
  unfold gauss_pixel_exponent. trig_shift. pose proof (sin2_cos2_1 t) as Hs.
  set (c := cos t) in *. set (s := sin t) in *. unfold Rdiv. ring [Hs].
Qed.

Lemma gpe_round X Y a sg xc yc t :
  gauss_pixel_exponent X Y a sg xc yc t 1 = - ((X - xc) ^ 2 + (Y - yc) ^ 2) * / (2 * sg * sg).
Proof.
  unfold gauss_pixel_exponent. trig_shift. pose proof (sin2_cos2_1 t) as Hs.
  set (c := cos t) in *. set (s := sin t) in *. unfold Rdiv. rewrite Rmult_1_r, Rinv_1. ring [Hs].
Qed.

(* ===================== Fourier-space Gaussian components ===================== *)

Lemma gauss_fourier_structure FX FY a sg xc yc t q :
  gauss_fourier_comp_re FX FY a sg xc yc t q = a * (exp (gauss_fourier_logamp FX FY a sg xc yc t q) * cos (gauss_fourier_phase FX FY a sg xc yc t q)) /\
  gauss_fourier_comp_im FX FY a sg xc yc t q = a * (exp (gauss_fourier_logamp FX FY a sg xc yc t q) * sin (gauss_fourier_phase FX FY a sg xc yc t q)).
Proof. split; reflexivity. Qed.

(* the phase is exactly -2 pi (FX xc + FY yc): position enters only as the Fourier shift *)
Lemma fourier_phase_form FX FY a sg xc yc t q :
  gauss_fourier_phase FX FY a sg xc yc t q = - (2 * PI) * (FX * xc + FY * yc).
Proof. unfold gauss_fourier_phase. ring. Qed.

Lemma ps_fourier_form FX FY xc yc f :
  ps_fourier_re FX FY xc yc f = f * cos (- (2 * PI) * (FX * xc + FY * yc)) /\
  ps_fourier_im FX FY xc yc f = f * sin (- (2 * PI) * (FX * xc + FY * yc)).
Proof.
  unfold ps_fourier_re, ps_fourier_im. split; f_equal; f_equal; ring.
Qed.

(* the amplitude factor is real and even in (FX, FY), and does not depend on the position *)
Lemma logamp_even FX FY a sg xc yc t q xc' yc' :
  gauss_fourier_logamp (- FX) (- FY) a sg xc yc t q = gauss_fourier_logamp FX FY a sg xc' yc' t q.
Proof. unfold gauss_fourier_logamp. trig_ring. Qed.

Lemma logamp_theta_pi FX FY a sg xc yc t q :
  gauss_fourier_logamp FX FY a sg xc yc (t + PI) q = gauss_fourier_logamp FX FY a sg xc yc t q.
Proof. unfold gauss_fourier_logamp. trig_ring. Qed.

Lemma logamp_transpose FX FY a sg xc yc t q :
  gauss_fourier_logamp FY FX a sg yc xc (PI / 2 - t) q = gauss_fourier_logamp FX FY a sg xc yc t q.
Proof. unfold gauss_fourier_logamp. trig_ring. Qed.

Lemma logamp_mirror FX FY a sg xc yc t q :
  gauss_fourier_logamp (- FX) FY a sg xc yc (- t) q = gauss_fourier_logamp FX FY a sg xc yc t q.
Proof. unfold gauss_fourier_logamp. trig_ring. Qed.

Lemma logamp_round FX FY a sg xc yc t :
  gauss_fourier_logamp FX FY a sg xc yc t 1 = - (2 * PI * PI * sg * sg) * (FX ^ 2 + FY ^ 2).
Proof.
  unfold gauss_fourier_logamp. trig_shift. pose proof (sin2_cos2_1 t) as Hs.
  set (c := cos t) in *. set (s := sin t) in *. ring [Hs].
Qed.

(* covariance read off the spectrum: sigma^2 along (-sin t, cos t), q^2 sigma^2 along (cos t, sin t)
   - the same orientation convention as the two real-space kernels *)
Lemma logamp_along_major a sg xc yc t q w :
  gauss_fourier_logamp (- w * sin t) (w * cos t) a sg xc yc t q = - (2 * PI * PI) * (sg * sg) * w ^ 2.
Proof.
  unfold gauss_fourier_logamp. trig_shift. pose proof (sin2_cos2_1 t) as Hs.
  set (c := cos t) in *. set (s := sin t) in *. ring [Hs].
Qed.

Lemma logamp_along_minor a sg xc yc t q w :
  gauss_fourier_logamp (w * cos t) (w * sin t) a sg xc yc t q = - (2 * PI * PI) * (q * q * (sg * sg)) * w ^ 2.
Proof.
  unfold gauss_fourier_logamp. trig_shift. pose proof (sin2_cos2_1 t) as Hs.
  set (c := cos t) in *. set (s := sin t) in *. ring [Hs].
Qed.

(* whole-pixel translation of the source multiplies the spectrum by the shift phase *)
Lemma fourier_translate FX FY a sg xc yc t q da db :
  let d := 2 * PI * (FX * da + FY * db) in
  gauss_fourier_comp_re FX FY a sg (xc + da) (yc + db) t q =
    gauss_fourier_comp_re FX FY a sg xc yc t q * cos d + gauss_fourier_comp_im FX FY a sg xc yc t q * sin d /\
  gauss_fourier_comp_im FX FY a sg (xc + da) (yc + db) t q =
    gauss_fourier_comp_im FX FY a sg xc yc t q * cos d - gauss_fourier_comp_re FX FY a sg xc yc t q * sin d.
Proof.
  intros d.
  destruct (gauss_fourier_structure FX FY a sg (xc + da) (yc + db) t q) as [Hr Hi].
  destruct (gauss_fourier_structure FX FY a sg xc yc t q) as [Hr0 Hi0].
  rewrite Hr, Hi, Hr0, Hi0.
  assert (Hl : gauss_fourier_logamp FX FY a sg (xc + da) (yc + db) t q = gauss_fourier_logamp FX FY a sg xc yc t q) by reflexivity.
  assert (Hp : gauss_fourier_phase FX FY a sg (xc + da) (yc + db) t q = gauss_fourier_phase FX FY a sg xc yc t q - d).
  { unfold gauss_fourier_phase, d. ring. }
  rewrite Hl, Hp, cos_minus, sin_minus. split; ring.
Qed.

(* ===================== consequences stated on the kernels themselves ===================== *)

Lemma sersic2d_theta_pi lg X Y xc yc f r n e t :
  sersic2d lg X Y xc yc f r n e (t + PI) = sersic2d lg X Y xc yc f r n e t.
Proof. apply sersic2d_via_zsq, zsq_theta_pi. Qed.

Lemma sersic2d_transpose lg X Y xc yc f r n e t :
  sersic2d lg Y X yc xc f r n e (PI / 2 - t) = sersic2d lg X Y xc yc f r n e t.
Proof. apply sersic2d_via_zsq, zsq_transpose. Qed.

Lemma sersic2d_mirror lg N X Y xc yc f r n e t :
  sersic2d lg (N - 1 - X) Y (N - 1 - xc) yc f r n e (- t) = sersic2d lg X Y xc yc f r n e t.
Proof. apply sersic2d_via_zsq, zsq_mirror. Qed.

Lemma sersic2d_round lg X Y xc yc f r n t t' :
  sersic2d lg X Y xc yc f r n 0 t = sersic2d lg X Y xc yc f r n 0 t'.
Proof. apply sersic2d_via_zsq. rewrite !zsq_round. reflexivity. Qed.

Lemma sersic2d_centre_symmetric lg xc yc u v f r n e t :
  sersic2d lg (xc + u) (yc + v) xc yc f r n e t = sersic2d lg (xc - u) (yc - v) xc yc f r n e t.
Proof. apply sersic2d_via_zsq, zsq_centre_symmetric. Qed.

Lemma sersic2d_translate lg a b X Y xc yc f r n e t :
  sersic2d lg (X + a) (Y + b) (xc + a) (yc + b) f r n e t = sersic2d lg X Y xc yc f r n e t.
Proof. apply sersic2d_via_zsq, zsq_translate. Qed.

(* theta + k pi, k any integer: same kernel (used for the modulo-pi wrap of C19) *)
Lemma zsq_theta_kpi X Y xc yc r e t (k : nat) :
  sersic2d_zsq X Y xc yc r e (t + INR k * PI) = sersic2d_zsq X Y xc yc r e t.
Proof.
  induction k as [|k IH].
  - simpl. rewrite Rmult_0_l, Rplus_0_r. reflexivity.
  - rewrite S_INR. replace (t + (INR k + 1) * PI) with (t + INR k * PI + PI) by ring.
    rewrite zsq_theta_pi. exact IH.
Qed.

Lemma gauss_pixel_theta_pi X Y a sg xc yc t q :
  gauss_pixel_comp X Y a sg xc yc (t + PI) q = gauss_pixel_comp X Y a sg xc yc t q.
Proof. apply gauss_pixel_via_exponent, gpe_theta_pi. Qed.
Lemma gauss_pixel_transpose X Y a sg xc yc t q :
  gauss_pixel_comp Y X a sg yc xc (PI / 2 - t) q = gauss_pixel_comp X Y a sg xc yc t q.
Proof. apply gauss_pixel_via_exponent, gpe_transpose. Qed.
Lemma gauss_pixel_mirror N X Y a sg xc yc t q :
  gauss_pixel_comp (N - 1 - X) Y a sg (N - 1 - xc) yc (- t) q = gauss_pixel_comp X Y a sg xc yc t q.
Proof. apply gauss_pixel_via_exponent, gpe_mirror. Qed.
Lemma gauss_pixel_translate da db X Y a sg xc yc t q :
  gauss_pixel_comp (X + da) (Y + db) a sg (xc + da) (yc + db) t q = gauss_pixel_comp X Y a sg xc yc t q.
Proof. apply gauss_pixel_via_exponent, gpe_translate. Qed.
Lemma gauss_pixel_round X Y a sg xc yc t t' :
  gauss_pixel_comp X Y a sg xc yc t 1 = gauss_pixel_comp X Y a sg xc yc t' 1.
Proof. apply gauss_pixel_via_exponent. rewrite !gpe_round. reflexivity. Qed.
Lemma gauss_pixel_centre_symmetric xc yc u v a sg t q :
  gauss_pixel_comp (xc + u) (yc + v) a sg xc yc t q = gauss_pixel_comp (xc - u) (yc - v) a sg xc yc t q.
Proof. apply gauss_pixel_via_exponent, gpe_centre_symmetric. Qed.

(* half-light: P(2n, b_n) = 1 - exp(-b) sum_{j<2n} b^j / j!  for integer 2n *)
Fixpoint horner (j m : nat) (b : R) : R :=
  match m with
  | O => 0
  | S m' => 1 + b / INR j * horner (S j) m' b
  end.
Definition enclosed_fraction (m : nat) (b : R) : R := 1 - exp (- b) * horner 1 m b.

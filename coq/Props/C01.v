(* Property C01 - the rendered model carries the requested total flux.  Statements only;
   proofs in Proofs/FluxProofs.v (DFT development in Base/Dft.v) over kernels, ramps and
   scene assembly REGENERATED from rendering.py and the amplitude table DUMPED from the
   running renderer.  PARTIAL: quadrature accuracy of the pixel renderer, the sampled-vs-
   integrated real-space Gaussians of the hybrid renderer and the in-footprint fraction
   f_in of the true profile are numerical and not theorems. *)
From Coq Require Import Reals List.
From Coquelicot Require Import Coquelicot.
From PS Require Import Base.RBase Base.Dft Gen.Formulas Gen.Ramps Gen.Amps Gen.AmpTable Gen.RenderGlue
     Proofs.RenderAlgebra Proofs.FluxProofs Proofs.ConvChain Proofs.SymmetryProofs Proofs.HalfLight.
Import ListNotations.
Open Scope R_scope.

(* the Fourier image of a Gaussian mixture at zero frequency is the sum of the amplitudes (no imaginary part),
   for every position, angle, axis ratio and set of widths *)
Theorem C01_fourier_gauss_dc : forall K amps sg xc yc t q,
  gauss_fourier_re K 0 0 amps sg xc yc t q = rsum amps K /\ gauss_fourier_im K 0 0 amps sg xc yc t q = 0.
Proof. exact gauss_fourier_dc. Qed.

Theorem C01_pointsource_dc : forall xc yc f, ps_fourier_re 0 0 xc yc f = f /\ ps_fourier_im 0 0 xc yc f = 0.
Proof. exact ps_fourier_dc. Qed.

(* both PSF phase ramps are exp(i*0) = 1 at zero frequency: PSF_fft[0,0] = sum(psf) for every stamp size *)
Theorem C01_ramps_dc : forall P0 P1, ramp_x_phase P0 0 = 0 /\ ramp_y_phase P1 0 = 0.
Proof. exact ramps_dc. Qed.

(* sum over ALL pixels of irfft2(F) = Re F[0,0]: every frame size N >= 1, odd or even, every half-plane array *)
Theorem C01_irfft2_total : forall N F, (0 < N)%nat ->
  rsum (fun r => rsum (fun c => irfft2 N F r c) N) N = Re (F 0%nat 0%nat).
Proof. exact irfft2_total. Qed.

(* hence FFT convolution multiplies the total by PSF_fft[0,0] *)
Theorem C01_conv_total : forall N F PSF, (0 < N)%nat ->
  rsum (fun r => rsum (fun c => irfft2 N (fun ky kx => Cmult (F ky kx) (PSF ky kx)) r c) N) N = Re (Cmult (F 0%nat 0%nat) (PSF 0%nat 0%nat)).
Proof. exact conv_fft_total. Qed.

Theorem C01_dc_product : forall f0 psum, Re (Cmult (RtoC f0) (RtoC psum)) = f0 * psum.
Proof. exact dc_product. Qed.

(* amplitudes = table value (unit flux) * flux; composite profiles split the flux as f and 1-f *)
Theorem C01_flux_split : forall an flux f_1 xc yc r1 n1 e1 r2 n2 e2 theta,
  amps_interp an flux = an * flux /\
  components_doublesersic xc yc flux f_1 r1 n1 e1 r2 n2 e2 theta =
    [CSersic xc yc (flux * f_1) r1 n1 e1 theta; CSersic xc yc (flux * (1 - f_1)) r2 n2 e2 theta].
Proof. intros. split; [unfold amps_interp; ring|reflexivity]. Qed.

(* certificate on the table of THIS run: for EVERY Sersic index n in [0.8, 6] the interpolated unit-flux amplitudes sum to
   1 +- 4.5 % (1 +- 2 % on [1.25, 4]).  So the Fourier renderer's total is sum(psf) * flux * S_T(n) with S_T in that band,
   for every position, angle, ellipticity, r_eff, PSF and image size (light falling outside the frame wraps around). *)
Theorem C01_amp_sum_band : forall n,
  (8 / 10 <= n <= 6 -> 955 / 1000 <= S_T n <= 1045 / 1000) /\
  (125 / 100 <= n <= 4 -> 98 / 100 <= S_T n <= 102 / 100).
Proof. exact amp_sum_band. Qed.

Theorem C01_hybrid_real_space_scaled : hybrid_real_space_scaled_by_psf_sum = true /\ hybrid_real_space_goes_to_observed_slot = true.
Proof. split; reflexivity. Qed.

(* the same in the spatial form: the image that conv_fft computes (C03: the scene convolved with the centred stamp) carries
   total(scene) x sum(psf), for every frame size, every stamp offset and all arrays - no light is lost or gained by the
   circular wrap-around *)
Theorem C01_convolved_total_spatial : forall N c0 a p, (0 < N)%nat ->
  csum (fun r => csum (fun c => conv_centred N c0 a p r c) N) N
  = Cmult (csum (fun y => csum (fun x => a y x) N) N) (csum (fun i => csum (fun j => p i j) N) N).
Proof. exact (fun N c0 a p HN => conv_centred_total N HN c0 a p). Qed.

(* the `flux` argument of the generated 1-D profile is its total light: for integer 2n = m (lg = log-gamma at 2n) the light
   between the radii 0 < a <= R is flux (P(2n, b_n (R/re)^(1/n)) - P(2n, b_n (a/re)^(1/n))) with P the regularised incomplete
   gamma function, which increases from 0 to 1  (partial: circular profile, integer 2n; the limits a -> 0, R -> infinity and the
   elliptical plane integral are not formalised) *)
Theorem C01_profile_light_curve_partial : forall lg flux re m a Rout, 0 < re -> (0 < m)%nat -> exp (lg (2 * (INR m / 2))) = INR (fact (m - 1)) ->
  0 < a -> a <= Rout ->
  is_RInt (fun r => 2 * PI * r * sersic1d lg r flux re (INR m / 2)) a Rout
    (flux * enclosed_fraction m (sersic_bn (INR m / 2) * rpow (Rout / re) (1 / (INR m / 2)))
     - flux * enclosed_fraction m (sersic_bn (INR m / 2) * rpow (a / re) (1 / (INR m / 2)))).
Proof. exact (fun lg flux re m a Rout H1 H2 H3 => sersic1d_light_between lg flux re m H1 H2 H3 a Rout). Qed.

(* ... and quantitatively: the light between a and Rout differs from `flux` by at most |flux| (ta^m/m! + m (m+1)!/tR^2), where
   ta = b_n (a/re)^(1/n) -> 0 as a -> 0 and tR = b_n (Rout/re)^(1/n) -> infinity as Rout -> infinity: the flux argument is the total
   light of the profile  (circular 1-D profile, integer 2n) *)
Theorem C01_profile_total_light_is_flux_partial : forall lg flux re m a Rout,
  0 < re -> (0 < m)%nat -> exp (lg (2 * (INR m / 2))) = INR (fact (m - 1)) -> 0 < a -> a <= Rout ->
  let ta := sersic_bn (INR m / 2) * rpow (a / re) (1 / (INR m / 2)) in
  let tR := sersic_bn (INR m / 2) * rpow (Rout / re) (1 / (INR m / 2)) in
  1 <= tR ->
  exists L, is_RInt (fun r => 2 * PI * r * sersic1d lg r flux re (INR m / 2)) a Rout L /\
            Rabs (L - flux) <= Rabs flux * (ta ^ m / INR (fact m) + INR m * INR (fact (S m)) / tR ^ 2).
Proof. exact sersic1d_total_light. Qed.

Print Assumptions C01_fourier_gauss_dc.
Print Assumptions C01_pointsource_dc.
Print Assumptions C01_ramps_dc.
Print Assumptions C01_irfft2_total.
Print Assumptions C01_conv_total.
Print Assumptions C01_dc_product.
Print Assumptions C01_flux_split.
Print Assumptions C01_amp_sum_band.
Print Assumptions C01_hybrid_real_space_scaled.
Print Assumptions C01_convolved_total_spatial.
Print Assumptions C01_profile_light_curve_partial.
Print Assumptions C01_profile_total_light_is_flux_partial.

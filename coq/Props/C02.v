(* Property C02 - profile parameters mean what the API says (centre, r_eff,
   ellip, theta).  Statements only; proofs in Proofs/SymmetryProofs.v and
   Proofs/SkyProofs.v over kernels and grids REGENERATED from rendering.py. *)
From Coq Require Import Reals ZArith.
From Coquelicot Require Import Coquelicot.
From PS Require Import Base.RBase Gen.Formulas Gen.Grid Proofs.SymmetryProofs Proofs.SkyProofs Proofs.HalfLight.
Open Scope R_scope.

(* pixel (row r, column c) has X = c, Y = r: xc is a column, yc a row coordinate, pixel centres at integers *)
Theorem C02_grid_convention : forall r c, Xof r c = IZR c /\ Yof r c = IZR r.
Proof. exact grid_convention. Qed.

(* the light is point-symmetric about (xc, yc) in every evaluation path: (xc, yc) is the centroid *)
Theorem C02_centre_symmetry : forall lg xc yc u v f r n e t a sg q FX FY xc' yc',
  sersic2d lg (xc + u) (yc + v) xc yc f r n e t = sersic2d lg (xc - u) (yc - v) xc yc f r n e t /\
  gauss_pixel_comp (xc + u) (yc + v) a sg xc yc t q = gauss_pixel_comp (xc - u) (yc - v) a sg xc yc t q /\
  gauss_fourier_logamp (- FX) (- FY) a sg xc yc t q = gauss_fourier_logamp FX FY a sg xc' yc' t q /\
  gauss_fourier_phase FX FY a sg xc yc t q = - (2 * PI) * (FX * xc + FY * yc).
Proof.
  intros. split; [apply sersic2d_centre_symmetric|]. split; [apply gauss_pixel_centre_symmetric|].
  split; [apply logamp_even|apply fourier_phase_form].
Qed.

(* theta is measured from +y towards -x: along (-sin theta, cos theta) the elliptical radius is |w| / r_eff
   (r_eff is the semi-MAJOR axis of the z = 1 contour) ... *)
Theorem C02_major_axis : forall xc yc r e t w,
  sersic2d_zsq (xc - w * sin t) (yc + w * cos t) xc yc r e t = (w * / r) ^ 2.
Proof. exact zsq_along_major. Qed.

(* ... and along the perpendicular (cos theta, sin theta) it is |w| / ((1 - ellip) r_eff): axis ratio 1 - ellip *)
Theorem C02_minor_axis : forall xc yc r e t w,
  sersic2d_zsq (xc + w * cos t) (yc + w * sin t) xc yc r e t = (w * / ((1 - e) * r)) ^ 2.
Proof. exact zsq_along_minor. Qed.

(* all three renderers realise the same convention: the real-space Gaussians have variance sigma^2 along
   (-sin theta, cos theta) and q^2 sigma^2 along (cos theta, sin theta); the Fourier Gaussians have exactly
   the transform of that covariance (exp(-2 pi^2 f^T Sigma f)) *)
Theorem C02_three_paths_same_ellipse : forall xc yc a sg t q w,
  gauss_pixel_exponent (xc - w * sin t) (yc + w * cos t) a sg xc yc t q = - (w ^ 2) * / (2 * sg * sg) /\
  gauss_pixel_exponent (xc + w * cos t) (yc + w * sin t) a sg xc yc t q = - (w ^ 2) * / (q * q) * / (2 * sg * sg) /\
  gauss_fourier_logamp (- w * sin t) (w * cos t) a sg xc yc t q = - (2 * PI * PI) * (sg * sg) * w ^ 2 /\
  gauss_fourier_logamp (w * cos t) (w * sin t) a sg xc yc t q = - (2 * PI * PI) * (q * q * (sg * sg)) * w ^ 2.
Proof.
  intros. split; [apply gpe_along_major|]. split; [apply gpe_along_minor|]. split; [apply logamp_along_major|apply logamp_along_minor].
Qed.

(* defined modulo pi *)
Theorem C02_theta_mod_pi : forall lg X Y xc yc f r n e t,
  sersic2d lg X Y xc yc f r n e (t + PI) = sersic2d lg X Y xc yc f r n e t.
Proof. exact sersic2d_theta_pi. Qed.

(* r_eff encloses half of the light: for the approximation b_n in use, the enclosed fraction
   P(2n, b_n) at the grid n = 1, 1.5, ..., 6 lies in [0.494, 0.5005]  (partial: integer 2n only) *)
Theorem C02_half_light_at_grid_n_partial :
  forall m : nat, (2 <= m <= 12)%nat ->
  494 / 1000 <= enclosed_fraction m (sersic_bn (INR m / 2)) <= 5005 / 10000.
Proof. exact half_light_grid. Qed.

(* that closed form is the regularised incomplete gamma function: (1/(m-1)!) int_0^b t^(m-1) exp(-t) dt *)
Theorem C02_enclosed_fraction_is_incomplete_gamma : forall m b, (0 < m)%nat ->
  is_RInt (fun t => exp (- t) * t ^ (m - 1) / INR (fact (m - 1))) 0 b (enclosed_fraction m b).
Proof. exact enclosed_fraction_is_incomplete_gamma. Qed.

(* and it is the light curve of the 1-D profile regenerated from rendering.py (2n = m integer, lg = log-gamma at 2n):
   d/dr [flux P(2n, b_n (r/re)^(1/n))] = 2 pi r I(r) for every r > 0 *)
Theorem C02_sersic_light_growth : forall lg flux re m r, 0 < re -> (0 < m)%nat -> exp (lg (2 * (INR m / 2))) = INR (fact (m - 1)) -> 0 < r ->
  is_derive (fun x => flux * enclosed_fraction m (sersic_bn (INR m / 2) * rpow (x / re) (1 / (INR m / 2)))) r
            (2 * PI * r * sersic1d lg r flux re (INR m / 2)).
Proof. exact (fun lg flux re m r H1 H2 H3 => sersic1d_light_growth lg flux re m H1 H2 H3 r). Qed.

(* hence the light between any radius a > 0 and r_eff is flux (P(2n, b_n) - P(2n, b_n (a/re)^(1/n))): r_eff is the radius
   at which the enclosed fraction is P(2n, b_n), which the grid theorem above bounds by [0.494, 0.5005]  (partial: circular
   1-D profile, integer 2n; the elliptical plane integral and the limit a -> 0 are not formalised) *)
Theorem C02_light_inside_r_eff_partial : forall lg flux re m a, 0 < re -> (0 < m)%nat -> exp (lg (2 * (INR m / 2))) = INR (fact (m - 1)) ->
  0 < a -> a <= re ->
  is_RInt (fun r => 2 * PI * r * sersic1d lg r flux re (INR m / 2)) a re
    (flux * enclosed_fraction m (sersic_bn (INR m / 2)) - flux * enclosed_fraction m (sersic_bn (INR m / 2) * rpow (a / re) (1 / (INR m / 2)))).
Proof. exact (fun lg flux re m a H1 H2 H3 => sersic1d_light_to_re lg flux re m H1 H2 H3 a). Qed.

Print Assumptions C02_grid_convention.
Print Assumptions C02_centre_symmetry.
Print Assumptions C02_major_axis.
Print Assumptions C02_minor_axis.
Print Assumptions C02_three_paths_same_ellipse.
Print Assumptions C02_theta_mod_pi.
Print Assumptions C02_half_light_at_grid_n_partial.
Print Assumptions C02_enclosed_fraction_is_incomplete_gamma.
Print Assumptions C02_sersic_light_growth.
Print Assumptions C02_light_inside_r_eff_partial.

(* Property C03 - the model is the intrinsic scene convolved with the PSF exactly as supplied.
   Statements only; proofs in Proofs/ConvProofs.v, Proofs/FluxProofs.v and Base/Dft.v over ramps,
   point-source code and scene assembly REGENERATED from rendering.py.  PARTIAL: that
   irfft2(rfft2 a * rfft2 b) is the circular convolution of a and b is proved for the 1-D complex
   transform on Z_N (Base/Dft.v); its 2-D half-plane form is carried by the numerical correspondence
   of the irfft2 model (C01) and by the implementation oracle. *)
From Coq Require Import Reals ZArith.
From Coquelicot Require Import Coquelicot.
From PS Require Import Base.RBase Base.Dft Gen.Ramps Gen.Formulas Gen.RenderGlue Proofs.ConvProofs Proofs.FluxProofs.
Open Scope R_scope.

(* the PSF is centred on its geometric array centre (P-1)/2 along both axes, using pi itself *)
Theorem C03_ramp_form : forall P0 P1 FX FY,
  ramp_x_phase P0 FX = 2 * PI * ((P0 - 1) / 2) * FX /\ ramp_y_phase P1 FY = 2 * PI * ((P1 - 1) / 2) * FY.
Proof. exact ramp_form. Qed.

(* odd stamps: the ramp is exactly the DFT phase of an integer shift by c = (P-1)/2 pixels (no interpolation, no mirroring) *)
Theorem C03_ramp_is_integer_shift : forall N c k, (0 < N)%nat ->
  cis (ramp_x_phase (INR (2 * c + 1)) (INR k / INR N)) = Cpow (wN N) (c * k) /\
  cis (ramp_y_phase (INR (2 * c + 1)) (INR k / INR N)) = Cpow (wN N) (c * k).
Proof. exact ramp_is_integer_shift. Qed.

Theorem C03_ramp_even_half_pixel : forall c FX, ramp_x_phase (INR (2 * c)) FX = 2 * PI * (INR c - 1 / 2) * FX.
Proof. exact ramp_even_half_pixel. Qed.

Theorem C03_psf_fft_structure : psf_fft_is_rfft2_times_both_ramps = true.
Proof. reflexivity. Qed.

(* Fourier / hybrid point source: the transform of a delta at (column xc, row yc); at integer positions a pure root-of-unity phase *)
Theorem C03_pointsource_fourier : forall N kx ky (xc yc : nat) f, (0 < N)%nat ->
  (ps_fourier_re (INR kx / INR N) (INR ky / INR N) (INR xc) (INR yc) f, ps_fourier_im (INR kx / INR N) (INR ky / INR N) (INR xc) (INR yc) f)
  = Cmult (RtoC f) (Cconj (Cpow (wN N) (kx * xc + ky * yc))).
Proof. exact ps_fourier_integer_position. Qed.

(* pixel renderer point source: for integer (xc, yc) and odd stamp sizes pixel (r, c) reads psf[r - yc + a][c - xc + b]:
   rows to rows, columns to columns, centre entry on the source pixel *)
Theorem C03_pixel_pointsource_is_stamp : forall (xc yc : Z) (a b : nat) (r c : Z),
  pixel_ps_coord_order = RowFromY /\
  IZR r - ps_dy (IZR yc) (INR (2 * a + 1)) (INR (2 * b + 1)) = IZR (r - yc + Z.of_nat a) /\
  IZR c - ps_dx (IZR xc) (INR (2 * a + 1)) (INR (2 * b + 1)) = IZR (c - xc + Z.of_nat b).
Proof. intros. exact (conj pixel_ps_is_stamp (pixel_ps_coordinates xc yc a b r c)). Qed.

(* total light is preserved by the FFT convolution up to the factor sum(psf) (from C01) *)
Theorem C03_conv_preserves_total : forall N F PSF, (0 < N)%nat ->
  rsum (fun r => rsum (fun c => irfft2 N (fun ky kx => Cmult (F ky kx) (PSF ky kx)) r c) N) N = Re (Cmult (F 0%nat 0%nat) (PSF 0%nat 0%nat)).
Proof. exact conv_fft_total. Qed.

(* FFT convolution IS spatial circular convolution: the transform pair on Z_N is inverse to each other and the inverse
   transform of a product of transforms is the circular convolution (1-D complex transform; every N >= 1, all signals) *)
Theorem C03_dft_inversion : forall N a x, (0 < N)%nat -> (x < N)%nat -> idft N (dft N a) x = a x.
Proof. exact (fun N a x HN Hx => idft_dft N HN a x Hx). Qed.

Theorem C03_convolution_theorem : forall N a b x, (0 < N)%nat -> (x < N)%nat ->
  idft N (fun k => Cmult (dft N a k) (dft N b k)) x = circ_conv N a b x.
Proof. exact (fun N a b x HN Hx => conv_via_dft N a b x HN Hx). Qed.

(* convolving with a unit impulse at p shifts the other signal by p - never mirrors it *)
Theorem C03_impulse_convolution_is_shift : forall N p b x, (0 < N)%nat -> (p < N)%nat ->
  circ_conv N (delta_at p) b x = b ((x + (N - p)) mod N)%nat.
Proof. exact (fun N p b x HN Hp => circ_conv_delta N p b x HN Hp). Qed.

Print Assumptions C03_dft_inversion.
Print Assumptions C03_convolution_theorem.
Print Assumptions C03_impulse_convolution_is_shift.
Print Assumptions C03_ramp_form.
Print Assumptions C03_ramp_is_integer_shift.
Print Assumptions C03_ramp_even_half_pixel.
Print Assumptions C03_psf_fft_structure.
Print Assumptions C03_pointsource_fourier.
Print Assumptions C03_pixel_pointsource_is_stamp.
Print Assumptions C03_conv_preserves_total.

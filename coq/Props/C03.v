(* Property C03 - the model is the intrinsic scene convolved with the PSF exactly as supplied.
   Statements only; proofs in Proofs/ConvProofs.v, Proofs/FluxProofs.v and Base/Dft.v over ramps,
   point-source code and scene assembly REGENERATED from rendering.py.  That
   irfft2(rfft2 a * rfft2 b) is the circular convolution of a and b is proved for the 1-D complex
   transform on Z_N (Base/Dft.v) and for the 2-D half-plane (real-to-complex / complex-to-real) form the
   renderers use, for every N >= 1 and all real arrays (Base/Dft2.v); the models of rfft2 / irfft2 are tied
   to jnp.fft by the numerical correspondence.  PARTIAL: bilinear resampling at fractional positions and the
   band-limited shift of the Fourier point source are not modelled (implementation oracle only). *)
From Coq Require Import Reals ZArith.
From Coquelicot Require Import Coquelicot.
From PS Require Import Base.RBase Base.Dft Base.Dft2 Gen.Ramps Gen.Formulas Gen.RenderGlue Proofs.ConvProofs Proofs.FluxProofs Proofs.ConvChain.
Open Scope R_scope.

(* the PSF is centred on its geometric array centre (P-1)/2 along both axes, using pi itself *)
Theorem C03_ramp_form : forall P0 P1 FX FY,
  ramp_x_phase P0 FX = 2 * PI * ((P0 - 1) / 2) * FX /\ ramp_y_phase P1 FY = 2 * PI * ((P1 - 1) / 2) * FY.
Proof. exact ramp_form. Qed.

(* odd stamps: the ramp is exactly the DFT phase of an integer shift by c = (P-1)/2 pixels (no interpolation, no mirroring) *)
Theorem C03_ramp_is_integer_shift : forall N c k, (0 < N)%nat ->
  cis (ramp_x_phase (INR (2 * c + 1)) (INR k / INR N)) = Cpow (wN N) (c * k) /\
  cis (ramp_y_phase (INR (2 * c + 1)) (INR k / INR N)) = Cpow (wN N) (c * k).
Proof. exact ramp_is_integer_shift. Qed.

Theorem C03_ramp_even_half_pixel : forall c FX, ramp_x_phase (INR (2 * c)) FX = 2 * PI * (INR c - 1 / 2) * FX.
Proof. exact ramp_even_half_pixel. Qed.

Theorem C03_psf_fft_structure : psf_fft_is_rfft2_times_both_ramps = true.
Proof. reflexivity. Qed.

(* Fourier / hybrid point source: the transform of a delta at (column xc, row yc); at integer positions a pure root-of-unity phase *)
Theorem C03_pointsource_fourier : forall N kx ky (xc yc : nat) f, (0 < N)%nat ->
  (ps_fourier_re (INR kx / INR N) (INR ky / INR N) (INR xc) (INR yc) f, ps_fourier_im (INR kx / INR N) (INR ky / INR N) (INR xc) (INR yc) f)
  = Cmult (RtoC f) (Cconj (Cpow (wN N) (kx * xc + ky * yc))).
Proof. exact ps_fourier_integer_position. Qed.

(* pixel renderer point source: for integer (xc, yc) and odd stamp sizes pixel (r, c) reads psf[r - yc + a][c - xc + b]:
   rows to rows, columns to columns, centre entry on the source pixel *)
Theorem C03_pixel_pointsource_is_stamp : forall (xc yc : Z) (a b : nat) (r c : Z),
  pixel_ps_coord_order = RowFromY /\
  IZR r - ps_dy (IZR yc) (INR (2 * a + 1)) (INR (2 * b + 1)) = IZR (r - yc + Z.of_nat a) /\
  IZR c - ps_dx (IZR xc) (INR (2 * a + 1)) (INR (2 * b + 1)) = IZR (c - xc + Z.of_nat b).
Proof. intros. exact (conj pixel_ps_is_stamp (pixel_ps_coordinates xc yc a b r c)). Qed.

(* total light is preserved by the FFT convolution up to the factor sum(psf) (from C01) *)
Theorem C03_conv_preserves_total : forall N F PSF, (0 < N)%nat ->
  rsum (fun r => rsum (fun c => irfft2 N (fun ky kx => Cmult (F ky kx) (PSF ky kx)) r c) N) N = Re (Cmult (F 0%nat 0%nat) (PSF 0%nat 0%nat)).
Proof. exact conv_fft_total. Qed.

(* FFT convolution IS spatial circular convolution: the transform pair on Z_N is inverse to each other and the inverse
   transform of a product of transforms is the circular convolution (1-D complex transform; every N >= 1, all signals) *)
Theorem C03_dft_inversion : forall N a x, (0 < N)%nat -> (x < N)%nat -> idft N (dft N a) x = a x.
Proof. exact (fun N a x HN Hx => idft_dft N HN a x Hx). Qed.

Theorem C03_convolution_theorem : forall N a b x, (0 < N)%nat -> (x < N)%nat ->
  idft N (fun k => Cmult (dft N a k) (dft N b k)) x = circ_conv N a b x.
Proof. exact (fun N a b x HN Hx => conv_via_dft N a b x HN Hx). Qed.

(* convolving with a unit impulse at p shifts the other signal by p - never mirrors it *)
Theorem C03_impulse_convolution_is_shift : forall N p b x, (0 < N)%nat -> (p < N)%nat ->
  circ_conv N (delta_at p) b x = b ((x + (N - p)) mod N)%nat.
Proof. exact (fun N p b x HN Hp => circ_conv_delta N p b x HN Hp). Qed.

Print Assumptions C03_dft_inversion.
Print Assumptions C03_convolution_theorem.
Print Assumptions C03_impulse_convolution_is_shift.
Print Assumptions C03_ramp_form.
Print Assumptions C03_ramp_is_integer_shift.
Print Assumptions C03_ramp_even_half_pixel.
Print Assumptions C03_psf_fft_structure.
Print Assumptions C03_pointsource_fourier.
Print Assumptions C03_pixel_pointsource_is_stamp.
Print Assumptions C03_conv_preserves_total.

(* --- two dimensions, in the half-plane form of jnp.fft.rfft2 / irfft2 that conv_fft uses --- *)

(* the transform of a 2-D circular convolution is the product of the transforms *)
Theorem C03_convolution_theorem_2d : forall N a b ky kx, (0 < N)%nat ->
  dft2 N (circ_conv2 N a b) ky kx = Cmult (dft2 N a ky kx) (dft2 N b ky kx).
Proof. exact (fun N a b ky kx HN => dft2_circ_conv2 N HN a b ky kx). Qed.

(* irfft2 recovers every real image from the half plane kx <= N/2 of its transform (Hermitian symmetry proved, not assumed) *)
Theorem C03_irfft2_inverts_rfft2 : forall N g r c, (0 < N)%nat -> (forall y x, is_real (g y x)) -> (r < N)%nat -> (c < N)%nat ->
  irfft2 N (dft2 N g) r c = Re (g r c).
Proof. exact (fun N g r c HN Hg Hr Hc => irfft2_dft2_real N HN g r c Hg Hr Hc). Qed.

(* conv_fft: irfft2(rfft2(image) * rfft2(psf)) is, pixel by pixel, the circular convolution of the two real arrays *)
Theorem C03_fft_convolution_is_spatial_convolution_2d : forall N a b r c, (0 < N)%nat ->
  (forall y x, is_real (a y x)) -> (forall y x, is_real (b y x)) -> (r < N)%nat -> (c < N)%nat ->
  irfft2 N (fun ky kx => Cmult (dft2 N a ky kx) (dft2 N b ky kx)) r c = Re (circ_conv2 N a b r c).
Proof. exact (fun N a b r c HN Ha Hb Hr Hc => irfft2_product_is_circ_conv2 N HN a b r c Ha Hb Hr Hc). Qed.

(* a unit of light at (row py, column px) reproduces the other array translated to that position: rows to rows,
   columns to columns, never mirrored or transposed *)
Theorem C03_impulse_convolution_is_shift_2d : forall N py px b r c, (0 < N)%nat -> (py < N)%nat -> (px < N)%nat ->
  circ_conv2 N (delta2 py px) b r c = b ((r + (N - py)) mod N)%nat ((c + (N - px)) mod N)%nat.
Proof. exact (fun N py px b r c HN Hy Hx => circ_conv2_delta N HN py px b r c Hy Hx). Qed.

(* --- the whole chain: PSF_fft = rfft2(psf, s = shape) * ramp_x * ramp_y (ramps regenerated from the source) --- *)

(* every pixel of conv_fft(scene) is sum_{y,x} scene[y,x] * psf[r - y + c0][col - x + c0] (circular indices, psf = the odd
   (2 c0 + 1)-stamp zero-padded to the frame): the scene convolved with the stamp as supplied, centred on its geometric
   centre entry, rows to rows and columns to columns *)
Theorem C03_model_is_scene_convolved_with_centred_psf : forall N a p c0 r c,
  (0 < N)%nat -> (forall y x, is_real (a y x)) -> (forall y x, is_real (p y x)) -> (r < N)%nat -> (c < N)%nat ->
  irfft2 N (fun ky kx => Cmult (dft2 N a ky kx)
              (Cmult (dft2 N p ky kx) (Cmult (cis (ramp_y_phase (INR (2 * c0 + 1)) (INR ky / INR N))) (cis (ramp_x_phase (INR (2 * c0 + 1)) (INR kx / INR N)))))) r c
  = Re (csum (fun y => csum (fun x => Cmult (a y x) (p (((r + (N - y)) mod N + c0) mod N)%nat (((c + (N - x)) mod N + c0) mod N)%nat)) N) N).
Proof. exact conv_chain_ramps. Qed.

(* rectangular odd stamps, (2 cy + 1) rows x (2 cx + 1) columns: the source evaluates the x ramp with the stamp's column count and
   the y ramp with its row count, so the stamp is centred on its entry [cy][cx] *)
Theorem C03_ramp_axes : ramp_x_size_axis = Cols /\ ramp_y_size_axis = Rows.
Proof. exact (conj eq_refl eq_refl). Qed.

Theorem C03_model_is_scene_convolved_with_centred_psf_rect : forall N a p cy cx r c,
  (0 < N)%nat -> (forall y x, is_real (a y x)) -> (forall y x, is_real (p y x)) -> (r < N)%nat -> (c < N)%nat ->
  irfft2 N (fun ky kx => Cmult (dft2 N a ky kx)
              (Cmult (dft2 N p ky kx) (Cmult (cis (ramp_y_phase (INR (2 * cy + 1)) (INR ky / INR N))) (cis (ramp_x_phase (INR (2 * cx + 1)) (INR kx / INR N)))))) r c
  = Re (csum (fun y => csum (fun x => Cmult (a y x) (p (((r + (N - y)) mod N + cy) mod N)%nat (((c + (N - x)) mod N + cx) mod N)%nat)) N) N).
Proof. exact conv_chain_ramps_rect. Qed.

(* a point of light on an integer pixel renders as the stamp centred on that pixel *)
Theorem C03_point_source_is_centred_stamp : forall N p c0 py px r c,
  (0 < N)%nat -> (forall y x, is_real (p y x)) -> (py < N)%nat -> (px < N)%nat -> (r < N)%nat -> (c < N)%nat ->
  irfft2 N (fun ky kx => Cmult (dft2 N (delta2 py px) ky kx)
              (Cmult (dft2 N p ky kx) (Cmult (cis (ramp_y_phase (INR (2 * c0 + 1)) (INR ky / INR N))) (cis (ramp_x_phase (INR (2 * c0 + 1)) (INR kx / INR N)))))) r c
  = Re (p (((r + (N - py)) mod N + c0) mod N)%nat (((c + (N - px)) mod N + c0) mod N)%nat).
Proof. exact point_source_is_centred_stamp. Qed.

(* jnp.fft.fftfreq lists the upper half of the frequencies as (k - N)/N: the ramps take the same value there *)
Theorem C03_ramp_negative_frequency : forall N c0 k, (0 < N)%nat ->
  cis (ramp_y_phase (INR (2 * c0 + 1)) ((INR k - INR N) / INR N)) = cis (ramp_y_phase (INR (2 * c0 + 1)) (INR k / INR N)) /\
  cis (ramp_x_phase (INR (2 * c0 + 1)) ((INR k - INR N) / INR N)) = cis (ramp_x_phase (INR (2 * c0 + 1)) (INR k / INR N)).
Proof. exact ramp_negative_frequency. Qed.

Print Assumptions C03_convolution_theorem_2d.
Print Assumptions C03_irfft2_inverts_rfft2.
Print Assumptions C03_fft_convolution_is_spatial_convolution_2d.
Print Assumptions C03_impulse_convolution_is_shift_2d.
Print Assumptions C03_model_is_scene_convolved_with_centred_psf.
Print Assumptions C03_point_source_is_centred_stamp.
Print Assumptions C03_ramp_negative_frequency.
Print Assumptions C03_ramp_axes.
Print Assumptions C03_model_is_scene_convolved_with_centred_psf_rect.

(* Property C04 - pixel, Fourier and hybrid renderers agree with each other and
   with the truth.  Statements only (the structural reasons of the agreement);
   proofs in Proofs/AgreementProofs.v and Proofs/OptionsProofs.v over definitions
   REGENERATED from rendering.py.  The numerical error bands of the property are
   NOT theorems: they are checked by the implementation-side oracle only. *)
From Coq Require Import Reals List.
From PS Require Import Base.RBase Gen.Formulas Gen.Amps Proofs.SymmetryProofs Proofs.AgreementProofs Proofs.OptionsProofs.
Import ListNotations.
Open Scope R_scope.

(* the PSF broadening of a real-space component ADDS the PSF variance to both principal variances *)
Theorem C04_hybrid_broadening_is_covariance_sum : forall e sigma s, 0 < sigma ->
  sigma_obs sigma s ^ 2 = sigma ^ 2 + s ^ 2 /\
  q_obs e sigma s ^ 2 * sigma_obs sigma s ^ 2 = (1 - e) ^ 2 * sigma ^ 2 + s ^ 2.
Proof. intros e sigma s H. exact (conj (sigma_obs_sq sigma s) (q_obs_sq e sigma s H)). Qed.

(* so the component drawn in real space is the Gaussian of covariance R diag(sigma^2, q^2 sigma^2) R^T + s^2 I:
   exactly the continuous convolution of Fourier component k with a circular Gaussian PSF of width s *)
Theorem C04_hybrid_component_covariance : forall xc yc a e sigma s t w, 0 < sigma -> 0 < 1 - e ->
  gauss_pixel_exponent (xc - w * sin t) (yc + w * cos t) a (sigma_obs sigma s) xc yc t (q_obs e sigma s)
    = - (w ^ 2) / (2 * (sigma ^ 2 + s ^ 2)) /\
  gauss_pixel_exponent (xc + w * cos t) (yc + w * sin t) a (sigma_obs sigma s) xc yc t (q_obs e sigma s)
    = - (w ^ 2) / (2 * ((1 - e) ^ 2 * sigma ^ 2 + s ^ 2)).
Proof. exact hybrid_component_covariance. Qed.

(* the two renderers share the decomposition; they differ only in where components n_sigma-m .. n_sigma-1 are evaluated *)
Theorem C04_hybrid_partition : forall n m, (m <= n)%nat ->
  (w_fourier n m ++ w_real n m = seq 0 n /\ NoDup (w_fourier n m ++ w_real n m)) /\
  (w_real n 0 = [] /\ w_fourier n 0 = seq 0 n).
Proof. intros n m H. exact (conj (hybrid_partition n m H) (hybrid_m0_is_fourier n)). Qed.

(* a table built at flux = r_eff = 1 serves every flux and radius *)
Theorem C04_decomposition_scale_covariant : forall lg x flux re n, 0 < re -> 0 < n ->
  sersic1d lg (re * x) flux re n = flux / re ^ 2 * sersic1d lg x 1 1 n.
Proof. exact sersic1d_scale_covariant. Qed.

(* the interpolated table reproduces the direct decomposition at the tabulated indices (exact arithmetic) *)
Theorem C04_interp_at_knots : forall f0 f1 d0 d1 h an,
  (hermite f0 f1 d0 d1 h 0 = f0 /\ hermite f0 f1 d0 d1 h 1 = f1) /\ amps_interp an 1 = an.
Proof. intros. exact (conj (hermite_at_knots f0 f1 d0 d1 h) (amps_at_unit_flux an)). Qed.

(* the same fact in Fourier space, on the generated Fourier kernel: the transform of the component drawn in real space is
   the Fourier renderer's component times exp(-2 pi^2 s^2 |f|^2), the transfer function of a circular Gaussian PSF of width s *)
Theorem C04_hybrid_component_is_fourier_component_times_gaussian_psf : forall FX FY a sigma s xc yc t e, 0 < sigma ->
  gauss_fourier_logamp FX FY a (sigma_obs sigma s) xc yc t (q_obs e sigma s)
  = gauss_fourier_logamp FX FY a sigma xc yc t (1 - e) + - (2 * PI * PI * (s * s)) * (FX * FX + FY * FY).
Proof. exact hybrid_component_is_fourier_times_gaussian_psf. Qed.

Print Assumptions C04_hybrid_broadening_is_covariance_sum.
Print Assumptions C04_hybrid_component_covariance.
Print Assumptions C04_hybrid_partition.
Print Assumptions C04_decomposition_scale_covariant.
Print Assumptions C04_interp_at_knots.
Print Assumptions C04_hybrid_component_is_fourier_component_times_gaussian_psf.

(* Property C05 - the posterior density is prior x likelihood of
   (rendered sources + sky).  Statements only; proofs in Proofs/PosteriorProofs.v
   over units REGENERATED from pysersic.py / priors.py / loss.py / rendering.py. *)
From Coq Require Import Reals List String Bool.
From PS Require Import Base.RBase Base.PyStr Base.Dist Base.LossModel
     Gen.ProfileParams Gen.GeneratePrior Gen.Losses Gen.Sky Gen.BuildModel Gen.RenderGlue Gen.PriorHelpers
     Proofs.AutoPriorProofs Proofs.PriorProofs Proofs.PosteriorProofs.
Import ListNotations.
Open Scope string_scope.

(* every prior parameter reaches the renderer under its own name, for EVERY suffix string *)
Theorem C05_single_names_consumed : forall sfx p, stripped sfx (p ++ sfx) = p.
Proof. exact single_names_consumed. Qed.

Theorem C05_multi_names_consumed :
  render_for_model_key_is_source_key = true /\ multi_prior_suffix_is_underscore_index_suffix = true /\
  render_for_model_accumulates_all_sources = true /\
  forall p i p' i' sfx, source_key p i sfx = source_key p' i' sfx -> p = p' /\ i = i'.
Proof. exact multi_names_consumed. Qed.

(* nothing else enters: the latent sites are the prior's parameters, the sky parameters and the loss's own nuisances *)
Theorem C05_latents_exact : forall T sky L sfx,
  map fst (filter is_latent (single_fit_sites T sky L sfx)) =
  List.app (map (fun n => n ++ sfx ++ "_base") (lookup T profile_params_rendering))
   (List.app (map (fun n => n ++ sfx ++ "_base") (lookup sky sky_params))
             (map (fun nd => fst nd ++ sfx) (lm_latents L))).
Proof. exact single_latents_exact. Qed.

(* joint log-density = priors + sky priors + nuisance priors + per-pixel likelihood of data given
   render + sky with sigma = rms over unmasked pixels *)
Theorem C05_posterior_factorises :
  forall (pixel : Type) (pixels : list pixel) data rms render sky good lat lp_lat prior_lp sky_lp L,
  fit_logdens pixel pixels data rms render sky good lat lp_lat prior_lp sky_lp L =
  (prior_lp + sky_lp + latent_logdens lat lp_lat L +
   sum_over pixel pixels (fun p => if (negb (lm_masked L) || good p)%bool
                                   then lm_logp L (data p) (rms p) (render p + sky p) (mean_rms pixel pixels rms good (lm_mean L)) lat else 0))%R.
Proof. exact posterior_factorises. Qed.

Theorem C05_loss_call_arguments :
  loss_args = ["obs"; "self.data"; "self.rms"; "self.mask"] /\ model_site_prefix = "model".
Proof. exact loss_call_arguments. Qed.

(* re-parameterised priors change the joint density by a constant only (from C11) *)
Theorem C05_reparam_constant : forall Phi d loc scale z, scale <> 0%R ->
  (pushed_lpdf Phi (d, loc, scale) (exposed (d, loc, scale) z) - base_lpdf Phi d z = - ln (Rabs scale))%R.
Proof. exact reparam_constant_jacobian. Qed.

Example ex_strip : stripped "_1" "f_1_1" = "f_1".
Proof. vm_compute. reflexivity. Qed.

Print Assumptions C05_single_names_consumed.
Print Assumptions C05_multi_names_consumed.
Print Assumptions C05_latents_exact.
Print Assumptions C05_posterior_factorises.
Print Assumptions C05_loss_call_arguments.
Print Assumptions C05_reparam_constant.

(* Property C06 - masked pixels carry no information; polarity 'True = ignore'.
   Statements only; proofs in Proofs/LossProofs.v and Base/LossModel.v, over the
   loss models, the mask ingestion and the build_model data flow REGENERATED
   from loss.py / pysersic.py. *)
From Coq Require Import Reals List String Bool.
From Coquelicot Require Import Coquelicot.
From PS Require Import Base.RBase Base.Dist Base.LossModel Base.InputModel Gen.Losses Gen.InputChecks Gen.BuildModel Proofs.LossProofs.
Import ListNotations.
Open Scope R_scope.

(* for EVERY loss: images that agree on the good pixels give the same log-density *)
Theorem C06_masked_pixels_carry_no_information :
  forall (pixel : Type) name L (pixels : list pixel) data rms mdl data' rms' mdl' good lat lp_lat,
  In (name, L) all_losses ->
  (forall p, In p pixels -> good p = true -> data p = data' p /\ rms p = rms' p /\ mdl p = mdl' p) ->
  loss_logdens pixel pixels data rms mdl good lat lp_lat L =
  loss_logdens pixel pixels data' rms' mdl' good lat lp_lat L.
Proof. exact (@mask_safe_every_loss). Qed.

Theorem C06_every_loss_mask_safe : forallb (fun nl => mask_safe (snd nl)) all_losses = true.
Proof. exact all_losses_mask_safe. Qed.

(* replacing data, rms and model at a masked pixel by ANY values changes nothing ... *)
Theorem C06_masked_pixel_irrelevant :
  forall name L (pixels : list nat) data rms mdl good lat lp_lat p0 v w z v' w' z',
  In (name, L) all_losses -> good p0 = false ->
  loss_logdens nat pixels (upd data p0 v) (upd rms p0 w) (upd mdl p0 z) good lat lp_lat L =
  loss_logdens nat pixels (upd data p0 v') (upd rms p0 w') (upd mdl p0 z') good lat lp_lat L.
Proof. exact masked_pixel_irrelevant. Qed.

(* ... and the derivative with respect to each of them is identically zero *)
Theorem C06_masked_pixel_zero_gradient :
  forall name L (pixels : list nat) data rms mdl good lat lp_lat p0 x,
  In (name, L) all_losses -> good p0 = false ->
  is_derive (fun v => loss_logdens nat pixels (upd data p0 v) rms mdl good lat lp_lat L) x 0 /\
  is_derive (fun w => loss_logdens nat pixels data (upd rms p0 w) mdl good lat lp_lat L) x 0 /\
  is_derive (fun z => loss_logdens nat pixels data rms (upd mdl p0 z) good lat lp_lat L) x 0.
Proof. exact masked_pixel_zero_gradient. Qed.

(* polarity: the fitter stores good = logical_not(user mask != 0), all True when no mask
   is given, and hands exactly that array to the loss as its `mask` argument *)
Theorem C06_polarity :
  parse_mask_absent_all_good = true /\ parse_mask_good_is_not_marked = true /\
  In (Mask, ParseMask Mask) ingest_plan /\
  loss_args = ["obs"; "self.data"; "self.rms"; "self.mask"]%string.
Proof. exact polarity. Qed.

(* with no mask every pixel is used *)
Theorem C06_no_mask_all_used : forall (pixel : Type) L (pixels : list pixel) data rms mdl lat,
  pixel_logdens pixel pixels data rms mdl (fun _ => true) lat L =
  sum_over pixel pixels (fun p => lm_logp L (data p) (rms p) (mdl p) (mean_rms pixel pixels rms (fun _ => true) (lm_mean L)) lat).
Proof. exact (@all_good_all_used). Qed.

(* an unmasked pixel does matter (Gaussian family): two data values with different per-pixel terms *)
Theorem C06_unmasked_sensitive_gaussian : forall m s, 0 < s -> normal_lpdf m m s <> normal_lpdf (m + s) m s.
Proof. exact normal_lpdf_sensitive. Qed.

Print Assumptions C06_masked_pixels_carry_no_information.
Print Assumptions C06_every_loss_mask_safe.
Print Assumptions C06_masked_pixel_irrelevant.
Print Assumptions C06_masked_pixel_zero_gradient.
Print Assumptions C06_polarity.
Print Assumptions C06_no_mask_all_used.
Print Assumptions C06_unmasked_sensitive_gaussian.

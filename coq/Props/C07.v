(* Property C07 - each loss function is the likelihood its documentation states.
   Statements only; proofs in Proofs/LossProofs.v over the loss models
   REGENERATED from pysersic/loss.py (per-pixel log term `*_logp d s m mean lat`
   with d = data, s = rms, m = model pixel). *)
From Coq Require Import Reals List String Bool.
From PS Require Import Base.RBase Base.Dist Base.LossModel Gen.Losses Proofs.LossProofs.
Import ListNotations.
Open Scope R_scope.

Theorem C07_gaussian : forall d s m mr lat,
  gaussian_loss_logp d s m mr lat = - (d - m) ^ 2 / (2 * s ^ 2) - ln s - ln (2 * PI) / 2.
Proof. exact gaussian_formula. Qed.

Theorem C07_gaussian_w_frac : forall d s m mr lat,
  gaussian_loss_w_frac_logp d s m mr lat = normal_lpdf d m ((1 + lat "frac_rms_increase"%string) * s) /\
  lm_latents gaussian_loss_w_frac_model = [("frac_rms_increase"%string, LTruncNormal 0 1 (Some (-1 / 2)) (Some 2))].
Proof. exact gaussian_w_frac_formula. Qed.

Theorem C07_gaussian_w_sys : forall d s m mr lat,
  gaussian_loss_w_sys_logp d s m mr lat = normal_lpdf d m (sqrt (s ^ 2 + (lat "sys_rms_base"%string * mr) ^ 2)) /\
  lm_latents gaussian_loss_w_sys_model = [("sys_rms_base"%string, LTruncNormal 0 1 (Some 0) None)].
Proof. exact gaussian_w_sys_formula. Qed.

Theorem C07_cash : forall d s m mr lat, cash_loss_logp d s m mr lat = - (m - d * ln m).
Proof. exact cash_formula. Qed.

(* - delta^2 (sqrt(1 + (r/delta)^2) - 1), r = (d - m)/rms, delta = 3 *)
Theorem C07_pseudo_huber : forall d s m mr lat,
  pseudo_huber_loss_logp d s m mr lat = - (3 ^ 2 * (sqrt (1 + (((d - m) / s) / 3) ^ 2) - 1)).
Proof. exact pseudo_huber_formula. Qed.

Theorem C07_student_t : forall d s m mr lat,
  student_t_loss_logp d s m mr lat = student_t5_lpdf d m (t_scale_const * s).
Proof. exact student_t_formula. Qed.

Theorem C07_student_t_free_sys : forall d s m mr lat,
  student_t_loss_free_sys_logp d s m mr lat =
  student_t5_lpdf d m (t_scale_const * sqrt (s ^ 2 + (lat "sys_rms_base"%string * mr) ^ 2)) /\
  lm_latents student_t_loss_free_sys_model = [("sys_rms_base"%string, LTruncNormal 0 1 (Some 0) None)].
Proof. exact student_t_free_sys_formula. Qed.

Theorem C07_student_t_structure :
  0 < t_scale_const /\
  (forall u loc scale, student_t5_lpdf (loc + u) loc scale = student_t5_lpdf (loc - u) loc scale) /\
  (forall x loc scale, student_t5_lpdf x loc scale = t5_lnorm - ln scale - 3 * ln (1 + ((x - loc) / scale) ^ 2 / 5)).
Proof. exact (conj t_scale_const_pos (conj student_t5_symmetric student_t5_standardised)). Qed.

Theorem C07_mixture : forall d s m mr lat,
  gaussian_mixture_logp d s m mr lat =
  ln ((1 - lat "outlier_frac_base"%string * (1 / 20)) * exp (normal_lpdf d m s) +
      lat "outlier_frac_base"%string * (1 / 20) * exp (normal_lpdf d m (5 * s))) /\
  lm_latents gaussian_mixture_model = [("outlier_frac_base"%string, LTruncNormal 0 1 (Some 0) (Some 5))].
Proof. exact mixture_formula. Qed.

Theorem C07_mixture_w_sys : forall d s m mr lat,
  let s' := sqrt (s ^ 2 + (lat "sys_rms_base"%string * mr) ^ 2) in
  gaussian_mixture_w_sys_logp d s m mr lat =
  mixture2_lpdf d (lat "outlier_frac_base"%string * (1 / 20)) m s' (5 * s') /\
  lm_latents gaussian_mixture_w_sys_model =
    [("outlier_frac_base"%string, LTruncNormal 0 1 (Some 0) (Some 5)); ("sys_rms_base"%string, LTruncNormal 0 1 (Some 0) None)].
Proof. exact mixture_w_sys_formula. Qed.

Theorem C07_mixture_w_frac : forall d s m mr lat,
  gaussian_mixture_w_frac_logp d s m mr lat =
  mixture2_lpdf d (lat "outlier_frac_base"%string * (1 / 20)) m ((1 + lat "rms_frac"%string) * s) (5 * s) /\
  lm_latents gaussian_mixture_w_frac_model =
    [("outlier_frac_base"%string, LTruncNormal 0 1 (Some 0) (Some 5));
     ("rms_frac"%string, LTruncNormal 0 (1 / 2) (Some (-2 / 3)) (Some 2))].
Proof. exact mixture_w_frac_formula. Qed.

Theorem C07_outlier_support : forall b,
  in_support (LTruncNormal 0 1 (Some 0) (Some 5)) b -> 0 <= b * (1 / 20) <= 1 / 4.
Proof. exact outlier_support. Qed.

Theorem C07_all_losses_listed :
  map fst all_losses =
  ["gaussian_loss"; "cash_loss"; "gaussian_loss_w_frac"; "gaussian_loss_w_sys"; "student_t_loss";
   "student_t_loss_free_sys"; "pseudo_huber_loss"; "gaussian_mixture"; "gaussian_mixture_w_sys"; "gaussian_mixture_w_frac"]%string.
Proof. exact all_losses_names. Qed.

Print Assumptions C07_gaussian.
Print Assumptions C07_gaussian_w_frac.
Print Assumptions C07_gaussian_w_sys.
Print Assumptions C07_cash.
Print Assumptions C07_pseudo_huber.
Print Assumptions C07_student_t.
Print Assumptions C07_student_t_free_sys.
Print Assumptions C07_student_t_structure.
Print Assumptions C07_mixture.
Print Assumptions C07_mixture_w_sys.
Print Assumptions C07_mixture_w_frac.
Print Assumptions C07_outlier_support.
Print Assumptions C07_all_losses_listed.

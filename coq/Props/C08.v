(* Property C08 - rendering is linear in flux and additive over components and
   sources.  Statements only; proofs in Proofs/RenderAlgebra.v over kernels,
   composite-profile wiring and scene assembly REGENERATED from rendering.py. *)
From Coq Require Import Reals List String Bool.
From Coquelicot Require Import Coquelicot.
From PS Require Import Base.RBase Base.Dft Base.Dft2 Gen.Formulas Gen.RenderGlue Gen.Amps Proofs.RenderAlgebra Proofs.ConvSymmetry.
Import ListNotations.
Open Scope R_scope.

(* every evaluation kernel is linear in its flux / amplitude argument, for ALL real factors a *)
Theorem C08_sersic2d_flux_linear : forall lg X Y xc yc a flux r n e t,
  sersic2d lg X Y xc yc (a * flux) r n e t = a * sersic2d lg X Y xc yc flux r n e t.
Proof. exact sersic2d_flux_linear. Qed.

Theorem C08_gauss_fourier_linear : forall K FX FY a amps sig xc yc t q,
  gauss_fourier_re K FX FY (fun k => a * amps k) sig xc yc t q = a * gauss_fourier_re K FX FY amps sig xc yc t q /\
  gauss_fourier_im K FX FY (fun k => a * amps k) sig xc yc t q = a * gauss_fourier_im K FX FY amps sig xc yc t q.
Proof. exact gauss_fourier_linear. Qed.

Theorem C08_gauss_pixel_linear : forall K X Y a amps sig xc yc t q,
  gauss_pixel K X Y (fun k => a * amps k) sig xc yc t q = a * gauss_pixel K X Y amps sig xc yc t q.
Proof. exact gauss_pixel_linear. Qed.

Theorem C08_ps_fourier_linear : forall FX FY xc yc a flux,
  ps_fourier_re FX FY xc yc (a * flux) = a * ps_fourier_re FX FY xc yc flux /\
  ps_fourier_im FX FY xc yc (a * flux) = a * ps_fourier_im FX FY xc yc flux.
Proof. exact ps_fourier_linear. Qed.

Theorem C08_amps_linear : forall an a flux, amps_interp an (a * flux) = a * amps_interp an flux.
Proof. exact amps_linear. Qed.

Theorem C08_sersic1d_flux_linear : forall lg r a flux re n,
  sersic1d lg r (a * flux) re n = a * sersic1d lg r flux re n.
Proof. exact sersic1d_flux_linear. Qed.

(* composite profiles: two components with fractions f and 1-f of the flux at the same centre and angle *)
Theorem C08_doublesersic : forall xc yc flux f_1 r1 n1 e1 r2 n2 e2 theta,
  components_doublesersic xc yc flux f_1 r1 n1 e1 r2 n2 e2 theta =
  [CSersic xc yc (flux * f_1) r1 n1 e1 theta; CSersic xc yc (flux * (1 - f_1)) r2 n2 e2 theta].
Proof. exact doublesersic_components. Qed.

Theorem C08_sersic_exp : forall xc yc flux f_1 r1 e1 r2 n e2 theta,
  components_sersic_exp xc yc flux f_1 r1 e1 r2 n e2 theta =
  [CSersic xc yc (flux * f_1) r1 n e1 theta; CSersic xc yc (flux * (1 - f_1)) r2 1 e2 theta].
Proof. exact sersic_exp_components. Qed.

Theorem C08_sersic_pointsource : forall xc yc flux f_ps r n e theta,
  components_sersic_pointsource xc yc flux f_ps r n e theta =
  [CSersic xc yc ((1 - f_ps) * flux) r n e theta; CPoint xc yc (f_ps * flux)].
Proof. exact sersic_pointsource_components. Qed.

(* exp and dev are the Sersic profile at n = 1 and n = 4 *)
Theorem C08_exp_dev_are_sersic : forall xc yc flux r e theta,
  components_exp xc yc flux r e theta = [CSersic xc yc flux r 1 e theta] /\
  components_dev xc yc flux r e theta = [CSersic xc yc flux r 4 e theta] /\
  components_sersic xc yc flux r 1 e theta = components_exp xc yc flux r e theta /\
  components_sersic xc yc flux r 4 e theta = components_dev xc yc flux r e theta.
Proof. exact exp_dev_are_sersic. Qed.

(* scene of several sources = sum of the individually rendered sources (any catalogue, any order),
   for any image algebra in which the two convolution operators are additive *)
Theorem C08_scene_additive :
  forall (img : Type) (zero : img) (add : img -> img -> img),
  (forall a, add zero a = a) -> (forall a b c, add (add a b) c = add a (add b c)) -> (forall a b, add a b = add b a) ->
  forall (prim : comp -> img * img * img) (conv_fft conv_img : img -> img),
  (forall a b, conv_fft (add a b) = add (conv_fft a) (conv_fft b)) ->
  (forall a b, conv_img (add a b) = add (conv_img a) (conv_img b)) ->
  conv_fft zero = zero -> conv_img zero = zero ->
  forall sources,
  render_scene img zero add prim conv_fft conv_img sources =
  fold_left add (map (render_one img zero add prim conv_fft conv_img) sources) zero.
Proof. exact scene_additive. Qed.

Theorem C08_composite_additive :
  forall (img : Type) (zero : img) (add : img -> img -> img),
  (forall a, add zero a = a) -> (forall a b c, add (add a b) c = add a (add b c)) -> (forall a b, add a b = add b a) ->
  forall (prim : comp -> img * img * img) (conv_fft conv_img : img -> img),
  (forall a b, conv_fft (add a b) = add (conv_fft a) (conv_fft b)) ->
  (forall a b, conv_img (add a b) = add (conv_img a) (conv_img b)) ->
  conv_fft zero = zero -> conv_img zero = zero ->
  forall cs,
  render_one img zero add prim conv_fft conv_img cs =
  fold_left add (map (fun c => observe img add conv_fft conv_img (prim c)) cs) zero.
Proof. exact composite_additive. Qed.

Theorem C08_glue_flags :
  render_for_model_accumulates_all_sources = true /\ render_for_model_key_is_source_key = true.
Proof. exact glue_flags. Qed.

(* image level: the PSF convolution step (circular convolution = what irfft2(rfft2 . * PSF_fft) computes, C03) is bilinear,
   so additivity over components / sources and linearity in flux pass through it, for every frame size and all arrays *)
Theorem C08_convolution_additive : forall N a1 a2 b r c,
  circ_conv2 N (fun y x => Cplus (a1 y x) (a2 y x)) b r c = Cplus (circ_conv2 N a1 b r c) (circ_conv2 N a2 b r c).
Proof. exact circ_conv2_plus_l. Qed.

Theorem C08_convolution_linear : forall N k a b r c,
  circ_conv2 N (fun y x => Cmult k (a y x)) b r c = Cmult k (circ_conv2 N a b r c).
Proof. exact circ_conv2_scal_l. Qed.

Print Assumptions C08_sersic2d_flux_linear.
Print Assumptions C08_gauss_fourier_linear.
Print Assumptions C08_gauss_pixel_linear.
Print Assumptions C08_ps_fourier_linear.
Print Assumptions C08_amps_linear.
Print Assumptions C08_sersic1d_flux_linear.
Print Assumptions C08_doublesersic.
Print Assumptions C08_sersic_exp.
Print Assumptions C08_sersic_pointsource.
Print Assumptions C08_exp_dev_are_sersic.
Print Assumptions C08_scene_additive.
Print Assumptions C08_composite_additive.
Print Assumptions C08_glue_flags.
Print Assumptions C08_convolution_additive.
Print Assumptions C08_convolution_linear.

(* Property C09 - rendering respects the symmetries of the model.  Statements
   only; proofs in Proofs/SymmetryProofs.v over the three evaluation kernels
   REGENERATED from rendering.py.  Pointwise statements: X = column, Y = row.
   Image level (last two theorems): the PSF convolution step (circular convolution, which C03 proves is what
   irfft2(rfft2 . * rfft2 .) computes) commutes with whole-pixel translations and with transposition. *)
From Coq Require Import Reals.
From Coquelicot Require Import Coquelicot.
From PS Require Import Base.RBase Base.Dft Base.Dft2 Gen.Formulas Proofs.SymmetryProofs Proofs.ConvSymmetry Proofs.ConvChain.
Open Scope R_scope.

(* ---- theta + pi ---- *)
Theorem C09_theta_pi : forall lg X Y xc yc f r n e t a sg q FX FY,
  sersic2d lg X Y xc yc f r n e (t + PI) = sersic2d lg X Y xc yc f r n e t /\
  gauss_pixel_comp X Y a sg xc yc (t + PI) q = gauss_pixel_comp X Y a sg xc yc t q /\
  gauss_fourier_logamp FX FY a sg xc yc (t + PI) q = gauss_fourier_logamp FX FY a sg xc yc t q.
Proof. intros. exact (conj (sersic2d_theta_pi _ _ _ _ _ _ _ _ _ _) (conj (gauss_pixel_theta_pi _ _ _ _ _ _ _ _) (logamp_theta_pi _ _ _ _ _ _ _ _))). Qed.

(* ---- ellip = 0 (q = 1): no dependence on theta ---- *)
Theorem C09_round_independent_of_theta : forall lg X Y xc yc f r n t t' a sg FX FY,
  sersic2d lg X Y xc yc f r n 0 t = sersic2d lg X Y xc yc f r n 0 t' /\
  gauss_pixel_comp X Y a sg xc yc t 1 = gauss_pixel_comp X Y a sg xc yc t' 1 /\
  gauss_fourier_logamp FX FY a sg xc yc t 1 = gauss_fourier_logamp FX FY a sg xc yc t' 1.
Proof.
  intros. split; [apply sersic2d_round|]. split; [apply gauss_pixel_round|]. rewrite !logamp_round. reflexivity.
Qed.

(* ---- transpose: swap the axes, swap xc and yc, theta -> pi/2 - theta ---- *)
Theorem C09_transpose : forall lg X Y xc yc f r n e t a sg q FX FY,
  sersic2d lg Y X yc xc f r n e (PI / 2 - t) = sersic2d lg X Y xc yc f r n e t /\
  gauss_pixel_comp Y X a sg yc xc (PI / 2 - t) q = gauss_pixel_comp X Y a sg xc yc t q /\
  gauss_fourier_logamp FY FX a sg yc xc (PI / 2 - t) q = gauss_fourier_logamp FX FY a sg xc yc t q.
Proof. intros. exact (conj (sersic2d_transpose _ _ _ _ _ _ _ _ _ _) (conj (gauss_pixel_transpose _ _ _ _ _ _ _ _) (logamp_transpose _ _ _ _ _ _ _ _))). Qed.

(* ---- mirror: X -> N-1-X, xc -> N-1-xc, theta -> -theta ---- *)
Theorem C09_mirror : forall lg N X Y xc yc f r n e t a sg q FX FY,
  sersic2d lg (N - 1 - X) Y (N - 1 - xc) yc f r n e (- t) = sersic2d lg X Y xc yc f r n e t /\
  gauss_pixel_comp (N - 1 - X) Y a sg (N - 1 - xc) yc (- t) q = gauss_pixel_comp X Y a sg xc yc t q /\
  gauss_fourier_logamp (- FX) FY a sg xc yc (- t) q = gauss_fourier_logamp FX FY a sg xc yc t q.
Proof. intros. exact (conj (sersic2d_mirror _ _ _ _ _ _ _ _ _ _ _) (conj (gauss_pixel_mirror _ _ _ _ _ _ _ _ _) (logamp_mirror _ _ _ _ _ _ _ _))). Qed.

(* ---- translation: moving the source by (da, db) moves the real-space kernels, and multiplies the
   Fourier components by the shift phase exp(-2 pi i (FX da + FY db)) ---- *)
Theorem C09_translation_real : forall lg da db X Y xc yc f r n e t a sg q,
  sersic2d lg (X + da) (Y + db) (xc + da) (yc + db) f r n e t = sersic2d lg X Y xc yc f r n e t /\
  gauss_pixel_comp (X + da) (Y + db) a sg (xc + da) (yc + db) t q = gauss_pixel_comp X Y a sg xc yc t q.
Proof. intros. exact (conj (sersic2d_translate _ _ _ _ _ _ _ _ _ _ _ _) (gauss_pixel_translate _ _ _ _ _ _ _ _ _ _)). Qed.

Theorem C09_translation_fourier : forall FX FY a sg xc yc t q da db,
  let d := 2 * PI * (FX * da + FY * db) in
  gauss_fourier_comp_re FX FY a sg (xc + da) (yc + db) t q =
    gauss_fourier_comp_re FX FY a sg xc yc t q * cos d + gauss_fourier_comp_im FX FY a sg xc yc t q * sin d /\
  gauss_fourier_comp_im FX FY a sg (xc + da) (yc + db) t q =
    gauss_fourier_comp_im FX FY a sg xc yc t q * cos d - gauss_fourier_comp_re FX FY a sg xc yc t q * sin d.
Proof. exact fourier_translate. Qed.

(* ---- angles congruent modulo pi describe the same kernel (posterior wrap of C19) ---- *)
Theorem C09_theta_mod_pi : forall X Y xc yc r e t (k : nat),
  sersic2d_zsq X Y xc yc r e (t + INR k * PI) = sersic2d_zsq X Y xc yc r e t.
Proof. exact zsq_theta_kpi. Qed.

(* ---- image level: the convolution step is covariant ---- *)
(* translating the intrinsic scene by (sy, sx) whole pixels translates the PSF-convolved image by the same amount *)
Theorem C09_convolution_commutes_with_translation : forall N a b sy sx r c,
  (0 < N)%nat -> (sy < N)%nat -> (sx < N)%nat -> (r < N)%nat -> (c < N)%nat ->
  circ_conv2 N (shift2 N sy sx a) b r c = shift2 N sy sx (circ_conv2 N a b) r c.
Proof. exact (fun N a b sy sx r c HN H1 H2 H3 H4 => circ_conv2_shift N HN a b sy sx r c H1 H2 H3 H4). Qed.

(* transposing the intrinsic scene and the PSF transposes the convolved image *)
Theorem C09_convolution_commutes_with_transpose : forall N a b r c,
  circ_conv2 N (transpose2 a) (transpose2 b) r c = transpose2 (circ_conv2 N a b) r c.
Proof. exact circ_conv2_transpose. Qed.

(* mirroring the scene (X -> N-1-X) and the PSF stamp (about its own centre column) mirrors the PSF-convolved image; the
   convolution is taken in the centred form that C03 proves conv_fft computes for odd stamps (2 c0 + 1 <= N) *)
Theorem C09_convolution_commutes_with_mirror : forall N c0 a p r c, (0 < N)%nat -> (2 * c0 + 1 <= N)%nat -> (c < N)%nat ->
  conv_centred N c0 (mirror_x N a) (mirror_stamp N c0 p) r c = mirror_x N (conv_centred N c0 a p) r c.
Proof. exact conv_centred_mirror. Qed.

Print Assumptions C09_theta_pi.
Print Assumptions C09_round_independent_of_theta.
Print Assumptions C09_transpose.
Print Assumptions C09_mirror.
Print Assumptions C09_translation_real.
Print Assumptions C09_translation_fourier.
Print Assumptions C09_theta_mod_pi.
Print Assumptions C09_convolution_commutes_with_translation.
Print Assumptions C09_convolution_commutes_with_transpose.
Print Assumptions C09_convolution_commutes_with_mirror.

(* Property C10 - model and gradients are finite everywhere in the prior support.
   Statements only; proofs in Proofs/ADSafety.v over the DEEP terms regenerated from
   rendering.py.  `ad_safe` (Base/RExpr.v): every primitive is evaluated strictly inside
   the domain where its local partials are finite, and BOTH branches of every
   jnp.where are.  (That ad_safe implies finite reverse-mode gradients is the modelled
   semantics of JAX AD: trusted, exercised by the implementation-side lattice oracle.) *)
From Coq Require Import Reals String.
From PS Require Import Base.RBase Base.RExpr Gen.Formulas Gen.DeepFormulas Proofs.ADSafety.
Open Scope R_scope.

(* the analysed term IS the kernel the other properties reason about *)
Theorem C10_deep_is_shallow : forall lg X Y xc yc flux r n e t,
  eval (env9 X Y xc yc flux r n e t) lg sersic2d_deep = sersic2d lg X Y xc yc flux r n e t.
Proof. exact sersic2d_deep_eval. Qed.

(* pixel renderer kernel: every sample point and every centre - including centres ON a sample point -
   every angle and flux; r_eff >= 1/2, 0 <= ellip <= 9/10, n >= 13/20 *)
Theorem C10_sersic2d_ad_safe : forall lg X Y xc yc flux r n e t,
  1 / 2 <= r -> 0 <= e <= 9 / 10 -> 13 / 20 <= n ->
  ad_safe (env9 X Y xc yc flux r n e t) lg sersic2d_deep.
Proof. exact sersic2d_ad_safe. Qed.

(* Fourier kernels: unconditionally safe *)
Theorem C10_fourier_ad_safe : forall lg FX FY a sg xc yc t q f,
  (ad_safe (env8 FX FY a sg xc yc t q) lg gauss_fourier_comp_re_deep /\
   ad_safe (env8 FX FY a sg xc yc t q) lg gauss_fourier_comp_im_deep) /\
  (ad_safe (env5 FX FY xc yc f) lg ps_fourier_re_deep /\ ad_safe (env5 FX FY xc yc f) lg ps_fourier_im_deep).
Proof. intros. exact (conj (gauss_fourier_ad_safe lg FX FY a sg xc yc t q) (ps_fourier_ad_safe lg FX FY xc yc f)). Qed.

(* hybrid renderer: real-space components, PSF broadening (any s_psf, even 0) and the logspace of the widths *)
Theorem C10_hybrid_ad_safe : forall lg X Y a sg xc yc t q e s r fs fe,
  0 < sg -> 0 < q -> 0 <= e <= 9 / 10 -> 1 / 2 <= r -> 0 < fs -> 0 < fe ->
  ad_safe (env8p X Y a sg xc yc t q) lg gauss_pixel_comp_deep /\
  (ad_safe (env3 e sg s) lg sigma_obs_deep /\ ad_safe (env3 e sg s) lg q_obs_deep) /\
  (ad_safe (env_ls r fs fe) lg logspace_lo_deep /\ ad_safe (env_ls r fs fe) lg logspace_hi_deep).
Proof.
  intros lg X Y a sg xc yc t q e s r fs fe H1 H2 H3 H4 H5 H6.
  exact (conj (gauss_pixel_ad_safe lg X Y a sg xc yc t q H1 H2)
              (conj (hybrid_broadening_ad_safe lg e sg s H3 H1) (logspace_ad_safe lg r fs fe H4 H5 H6))).
Qed.

Print Assumptions C10_deep_is_shallow.
Print Assumptions C10_sersic2d_ad_safe.
Print Assumptions C10_fourier_ad_safe.
Print Assumptions C10_hybrid_ad_safe.

(* Property C11 - prior-setting helpers install exactly the stated distribution.
   Statements only; proofs in Proofs/PriorProofs.v over the helper definitions
   REGENERATED from priors.py.  Phi (the standard normal CDF) is universally
   quantified: the laws hold for any Phi. *)
From Coq Require Import Reals List String.
From PS Require Import Base.RBase Base.Dist Gen.PriorHelpers Proofs.PriorProofs.
Open Scope R_scope.

Theorem C11_gaussian_helper_law : forall Phi loc scale x, 0 < scale ->
  pushed_lpdf Phi (gaussian_helper loc scale) x = normal_lpdf x loc scale /\
  pushed_support (gaussian_helper loc scale) x.
Proof. exact gaussian_helper_law. Qed.

Theorem C11_uniform_helper_law : forall Phi low high x, low < high ->
  (pushed_support (uniform_helper low high) x <-> low <= x <= high) /\
  pushed_lpdf Phi (uniform_helper low high) x = - ln (high - low).
Proof. exact uniform_helper_law. Qed.

(* support exactly [low, high] (one-sided when a bound is None), density phi((x-loc)/scale)/(scale (Phi(b) - Phi(a))) *)
Theorem C11_truncnorm_helper_law : forall Phi loc scale low high x, 0 < scale ->
  (pushed_support (truncnorm_helper loc scale low high) x <->
   (match low with Some a => a <= x | None => True end) /\ (match high with Some b => x <= b | None => True end)) /\
  pushed_lpdf Phi (truncnorm_helper loc scale low high) x =
    normal_lpdf x loc scale -
    ln ((match high with Some b => Phi ((b - loc) / scale) | None => 1 end) -
        (match low with Some a => Phi ((a - loc) / scale) | None => 0 end)).
Proof. exact truncnorm_helper_law. Qed.

Theorem C11_reparam_constant_jacobian : forall Phi d loc scale z, scale <> 0 ->
  pushed_lpdf Phi (d, loc, scale) (exposed (d, loc, scale) z) - base_lpdf Phi d z = - ln (Rabs scale).
Proof. exact reparam_constant_jacobian. Qed.

Theorem C11_exposed_value : forall d loc scale z, exposed (d, loc, scale) z = loc + scale * z.
Proof. exact exposed_value. Qed.

Theorem C11_helper_bookkeeping :
  prior_call_samples_every_entry_under_its_key = true /\
  helpers_store_under_name_plus_suffix_with_transform_reparam = true.
Proof. exact helper_bookkeeping. Qed.

(* the bounded-support helpers build their base distributions with validate_args=True: numpyro then assigns -inf to values outside
   the support stated above instead of evaluating the density formula there (tied to the real objects by the correspondence) *)
Theorem C11_out_of_support_rejected : bounded_helpers_reject_out_of_support_values = true.
Proof. reflexivity. Qed.

Print Assumptions C11_gaussian_helper_law.
Print Assumptions C11_uniform_helper_law.
Print Assumptions C11_truncnorm_helper_law.
Print Assumptions C11_reparam_constant_jacobian.
Print Assumptions C11_exposed_value.
Print Assumptions C11_helper_bookkeeping.
Print Assumptions C11_out_of_support_rejected.

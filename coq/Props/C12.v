(* Property C12 - auto-generated priors are complete, physical and in image
   coordinates.  Statements only; proofs in Proofs/AutoPriorProofs.v over
   generate_prior (symbolically executed for each of the seven profile types),
   the two parameter tables and the multi-prior loop REGENERATED from the
   source.  The photutils-derived guesses are universally quantified reals. *)
From Coq Require Import Reals List String Bool.
From PS Require Import Base.RBase Base.PyStr Gen.ProfileParams Gen.GeneratePrior Proofs.AutoPriorProofs.
Import ListNotations.
Open Scope string_scope.

Theorem C12_tables_agree :
  map fst profile_params_rendering = map fst profile_params_priors /\
  forallb (fun T => set_eqb (lookup T profile_params_rendering) (lookup T profile_params_priors)) profile_types = true.
Proof. exact tables_agree. Qed.

Theorem C12_seven_types :
  profile_types = ["sersic"; "doublesersic"; "sersic_exp"; "sersic_pointsource"; "pointsource"; "exp"; "dev"].
Proof. exact seven_types. Qed.

(* for every guess vector: exactly the required parameters of the profile type *)
Theorem C12_generate_prior_complete : forall fg fe xg yg rg re tg sg se,
  forallb (fun T => set_eqb (names_of fg fe xg yg rg re tg sg se T) (lookup T profile_params_rendering)) profile_types = true.
Proof. exact generate_prior_complete. Qed.

(* supports inside the physical domain: r_eff* >= 1/2, ellip* in [0, 9/10], n* in [13/20, 8], theta in [0, 2 pi], fractions in [0, 1] *)
Theorem C12_generate_prior_physical : forall fg fe xg yg rg re tg sg se T,
  In T profile_types -> Forall entry_ok (generated_prior T fg fe xg yg rg re tg sg se).
Proof. exact generate_prior_physical. Qed.

(* flux, xc, yc are Gaussians centred on the guesses (position: sigma = 1 px) *)
Theorem C12_generate_prior_centres : forall fg fe xg yg rg re tg sg se T, In T profile_types ->
  In ("flux", PGauss fg fe) (generated_prior T fg fe xg yg rg re tg sg se) /\
  In ("xc", PGauss xg 1%R) (generated_prior T fg fe xg yg rg re tg sg se) /\
  In ("yc", PGauss yg 1%R) (generated_prior T fg fe xg yg rg re tg sg se).
Proof. exact generate_prior_centres. Qed.

(* source i is suffixed "_" ++ dec i ++ suffix; the key determines parameter and source *)
Theorem C12_multi_prior_naming :
  multi_prior_suffix_is_underscore_index_suffix = true /\
  forall p i p' i' sfx, source_key p i sfx = source_key p' i' sfx -> p = p' /\ i = i'.
Proof. exact multi_prior_naming. Qed.

Theorem C12_sky_param_table :
  sky_params = [("none", []); ("flat", ["sky_back"]); ("tilted-plane", ["sky_back"; "sky_x_sl"; "sky_y_sl"])].
Proof. exact sky_param_table. Qed.

Example ex_key : source_key "r_eff_1" 12 "_g" = "r_eff_1_12_g".
Proof. vm_compute. reflexivity. Qed.

Print Assumptions C12_tables_agree.
Print Assumptions C12_seven_types.
Print Assumptions C12_generate_prior_complete.
Print Assumptions C12_generate_prior_physical.
Print Assumptions C12_generate_prior_centres.
Print Assumptions C12_multi_prior_naming.
Print Assumptions C12_sky_param_table.

(* Property C13 - find_MAP returns the best state it visited, consistently and
   repeatably.  Statements only (the decidable part: WHAT is returned and how it is
   grouped); proofs in Proofs/FindMAPProofs.v over find_MAP's filtering and
   regrouping REGENERATED from pysersic.py.  Optimiser quality (logp(MAP) >=
   logp(truth) - 0.5, local maximality) and bitwise repeatability are NOT theorems. *)
From Coq Require Import String List Bool Reals.
From PS Require Import Base.RBase Base.PyStr Gen.ProfileParams Gen.FindMAP Model.ResultsParse Proofs.ResultsParseProofs Proofs.FindMAPProofs
     Base.ExtLoss Model.SviLoop Proofs.SviLoopProofs.
Import ListNotations.
Open Scope string_scope.

(* exactly the user-facing parameters are returned (rounded to 5 decimals), for every marker-free suffix *)
Theorem C13_user_facing_kept : forall s,
  suffix_like s -> map_marker_free s -> s <> "" \/ True ->
  Forall (fun p => map_fate_of (p ++ s) = MapRounded) user_facing.
Proof. exact user_facing_kept. Qed.

Theorem C13_internals_not_returned : forall a t,
  map_fate_of (a ++ "_base" ++ t) <> MapRounded /\ map_fate_of (a ++ "_base" ++ t) <> MapImage /\
  map_fate_of (a ++ "_auto_loc" ++ t) <> MapRounded /\ map_fate_of (a ++ "_auto_loc" ++ t) <> MapImage /\
  map_fate_of ("Loss" ++ t) = MapSkipped.
Proof. exact internals_not_returned. Qed.

Theorem C13_model_image_returned : map_fate_of "model" = MapImage.
Proof. exact model_image_returned. Qed.

Theorem C13_guide_name_inverted :
  map (fun n => split_first guide_name_suffix (n ++ guide_name_suffix)) latent_site_names = latent_site_names.
Proof. exact guide_name_inverted. Qed.

(* multi-source fits: parameter p of source i is taken from the key the prior stored it under (any suffix), injectively *)
Theorem C13_regroup : forall p i sfx,
  regroup_key p i sfx = source_key p i sfx /\
  (forall p' i', regroup_key p i sfx = regroup_key p' i' sfx -> p = p' /\ i = i').
Proof. intros p i sfx. exact (conj (regroup_key_is_prior_key p i sfx) (fun p' i' => regroup_injective p i p' i' sfx)). Qed.

(* the state whose parameters are returned is the first lowest-loss state of the final training round (C14),
   trained with learning rate lr_init * decay^r in round r *)
Theorem C13_returns_best_state : forall c script res,
  run c script = Some res ->
  exists front lastr, run_rounds c script = List.app front [lastr] /\
    (exists bl', snd (best_after (r_start lastr) (r_b0 lastr) (r_evs lastr)) = bl' /\
       Forall (fun e => ltb (ev_loss e) bl' = false) (r_evs lastr)).
Proof. exact returns_best_state. Qed.

Theorem C13_lr_schedule : forall lr d r, lr_cur lr d r = (lr * d ^ r)%R.
Proof. exact lr_schedule. Qed.

Print Assumptions C13_user_facing_kept.
Print Assumptions C13_internals_not_returned.
Print Assumptions C13_model_image_returned.
Print Assumptions C13_guide_name_inverted.
Print Assumptions C13_regroup.
Print Assumptions C13_returns_best_state.
Print Assumptions C13_lr_schedule.

(* Property C14 — staged early-stopping optimiser honours its patience/round
   contract.  Only statements here; proofs are in Proofs/SviLoopProofs.v.
   Every theorem quantifies over ALL configurations and ALL loss scripts. *)
From Coq Require Import List Arith ZArith Bool.
From PS Require Import Base.ExtLoss Model.SviLoop Proofs.SviLoopProofs.
Import ListNotations.

(* at most max_train steps per round, num_round rounds, one initial step *)
Theorem C14_step_bound : forall c script,
  length (run_rounds c script) = num_round c /\
  Forall (fun rr => length (r_evs rr) <= max_train c) (run_rounds c script) /\
  total_calls (run_rounds c script) <= 1 + num_round c * max_train c.
Proof. exact step_bound. Qed.

(* wait_counter counts the consecutive non-improving steps; the round breaks
   exactly on a non-improving step taken with wait >= patience (the
   (patience+1)-th consecutive one), nothing follows the break, wait never
   exceeds patience, and a round shorter than max_train ended on that break *)
Theorem C14_patience : forall c script rr,
  In rr (run_rounds c script) ->
  waits_ok 0 (r_evs rr) /\
  Forall (fun e => ev_wait e <= patience c) (r_evs rr) /\
  breaks_ok (patience c) (r_evs rr) /\
  (length (r_evs rr) < max_train c -> last_breaks (r_evs rr)).
Proof. exact patience_contract. Qed.

(* round k has decay exponent k, starts from the incumbent of round k-1 (round 0
   from the state of the unconditional first step, with its loss as the bar;
   later rounds with +inf as the bar), call ids are globally consecutive, each
   update is applied to the state the previous update produced, and the loss
   of call i is script i *)
Theorem C14_round_start : forall c script,
  linked 0 1 [0] (script 0) (run_rounds c script) /\
  (forall k rr, nth_error (run_rounds c script) k = Some rr -> r_index rr = k) /\
  Forall (fun rr => Forall (fun e => ev_loss e = script (ev_call e)) (r_evs rr)) (run_rounds c script).
Proof. exact round_start. Qed.

(* adoption <-> IEEE-strictly below the running best; hence never NaN, below
   the round's bar and below everything adopted earlier in the round *)
Theorem C14_adopt_strict : forall c script rr,
  In rr (run_rounds c script) ->
  adopts_ok (r_b0 rr) (r_evs rr) /\
  forall pre e post, r_evs rr = pre ++ e :: post -> ev_adopt e = true ->
    is_nan (ev_loss e) = false /\ ltb (ev_loss e) (r_b0 rr) = true /\
    Forall (fun x => ev_adopt x = true -> ltb (ev_loss e) (ev_loss x) = true) pre.
Proof. exact adopt_strict. Qed.

Theorem C14_returns_best_of_final_round : forall c script res,
  run c script = Some res ->
  exists front lastr,
    run_rounds c script = front ++ [lastr] /\
    res_state res = cur_after (r_start lastr) (r_evs lastr) /\
    res_losses res = appended (r_evs lastr) /\
    (exists bl', snd (best_after (r_start lastr) (r_b0 lastr) (r_evs lastr)) = bl' /\
       (bl' = r_b0 lastr \/ ltb bl' (r_b0 lastr) = true) /\
       Forall (fun e => ltb (ev_loss e) bl' = false) (r_evs lastr)) /\
    ((Forall (fun e => ev_adopt e = false) (r_evs lastr) /\ res_best res = r_start lastr)
     \/
     (exists pre e post,
         r_evs lastr = pre ++ e :: post /\ ev_adopt e = true /\
         Forall (fun x => ev_adopt x = false) post /\
         res_best res = ev_state e /\
         ltb (ev_loss e) (r_b0 lastr) = true /\
         Forall (fun x => ltb (ev_loss x) (ev_loss e) = false) (r_evs lastr) /\
         Forall (fun x => ltb (ev_loss e) (ev_loss x) = true \/ is_nan (ev_loss x) = true) pre)).
Proof. exact returns_best_of_final_round. Qed.

(* num_round = 0 is the only configuration without a result (the routine
   raises UnboundLocalError there) *)
Theorem C14_num_round_0 : forall c script, run c script = None <-> num_round c = 0.
Proof. exact run_none_iff. Qed.

(* ---- non-vacuity: a history with a tie, a NaN and a +inf ---- *)
Definition ex_script :=
  script_of [Fin 5; Fin 4; Fin 4; NaN; Fin 3; Fin 3; PInf; Fin 2; Fin 9; Fin 9].
Definition ex_cfg := {| num_round := 3; max_train := 5; patience := 1 |}.

Example ex_run_best :
  option_map res_best (run ex_cfg ex_script) = Some [7; 4; 1; 0].
Proof. vm_compute. reflexivity. Qed.

Example ex_run_rounds :
  map (fun rr => length (r_evs rr)) (run_rounds ex_cfg ex_script) = [3; 3; 3].
Proof. vm_compute. reflexivity. Qed.

Example ex_all_nan_returns_start :
  option_map res_best (run {| num_round := 2; max_train := 4; patience := 0 |} (fun _ => NaN)) = Some [0].
Proof. vm_compute. reflexivity. Qed.

Print Assumptions C14_step_bound.
Print Assumptions C14_patience.
Print Assumptions C14_round_start.
Print Assumptions C14_adopt_strict.
Print Assumptions C14_returns_best_of_final_round.
Print Assumptions C14_num_round_0.

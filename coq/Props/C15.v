(* Property C15 - the multi-band model links parameters across bands as declared.
   Statements only; proofs in Proofs/MultibandProofs.v over the link functions, default
   ranges, site names, per-band data flow and the relabelling REGENERATED from
   multiband.py / priors.py. *)
From Coq Require Import Reals List String Bool.
From PS Require Import Base.RBase Base.PyStr Gen.Multiband Gen.ProfileParams Model.ResultsParse Proofs.MultibandProofs.
Import ListNotations.
Open Scope string_scope.

(* a ranged linked parameter is ALWAYS strictly inside its range, for every coefficient vector and wavelength *)
Theorem C15_linked_value_in_range : forall cs t hi low, (low < hi)%R -> (low < restrict (polyval cs t) hi low < hi)%R.
Proof. exact linked_value_in_range. Qed.

(* polyval is Horner's scheme, highest degree first *)
Theorem C15_poly_link_form : forall cs c t a b c' t',
  polyval (cs ++ [c])%list t = (polyval cs t * t + c)%R /\ polyval [a; b; c'] t' = (a * t' ^ 2 + b * t' + c')%R.
Proof. intros. exact (conj (polyval_snoc cs c t) (polyval_quadratic a b c' t')). Qed.

(* spline link: rows of the design matrix that are non-negative and sum to one keep the value inside the range of the weights *)
Theorem C15_bspline_convex : forall (d w : list R) low hi,
  List.length d = List.length w -> Forall (fun a => (0 <= a)%R) d -> sumR d = 1%R -> Forall (fun b => (low <= b <= hi)%R) w ->
  (low <= dot d w <= hi)%R.
Proof. exact bspline_convex. Qed.

Theorem C15_bspl_weight_range : forall u low hi, (low <= hi)%R -> (0 <= u <= 1)%R -> (low <= bspl_weight_in_range u low hi <= hi)%R.
Proof. exact bspl_weight_range. Qed.

(* which parameters get a physical range by default: n* -> [0.65, 8], ellip* -> [0, 0.9], theta -> [0, 2 pi], nothing else;
   for single-source names and for multi-source names p_<i> *)
Theorem C15_default_range_rule :
  Forall (fun p => default_range p = expected_range p) (filter (fun p => negb (prefixb "sky" p)) all_params) /\
  forall i, Forall (fun p => default_range (p ++ "_" ++ dec i) = expected_range p) (filter (fun p => negb (prefixb "sky" p)) all_params).
Proof. exact (conj default_range_rule_single default_range_rule_multi). Qed.

(* attaching band names is a pure relabelling: name -> name ++ "_" ++ band, same distribution objects;
   injective within a band; injective overall for underscore-free band names and for the default names Band_<i> *)
Theorem C15_relabel : forall p band, relabel "" ("_" ++ band) p = band_site p band.
Proof. exact relabel_is_band_site. Qed.

Theorem C15_relabel_injective :
  (forall p p' band, band_site p band = band_site p' band -> p = p') /\
  (forall p p' band band', no_us band = true -> no_us band' = true -> band_site p band = band_site p' band' -> p = p' /\ band = band') /\
  (forall p p' i i', band_site p (default_band_name i) = band_site p' (default_band_name i') -> p = p' /\ i = i').
Proof. exact (conj band_site_inj_fixed_band (conj band_site_inj_no_us band_site_inj_default)). Qed.

(* ... and the side condition is necessary *)
Theorem C15_relabel_collision_refuted : exists p p' b b', (p <> p' \/ b <> b') /\ band_site p b = band_site p' b'.
Proof. exact band_site_collision_refuted. Qed.

(* per band: own data, rms, mask into its own loss; constant = one shared site; unlinked = that band's prior; linked = deterministic *)
Theorem C15_band_data_flow :
  band_loss_gets_own_data_rms_mask = true /\ const_param_is_one_shared_site = true /\
  unlinked_param_uses_band_prior = true /\ linked_param_is_deterministic_per_band = true /\
  relabel_keeps_distribution_objects = true.
Proof. exact multiband_flags. Qed.

Print Assumptions C15_linked_value_in_range.
Print Assumptions C15_poly_link_form.
Print Assumptions C15_bspline_convex.
Print Assumptions C15_bspl_weight_range.
Print Assumptions C15_default_range_rule.
Print Assumptions C15_relabel.
Print Assumptions C15_relabel_injective.
Print Assumptions C15_relabel_collision_refuted.
Print Assumptions C15_band_data_flow.

(* Property C16 - the sky model is the stated constant or plane, added
   unconvolved.  Statements only; proofs in Proofs/SkyProofs.v over formulas
   REGENERATED from priors.py / pysersic.py / rendering.py. *)
From Coq Require Import Reals List String ZArith.
From PS Require Import Base.RBase Gen.Sky Gen.Grid Gen.BuildModel Proofs.SkyProofs.
Import ListNotations.
Open Scope R_scope.

Theorem C16_grid_convention : forall r c, Xof r c = IZR c /\ Yof r c = IZR r.
Proof. exact grid_convention. Qed.

Theorem C16_sky_none : forall X Y s0 s1, sky_none X Y s0 s1 = 0.
Proof. exact sky_none_zero. Qed.

Theorem C16_sky_flat : forall X Y s0 s1 back, sky_flat X Y s0 s1 back = back.
Proof. exact sky_flat_const. Qed.

(* back + (x - N/2) x_slope + (y - N/2) y_slope, x = column, y = row (square N x N frame) *)
Theorem C16_sky_plane : forall N r c back xs ys,
  sky_tilted (Xof r c) (Yof r c) N N back xs ys = back + (IZR c - N / 2) * xs + (IZR r - N / 2) * ys.
Proof. exact sky_plane_form. Qed.

Theorem C16_plane_reduces_to_flat : forall X Y s0 s1 back,
  sky_tilted X Y s0 s1 back 0 0 = sky_flat X Y s0 s1 back.
Proof. exact plane_reduces_to_flat. Qed.

Theorem C16_standalone_equal : forall X Y s0 s1 back xs ys,
  sky_standalone X Y s0 s1 back xs ys = sky_tilted X Y s0 s1 back xs ys.
Proof. exact standalone_equal. Qed.

Theorem C16_sky_unconvolved_once : forall out sky,
  model_obs_single out sky = out + sky /\ model_obs_multi out sky = out + sky.
Proof. exact sky_added_once. Qed.

Theorem C16_sky_independent_of_source : forall out out' sky,
  model_obs_single out sky - model_obs_single out 0 = model_obs_single out' sky - model_obs_single out' 0 /\
  model_obs_multi out sky - model_obs_multi out 0 = model_obs_multi out' sky - model_obs_multi out' 0.
Proof. exact sky_independent_of_source. Qed.

Theorem C16_sky_hyperparameters : forall g e,
  sky_hyper_flat g e = [("sky_back"%string, g, e)] /\
  exists s, sky_hyper_tilted g e = [("sky_back"%string, g, e); ("sky_x_sl"%string, 0, s); ("sky_y_sl"%string, 0, s)] /\ s = e / 10.
Proof. exact sky_hyperparameters. Qed.

Theorem C16_sky_prior_construction : sky_prior_is_affine_normal_reparam = true.
Proof. exact sky_prior_construction. Qed.

(* slopes are per-pixel gradients along columns (x) and rows (y) *)
Theorem C16_sky_plane_gradient : forall N r c back xs ys,
  sky_tilted (Xof r (c + 1)) (Yof r (c + 1)) N N back xs ys - sky_tilted (Xof r c) (Yof r c) N N back xs ys = xs /\
  sky_tilted (Xof (r + 1) c) (Yof (r + 1) c) N N back xs ys - sky_tilted (Xof r c) (Yof r c) N N back xs ys = ys.
Proof. exact sky_plane_gradient. Qed.

Theorem C16_sky_plane_pivot : forall s0 s1 back xs ys, sky_tilted (s0 / 2) (s1 / 2) s0 s1 back xs ys = back.
Proof. exact sky_plane_pivot. Qed.

Theorem C16_sky_plane_linear : forall X Y s0 s1 a b1 x1 y1 b2 x2 y2,
  sky_tilted X Y s0 s1 (a * b1 + b2) (a * x1 + x2) (a * y1 + y2) =
  a * sky_tilted X Y s0 s1 b1 x1 y1 + sky_tilted X Y s0 s1 b2 x2 y2.
Proof. exact sky_plane_linear. Qed.

Theorem C16_sky_plane_point_reflection : forall X Y s0 s1 back xs ys,
  sky_tilted X Y s0 s1 back xs ys + sky_tilted (s0 - X) (s1 - Y) s0 s1 back xs ys = 2 * back.
Proof. exact sky_plane_point_reflection. Qed.

(* total sky light of the plane over every n x n frame (all n, by induction) *)
Theorem C16_sky_plane_frame_total : forall n back xs ys,
  sumZ (fun r => sumZ (fun c => sky_tilted (Xof r c) (Yof r c) (INR n) (INR n) back xs ys) n) n =
  INR n * INR n * back - INR n * INR n / 2 * (xs + ys).
Proof. exact sky_plane_frame_total. Qed.

Print Assumptions C16_grid_convention.
Print Assumptions C16_sky_none.
Print Assumptions C16_sky_flat.
Print Assumptions C16_sky_plane.
Print Assumptions C16_plane_reduces_to_flat.
Print Assumptions C16_standalone_equal.
Print Assumptions C16_sky_unconvolved_once.
Print Assumptions C16_sky_independent_of_source.
Print Assumptions C16_sky_hyperparameters.
Print Assumptions C16_sky_prior_construction.
Print Assumptions C16_sky_plane_gradient.
Print Assumptions C16_sky_plane_pivot.
Print Assumptions C16_sky_plane_linear.
Print Assumptions C16_sky_plane_point_reflection.
Print Assumptions C16_sky_plane_frame_total.

(* Property C17 - the sky estimate uses only unmasked border pixels.
   Statements only; proofs in Proofs/EstimateSkyProofs.v.  `border`,
   `sky_values`, `sky_count` are built from the slices and the concatenation /
   count flavour REGENERATED from priors.estimate_sky (Gen/EstimateSky.v). *)
From Coq Require Import ZArith List Bool Lia Permutation Sorted.
From PS Require Import Base.PySlice Gen.EstimateSky Model.EstimateSky Proofs.EstimateSkyProofs.
Import ListNotations.
Open Scope Z_scope.

(* exactly the pixels within n of an edge ... *)
Theorem C17_border_spec : forall H W n r c, 1 <= n -> 2 * n <= H -> 2 * n <= W ->
  (In (r, c) (border H W n) <->
   0 <= r < H /\ 0 <= c < W /\ (r < n \/ H - n <= r \/ c < n \/ W - n <= c)).
Proof. intros; apply border_spec; assumption. Qed.

(* ... each counted once ... *)
Theorem C17_border_once : forall H W n, 1 <= n -> 2 * n <= H -> 2 * n <= W -> NoDup (border H W n).
Proof. intros; apply border_NoDup; assumption. Qed.

(* ... H*W - (H-2n)(W-2n) of them *)
Theorem C17_border_count : forall H W n, 1 <= n -> 2 * n <= H -> 2 * n <= W ->
  Z.of_nat (length (border H W n)) = H * W - (H - 2 * n) * (W - 2 * n).
Proof. intros; apply border_length; assumption. Qed.

(* the pixel multiset behind median and scatter ignores interior pixels *)
Theorem C17_invariant_interior : forall img img' masked H W n,
  (forall r c, In (r, c) (border H W n) -> img r c = img' r c) ->
  sky_values img masked H W n = sky_values img' masked H W n.
Proof. intros; apply gathered_interior; assumption. Qed.

(* ... and ignores masked pixels (needs a mask-preserving concatenation) *)
Theorem C17_invariant_masked : forall img img' masked H W n,
  (forall r c, In (r, c) (border H W n) -> masked r c = false -> img r c = img' r c) ->
  sky_values img masked H W n = sky_values img' masked H W n.
Proof. exact (fun img img' masked H W n => masked_invariance img img' masked H W n eq_refl). Qed.

(* every gathered value is the value of an unmasked border pixel, and every
   unmasked border pixel contributes *)
Theorem C17_values_are_unmasked_border : forall img masked H W n,
  sky_values img masked H W n =
  map (fun p => img (fst p) (snd p)) (filter (unmasked masked) (border H W n)).
Proof. exact (fun img masked H W n => values_spec img masked H W n eq_refl). Qed.

(* reported count = border pixels minus masked border pixels *)
Theorem C17_count : forall masked H W n,
  sky_count masked H W n =
  Z.of_nat (length (border H W n)) -
  Z.of_nat (length (filter (fun p => masked (fst p) (snd p)) (border H W n))).
Proof. exact (fun masked H W n => count_spec masked H W n eq_refl). Qed.

(* a mask passed as a separate argument is attached to the image *)
Theorem C17_mask_argument_honoured : sky_wraps_mask_argument = true.
Proof. reflexivity. Qed.

(* non-vacuity: a 6x5 image, n = 1, one masked border pixel *)
Example ex_border_6x5 : length (border 6 5 1) = 18%nat /\ sky_count (fun r c => (r =? 0) && (c =? 2)) 6 5 1 = 17.
Proof. vm_compute. split; reflexivity. Qed.

(* the median depends only on the multiset of gathered values, never on the gathering order of the four slices:
   any two gatherings of the same unmasked border pixels (in any order) give the same statistic *)
Theorem C17_median_order_independent : forall l l', Permutation l l' -> median2 l = median2 l'.
Proof. exact median2_perm. Qed.

Theorem C17_sorted_values_are_the_gathered_multiset : forall l, Permutation (isort l) l /\ LocallySorted Z.le (isort l).
Proof. intro l. split; [apply isort_perm | apply isort_sorted]. Qed.

(* non-vacuity: two orders of the same five values *)
Example ex_median_perm : median2 [7; 1; 5; 3; 9] = Some 10 /\ median2 [9; 3; 7; 5; 1] = Some 10.
Proof. vm_compute. split; reflexivity. Qed.

Print Assumptions C17_border_spec.
Print Assumptions C17_border_once.
Print Assumptions C17_border_count.
Print Assumptions C17_invariant_interior.
Print Assumptions C17_invariant_masked.
Print Assumptions C17_values_are_unmasked_border.
Print Assumptions C17_count.
Print Assumptions C17_mask_argument_honoured.
Print Assumptions C17_median_order_independent.
Print Assumptions C17_sorted_values_are_the_gathered_multiset.

(* Property C18 - inconsistent inputs are rejected, consistent inputs are
   ingested faithfully.  Statements only; proofs in Proofs/InputChecksProofs.v,
   about the validation steps REGENERATED from check_input_data,
   BaseFitter.__init__, parse_mask and BaseRenderer.__init__. *)
From Coq Require Import ZArith List Bool.
From PS Require Import Base.InputModel Gen.InputChecks Model.InputChecks Proofs.InputChecksProofs.
Import ListNotations.
Open Scope Z_scope.

Theorem C18_rms_shape_rejected : forall i,
  shape i Rms <> shape i Data -> fitter_outcome i = Some ShapeMatchError.
Proof. exact rms_shape_rejected. Qed.

Theorem C18_negative_rms_rejected : forall i,
  shape i Rms = shape i Data -> has_neg i Rms = true -> fitter_outcome i = Some ValueError.
Proof. exact negative_rms_rejected. Qed.

(* a PSF larger than the image along EITHER axis is refused *)
Theorem C18_psf_too_large_rejected : forall i dh dw ph pw,
  shape i Rms = shape i Data -> has_neg i Rms = false ->
  shape i Data = [dh; dw] -> shape i Psf = [ph; pw] ->
  (dh < ph \/ dw < pw) ->
  fitter_outcome i = Some KernelError.
Proof. exact psf_too_large_rejected. Qed.

Theorem C18_mask_shape_rejected : forall i dh dw ph pw,
  shape i Rms = shape i Data -> has_neg i Rms = false ->
  shape i Data = [dh; dw] -> shape i Psf = [ph; pw] -> ph <= dh -> pw <= dw ->
  mask_given i = true -> shape i Mask <> shape i Data ->
  fitter_outcome i = Some ShapeMatchError.
Proof. exact mask_shape_rejected. Qed.

Theorem C18_consistent_accepted : forall i dh dw ph pw,
  shape i Rms = shape i Data -> has_neg i Rms = false ->
  shape i Data = [dh; dw] -> shape i Psf = [ph; pw] -> ph <= dh -> pw <= dw ->
  (mask_given i = false \/ shape i Mask = shape i Data) ->
  fitter_outcome i = None.
Proof. exact consistent_accepted. Qed.

Theorem C18_renderer_rejects_iff : forall i ih iw ph pw,
  shape i Im = [ih; iw] -> shape i Psf = [ph; pw] ->
  (renderer_outcome i = Some KernelError <-> (ih < ph \/ iw < pw)).
Proof. exact renderer_rejects_iff. Qed.

Theorem C18_ingest_faithful : forall round32 values mg n,
  map (fun p => stored round32 (snd p) values mg n) ingest_plan =
  [ map round32 (values Data); map round32 (values Rms); map round32 (values Psf);
    if mg then map (fun v => if v =? 0 then 1 else 0) (values Mask) else repeat 1 n ].
Proof. exact ingest_faithful. Qed.

Theorem C18_mask_polarity : parse_mask_absent_all_good = true /\ parse_mask_good_is_not_marked = true.
Proof. exact mask_polarity. Qed.

(* non-vacuity: the shapes of the historical defect *)
Example ex_39x41_rejected :
  fitter_outcome {| shape := fun a => match a with Psf => [39; 41] | _ => [40; 40] end;
                    has_neg := fun _ => false; mask_given := false |} = Some KernelError.
Proof. vm_compute. reflexivity. Qed.
Example ex_consistent :
  fitter_outcome {| shape := fun a => match a with Psf => [5; 5] | _ => [40; 40] end;
                    has_neg := fun _ => false; mask_given := true |} = None.
Proof. vm_compute. reflexivity. Qed.

Print Assumptions C18_rms_shape_rejected.
Print Assumptions C18_negative_rms_rejected.
Print Assumptions C18_psf_too_large_rejected.
Print Assumptions C18_mask_shape_rejected.
Print Assumptions C18_consistent_accepted.
Print Assumptions C18_renderer_rejects_iff.
Print Assumptions C18_ingest_faithful.
Print Assumptions C18_mask_polarity.

(* Property C19 - post-processing wraps only angles and drops only internal
   variables.  Statements only; proofs in Proofs/ResultsParseProofs.v, about the
   name predicates and the wrap expression REGENERATED from
   results._parse_injested_data.  Suffixes are arbitrary strings of the shape
   the fitters produce ("" or "_" ++ anything). *)
From Coq Require Import String List Bool Reals ZArith.
From PS Require Import Base.RBase Base.PyStr Gen.ResultsParse Gen.ProfileParams Model.ResultsParse Proofs.ResultsParseProofs.
Import ListNotations.
Open Scope string_scope.

Theorem C19_angles_wrapped : forall purge s,
  suffix_like s -> internal_free s -> fate_of purge ("theta" ++ s) = KeptWrapped.
Proof. exact angle_wrapped. Qed.

Theorem C19_others_untouched : forall purge s,
  suffix_like s -> marker_free s ->
  Forall (fun p => fate_of purge (p ++ s) = KeptUnchanged) non_angle_params.
Proof. exact others_untouched. Qed.

Theorem C19_poly_coeff_untouched : forall purge p mid,
  contains "base" (p ++ mid ++ "_poly_coeff") = false ->
  contains "auto" (p ++ mid ++ "_poly_coeff") = false ->
  contains "unwrapped" (p ++ mid ++ "_poly_coeff") = false ->
  contains "model" (p ++ mid ++ "_poly_coeff") = false ->
  fate_of purge (p ++ mid ++ "_poly_coeff") = KeptUnchanged.
Proof. exact poly_coeff_untouched. Qed.

Theorem C19_bspl_w_untouched : forall purge t,
  contains "base" t = false -> contains "auto" t = false -> contains "unwrapped" t = false ->
  contains "model" t = false ->
  fate_of purge ("bspl_w_" ++ t) = KeptUnchanged.
Proof. exact bspl_w_untouched. Qed.

Theorem C19_internals_dropped : forall a t,
  fate_of true (a ++ "_base" ++ t) = Dropped /\
  fate_of true (a ++ "_auto_loc" ++ t) = Dropped /\
  fate_of true (a ++ "unwrapped" ++ t) = Dropped.
Proof. exact internals_dropped. Qed.

Theorem C19_models_preserved : forall s,
  suffix_like s -> marker_free s -> fate_of true ("model" ++ s) = ToModels /\ saves_models = true.
Proof. exact models_preserved. Qed.

Theorem C19_wrap_range_congruent : forall x,
  (0 <= wrap_value x < PI)%R /\ exists k : Z, wrap_value x = (x + IZR k * PI)%R.
Proof. exact wrap_range_congruent. Qed.

(* non-vacuity: the names that motivated the property *)
Example ex_names :
  map (fate_of true) ["theta"; "theta_0"; "theta_Band_1"; "theta_at_wv"; "theta_poly_coeff"; "bspl_w_theta";
                      "theta_0_poly_coeff"; "xc_2_g"; "ellip_base"; "n_auto_loc"; "model"; "model_g"; "sys_rms_base_r"]
  = [KeptWrapped; KeptWrapped; KeptWrapped; KeptWrapped; KeptUnchanged; KeptUnchanged;
     KeptUnchanged; KeptUnchanged; Dropped; Dropped; ToModels; ToModels; Dropped].
Proof. vm_compute. reflexivity. Qed.
Example ex_param_list : length non_angle_params = 21%nat.
Proof. vm_compute. reflexivity. Qed.

(* the reported angle is the canonical representative mod pi: values already in [0, pi) are unchanged, wrapping twice
   changes nothing, and any two samples of the same position angle (differing by a multiple of pi) are reported identically *)
Theorem C19_wrap_fixes_range : forall x, (0 <= x < PI)%R -> wrap_value x = x.
Proof. exact wrap_fixes_range. Qed.

Theorem C19_wrap_idempotent : forall x, wrap_value (wrap_value x) = wrap_value x.
Proof. exact wrap_idempotent. Qed.

Theorem C19_wrap_canonical : forall x y (m : Z), (y = x + IZR m * PI)%R -> wrap_value y = wrap_value x.
Proof. exact wrap_canonical. Qed.

Print Assumptions C19_angles_wrapped.
Print Assumptions C19_others_untouched.
Print Assumptions C19_poly_coeff_untouched.
Print Assumptions C19_bspl_w_untouched.
Print Assumptions C19_internals_dropped.
Print Assumptions C19_models_preserved.
Print Assumptions C19_wrap_range_congruent.
Print Assumptions C19_wrap_fixes_range.
Print Assumptions C19_wrap_idempotent.
Print Assumptions C19_wrap_canonical.

(* Property C20 - renderer construction options trade accuracy and cost, never
   meaning.  Statements only; proofs in Proofs/OptionsProofs.v over the box bounds,
   sub-sampling wiring and hybrid split REGENERATED from rendering.py, and the
   Gauss-Legendre table DUMPED from the running implementation. *)
From Coq Require Import ZArith QArith List Bool.
From PS Require Import Base.PySlice Gen.PixelBox Gen.GLTable Gen.Amps Proofs.OptionsProofs.
Import ListNotations.

(* pixel (r, c) of an N x N frame is box-integrated iff N/2-os <= r, c < N/2+os (every N >= 0, even or odd, every 0 <= os <= N/2) *)
Theorem C20_os_box_spec : forall N os r c, (0 <= os)%Z -> (os <= N / 2)%Z ->
  (In r (box_rows N N os) /\ In c (box_cols N N os) <->
   (N / 2 - os <= r < N / 2 + os)%Z /\ (N / 2 - os <= c < N / 2 + os)%Z).
Proof. exact os_box_spec. Qed.

Theorem C20_os_box_size : forall N os, (0 <= os)%Z -> (os <= N / 2)%Z ->
  Z.of_nat (length (box_rows N N os)) = (2 * os)%Z /\ Z.of_nat (length (box_cols N N os)) = (2 * os)%Z.
Proof. exact os_box_size. Qed.

Theorem C20_os_zero_no_box : forall N, (0 <= N)%Z -> box_rows N N 0 = [] /\ box_cols N N 0 = [].
Proof. exact os_zero_no_box. Qed.

(* for every sub-sampling order m = 1..16 the rule in use has positive weights summing to one, nodes inside the
   pixel, antisymmetric nodes / symmetric weights, and integrates x^k over the pixel exactly for k <= 2m-1 (to 1e-6:
   the nodes are float32): box pixels carry the pixel-integrated profile for polynomial integrands of that degree *)
Theorem C20_gl_certificate : forallb gl_row_ok gl_table = true /\ map (fun r => fst (fst r)) gl_table = seq 1 16.
Proof. exact gl_certificate. Qed.

(* hybrid renderer: for every number m <= n_sigma of real-space components the two index sets partition 0..n_sigma-1,
   the real-space ones are the m largest components ... *)
Theorem C20_hybrid_partition : forall n m, (m <= n)%nat ->
  w_fourier n m ++ w_real n m = seq 0 n /\ NoDup (w_fourier n m ++ w_real n m).
Proof. exact hybrid_partition. Qed.

Theorem C20_hybrid_real_are_largest : forall n m k, (m <= n)%nat -> (In k (w_real n m) <-> (n - m <= k < n)%nat).
Proof. exact hybrid_real_are_last. Qed.

(* ... and with m = 0 the hybrid renderer evaluates exactly what the Fourier renderer evaluates *)
Theorem C20_hybrid_m0_is_fourier : forall n, w_real n 0 = [] /\ w_fourier n 0 = seq 0 n.
Proof. exact hybrid_m0_is_fourier. Qed.

Theorem C20_options_plumbed :
  direct_branch_calls_decomp_with_scaled_bounds = true /\ table_is_unit_flux_unit_radius_decomposition = true /\
  hybrid_real_space_goes_to_observed_slot = true /\ nodes_and_weights_halved = true.
Proof. exact options_plumbed. Qed.

Print Assumptions C20_os_box_spec.
Print Assumptions C20_os_box_size.
Print Assumptions C20_os_zero_no_box.
Print Assumptions C20_gl_certificate.
Print Assumptions C20_hybrid_partition.
Print Assumptions C20_hybrid_real_are_largest.
Print Assumptions C20_hybrid_m0_is_fourier.
Print Assumptions C20_options_plumbed.

"""Dump run-time tables of the implementation as exact rationals (JSON):
  gl   : np.polynomial.legendre.leggauss(m) / 2 for m = 1..16 (as PixelRenderer.__init__ computes them)
  amps : FourierRenderer.n_ax / amps_n_ax (float32) and interpax's cubic2 derivative estimates
"""
import json
import sys
import warnings

warnings.filterwarnings("ignore")
import numpy as np  # noqa: E402


def frac(x):
    from fractions import Fraction
    f = Fraction(float(x))
    return [f.numerator, f.denominator]


def gl():
    import jax.numpy as jnp
    out = {}
    for m in range(1, 17):
        dx, w = jnp.array(np.polynomial.legendre.leggauss(m))
        w = w / 2.0
        dx = dx / 2.0
        out[str(m)] = {"x": [frac(v) for v in np.asarray(dx, dtype=np.float64)], "w": [frac(v) for v in np.asarray(w, dtype=np.float64)]}
    return out


def amps():
    import jax.numpy as jnp
    from pysersic.rendering import FourierRenderer
    psf = np.zeros((3, 3), np.float32)
    psf[1, 1] = 1
    r = FourierRenderer((16, 16), jnp.array(psf))
    import interpax
    n_ax = np.asarray(r.n_ax, dtype=np.float64)
    tab = np.asarray(r.amps_n_ax, dtype=np.float64)
    # derivative estimates exactly as interp1d(..., method="cubic2") computes them
    fx = np.asarray(interpax.approx_df(r.n_ax, r.amps_n_ax, "cubic2", 0), dtype=np.float64)
    from fractions import Fraction
    Fs = [sum(Fraction(float(v)) for v in row) for row in tab]
    Ds = [sum(Fraction(float(v)) for v in row) for row in fx]
    return {"n_ax": [frac(v) for v in n_ax], "row_sums": [[f.numerator, f.denominator] for f in Fs], "deriv_row_sums": [[d.numerator, d.denominator] for d in Ds],
            "dtype": str(np.asarray(r.amps_n_ax).dtype), "n_sigma": int(r.n_sigma), "frac": [float(r.frac_start), float(r.frac_end)]}


if __name__ == "__main__":
    json.dump({"gl": gl, "amps": amps}[sys.argv[1]](), open(sys.argv[2], "w"))

"""Implementation side of C01.

modes
  fft   : jnp.fft.irfft2 (float64) of a given half-plane array at given pixels (validates the Coq model of irfft2)
  amps  : sum over components of the interpolated unit-flux amplitudes at given n (validates the Hermite model + dumped table)
  total : sum of real renderings vs the exact decomposition the theorems give, and vs the independent reference (bands of the property)
"""
import json
import os
import subprocess
import sys

import numpy as np


def fhex(x):
    return float(x).hex()


def run_fft(cases):
    code = r"""
import jax, json, sys
jax.config.update('jax_enable_x64', True)
import jax.numpy as jnp, numpy as np
cases = json.load(open(sys.argv[1]))
out = []
for c in cases:
    N = c['N']
    F = np.array([[complex(a, b) for (a, b) in row] for row in c['F']])
    im = np.asarray(jnp.fft.irfft2(jnp.array(F), s=(N, N)))
    out.append({'pixels': [[r, cc, float(im[r, cc]).hex()] for (r, cc) in c['pixels']], 'sum': float(im.sum()).hex()})
json.dump(out, open(sys.argv[2], 'w'))
"""
    import tempfile
    d = tempfile.mkdtemp(dir=os.path.join(os.environ.get("VERIF_DIR", "/verif"), ".work"))
    a, b = os.path.join(d, "i.json"), os.path.join(d, "o.json")
    json.dump(cases, open(a, "w"))
    p = subprocess.run([sys.executable, "-W", "ignore", "-c", code, a, b], stdout=subprocess.PIPE, stderr=subprocess.STDOUT, text=True)
    res = json.load(open(b))
    import shutil
    shutil.rmtree(d, ignore_errors=True)
    return res


def main():
    cases = json.load(open(sys.argv[1]))
    out = [None] * len(cases)
    fft_idx = [i for i, c in enumerate(cases) if c["mode"] == "fft"]
    if fft_idx:
        for i, r in zip(fft_idx, run_fft([cases[i] for i in fft_idx])):
            out[i] = r
    rest = [i for i, c in enumerate(cases) if c["mode"] != "fft"]
    if rest:
        import nplib
        from nplib import FourierRenderer, HybridRenderer, PixelRenderer, REND, psf_stamp, jnp, jax
        sys.path.insert(0, os.path.join(os.environ.get("VERIF_DIR", "/verif"), "ref"))
        import refrender as RR
        from pysersic import rendering as R
        cache = {}

        def S_of(n):
            if "f" not in cache:
                cache["f"] = FourierRenderer((16, 16), jnp.array(psf_stamp("delta", 3)))
            a, _ = cache["f"].get_amps_sigmas(1.0, 1.0, jnp.float32(n))
            return float(np.asarray(a, np.float64).sum())
        for i in rest:
            c = cases[i]
            if c["mode"] == "amps":
                out[i] = {"S": [fhex(S_of(n)) for n in c["n"]]}
                continue
            N, T, p = c["N"], c["profile"], c["params"]
            P = c["P"]
            rng = np.random.default_rng(c["seed"])
            if c["psf"] == "gauss":
                psf = RR.gaussian_psf(P, c["fwhm"]) if P % 2 else None
                if psf is None:
                    x = np.arange(P) - (P - 1) / 2
                    s_ = c["fwhm"] / 2.3548
                    psf = np.exp(-0.5 * (x[:, None] ** 2 + x[None, :] ** 2) / s_ ** 2)
                    psf /= psf.sum()
            else:
                psf = np.abs(rng.normal(size=(P, P))) + 0.05
                psf /= psf.sum()
            psf = psf * c["psf_sum"]
            o = {"oracle": [], "stats": {}}
            kw = dict(os_pixel_size=8, num_os=12) if c["renderer"] == "pixel" else {}
            r = REND[c["renderer"]]((N, N), jnp.array(psf.astype(np.float32)), **kw)
            im = np.asarray(r.render_source(p, T), np.float64)
            tot = float(im.sum())
            psum = float(np.asarray(psf, np.float32).astype(np.float64).sum())
            flux = p["flux"]
            comps = []   # (fraction of flux, n or None for a point source)
            if T == "sersic": comps = [(1.0, p["n"])]
            elif T == "exp": comps = [(1.0, 1.0)]
            elif T == "dev": comps = [(1.0, 4.0)]
            elif T == "pointsource": comps = [(1.0, None)]
            elif T == "doublesersic": comps = [(p["f_1"], p["n_1"]), (1 - p["f_1"], p["n_2"])]
            elif T == "sersic_exp": comps = [(p["f_1"], p["n"]), (1 - p["f_1"], 1.0)]
            elif T == "sersic_pointsource": comps = [(1 - p["f_ps"], p["n"]), (p["f_ps"], None)]
            o["stats"]["ratio"] = tot / (flux * psum)
            if c["renderer"] == "fourier":
                W = sum(f * (1.0 if n is None else S_of(n)) for f, n in comps)
                want = psum * flux * W
                o["stats"]["exact_rel_err"] = abs(tot - want) / abs(want)
                if abs(tot - want) > 2e-4 * abs(want):
                    o["oracle"].append("Fourier renderer total %.6g differs from sum(psf)*flux*W = %.6g (W = split-weighted amplitude sums)" % (tot, want))
            if T == "pointsource" and c["renderer"] != "pixel":
                if abs(tot - flux * psum) > 1e-4 * abs(flux * psum):
                    o["oracle"].append("point source total %.6g != flux*sum(psf) = %.6g" % (tot, flux * psum))
            if T == "pointsource" and c["renderer"] == "pixel":
                if abs(tot - flux * psum) > 1e-4 * abs(flux * psum):
                    o["oracle"].append("pixel point source total %.6g != flux*sum(psf) = %.6g (stamp inside the frame)" % (tot, flux * psum))
            if c["renderer"] == "pixel" and T == "sersic":
                intr = np.asarray(r.render_int_sersic(p["xc"], p["yc"], p["flux"], p["r_eff"], p["n"], p["ellip"], p["theta"]), np.float64)
                if abs(tot - psum * intr.sum()) > 2e-4 * abs(psum * intr.sum()):
                    o["oracle"].append("pixel renderer total %.6g != sum(psf)*sum(intrinsic) = %.6g" % (tot, psum * intr.sum()))
            # bands of the property against the independent float64 integration (extended profiles, single component family)
            if c.get("band") and all(n is not None for _, n in comps):
                fin = fout = 0.0
                for f, n in comps:
                    q = dict(xc=p["xc"], yc=p["yc"], flux=1.0, theta=p.get("theta", 0.0))
                    if T == "doublesersic":
                        idx = 1 if (f, n) == comps[0] else 2
                        q.update(r_eff=p["r_eff_%d" % idx], ellip=p["ellip_%d" % idx], n=n)
                    elif T == "sersic_exp":
                        idx = 1 if (f, n) == comps[0] else 2
                        q.update(r_eff=p["r_eff_%d" % idx], ellip=p["ellip_%d" % idx], n=n)
                    else:
                        q.update(r_eff=p["r_eff"], ellip=p["ellip"], n=n)
                    a, b = RR.total_fraction_inside(N, q)
                    fin += f * a
                    fout += f * b
                ratio = tot / (flux * psum)
                o["stats"]["f_in"] = fin
                if c["renderer"] in ("fourier", "hybrid"):
                    nmin = min(n for _, n in comps); nmax = max(n for _, n in comps)
                    if 0.8 <= nmin and nmax <= 6:
                        band = 0.02 if (1.25 <= nmin and nmax <= 4) else 0.045
                        if abs(ratio - fin) > band + max(fout, 0) + 0.01:
                            o["oracle"].append("sum/flux/sum(psf) = %.4f, in-footprint fraction %.4f, out-of-footprint %.4f (band %.3f)" % (ratio, fin, fout, band))
                else:
                    boxc = N // 2
                    if all(n <= 2.5 for _, n in comps) and p.get("r_eff", 2) >= 1.5 and abs(p["xc"] - boxc) < 7 and abs(p["yc"] - boxc) < 7:
                        if abs(ratio - fin) > 0.015:
                            o["oracle"].append("pixel renderer: sum/flux/sum(psf) = %.4f vs in-footprint fraction %.4f" % (ratio, fin))
            out[i] = o
    json.dump(out, open(sys.argv[2], "w"))


if __name__ == "__main__":
    main()

"""Implementation-side oracle of C02: Gaussian-weighted image moments of real
renderings vs an independent float64 reference renderer (ref/refrender.py).

in : [{"renderer": str, "N": int, "params": {...sersic...}, "psf": "gauss"|"moffat"|"delta", "fwhm": float}]
out: [{"oracle": [...], "impl": moments, "ref": moments, "half_light": float|null}]
"""
import json
import os
import sys

import numpy as np
import nplib
from nplib import *  # noqa

sys.path.insert(0, os.path.join(os.environ.get("VERIF_DIR", "/verif"), "ref"))
import refrender as RR  # noqa: E402


def make_psf(kind, fwhm, P=21):
    if kind == "delta":
        p = np.zeros((1, 1)); p[0, 0] = 1.0
        return p
    if kind == "gauss":
        return RR.gaussian_psf(P, fwhm)
    x = np.arange(P) - (P - 1) / 2
    X, Y = np.meshgrid(x, x)
    beta = 3.0
    alpha = fwhm / (2 * np.sqrt(2 ** (1 / beta) - 1))
    m = (1 + (X ** 2 + Y ** 2) / alpha ** 2) ** (-beta)
    return m / m.sum()


def dang(a, b):
    d = (a - b) % np.pi
    return min(d, np.pi - d)


def run(c):
    N, p = c["N"], c["params"]
    psf = make_psf(c["psf"], c["fwhm"])
    kw = {}
    if c["renderer"] == "pixel":
        kw = dict(os_pixel_size=8, num_os=12)
    if c["renderer"] == "hybrid8":      # HybridRenderer with 8 of the 15 components evaluated in real space
        kw = dict(num_pixel_render=8)
    r = REND[c["renderer"].rstrip("8")]((N, N), jnp.array(psf.astype(np.float32)), **kw)
    prof = c.get("profile", "sersic")
    im = np.asarray(r.render_source(p, prof), np.float64)
    if prof == "sersic":
        ref = RR.pixel_integrate(N, p)
    elif prof == "sersic_pointsource":
        # extended part + a point of light at the SAME (xc, yc): the reference adds the point after the convolution as the analytic
        # (pixel-sampled, unit-sum) Gaussian PSF centred on (xc, yc)
        ext = dict(p, flux=p["flux"] * (1 - p["f_ps"]))
        ref = RR.pixel_integrate(N, ext)
        ref = RR.convolve_centered(ref, psf)
        s_ = c["fwhm"] / 2.3548
        cols_, rows_ = np.meshgrid(np.arange(N), np.arange(N))
        g_ = np.exp(-0.5 * ((cols_ - p["xc"]) ** 2 + (rows_ - p["yc"]) ** 2) / s_ ** 2)
        ref = ref + p["flux"] * p["f_ps"] * g_ / g_.sum()
        c = dict(c, psf="delta")        # (already convolved above)
    else:
        # composite: the sum of its two components, each with its own r_eff, n and ELLIPTICITY, sharing centre and angle
        comps = {"doublesersic": (("n_1", "n_2")), "sersic_exp": (("n", None))}[prof]
        c1 = dict(xc=p["xc"], yc=p["yc"], theta=p["theta"], flux=p["flux"] * p["f_1"], r_eff=p["r_eff_1"], ellip=p["ellip_1"], n=p[comps[0]])
        c2 = dict(xc=p["xc"], yc=p["yc"], theta=p["theta"], flux=p["flux"] * (1 - p["f_1"]), r_eff=p["r_eff_2"], ellip=p["ellip_2"], n=(p[comps[1]] if comps[1] else 1.0))
        ref = RR.pixel_integrate(N, c1) + RR.pixel_integrate(N, c2)
        p = dict(p, r_eff=max(p["r_eff_1"], p["r_eff_2"]), ellip=0.5 * (p["ellip_1"] + p["ellip_2"]), n=1.0)   # only used for the weight width below
    if c["psf"] != "delta":
        ref = RR.convolve_centered(ref, psf)
    sw = max(c.get("sw_factor", 2.0) * p["r_eff"], 3.0)
    mi, mr = RR.moments(im, sw), RR.moments(ref, sw)
    out = {"oracle": [], "impl": {k: float(v) for k, v in mi.items()}, "ref": {k: float(v) for k, v in mr.items()}}
    pix = c["renderer"] == "pixel"
    tol_c, tol_pa, tol_q, tol_s = (0.08, 0.04, 0.05, 0.015) if pix else (0.2, 0.06, 0.05, 0.08)
    dc = np.hypot(mi["x"] - mr["x"], mi["y"] - mr["y"])
    if dc > tol_c:
        out["oracle"].append("centroid differs from the reference by %.3f px (tolerance %.2f)" % (dc, tol_c))
    # the centroid itself: xc is the column, yc the row coordinate
    if np.hypot(mi["x"] - p["xc"], mi["y"] - p["yc"]) > tol_c + 0.05:
        out["oracle"].append("light centroid (%.3f, %.3f) is not at (xc, yc) = (%.3f, %.3f)" % (mi["x"], mi["y"], p["xc"], p["yc"]))
    if 0.3 <= p["ellip"] <= 0.8 and not c.get("centroid_only"):
        if dang(mi["pa"], mr["pa"]) > tol_pa:
            out["oracle"].append("position angle %.4f vs reference %.4f (tolerance %.2f rad)" % (mi["pa"], mr["pa"], tol_pa))
        if dang(mi["pa"], p["theta"]) > 0.15:
            out["oracle"].append("major axis at %.3f rad from +y towards -x, theta = %.3f" % (mi["pa"], p["theta"] % np.pi))
        if abs(mi["q"] / mr["q"] - 1) > tol_q:
            out["oracle"].append("axis ratio %.4f vs reference %.4f" % (mi["q"], mr["q"]))
    if ((not pix) or p["n"] <= 2.5) and not c.get("centroid_only"):
        # the size clause is judged with a narrower weight (1.5 r_eff): the Fourier renderers' wrapped-around
        # light inflates wide-weight second moments at high n although the convention is right
        sws = max(c.get("sw_size_factor", 1.5) * p["r_eff"], 3.0)
        si, sr = RR.moments(im, sws)["size2"], RR.moments(ref, sws)["size2"]
        out["impl"]["size2_narrow"], out["ref"]["size2_narrow"] = float(si), float(sr)
        if abs(si / sr - 1) > tol_s:
            out["oracle"].append("squared size %.4f vs reference %.4f" % (si, sr))
    # enclosed light inside the r_eff ellipse: unconvolved, fully oversampled pixel rendering
    out["half_light"] = None
    # (restricted to the pixel renderer's documented accuracy domain: n <= 2.5 and a minor axis resolved by the
    #  16-point sub-sampling; outside it the fixed quadrature, not the parameter convention, limits the result)
    if c.get("half_light") and p["n"] <= 2.5 and (1 - p["ellip"]) * p["r_eff"] >= 1.2:
        one = np.ones((1, 1), np.float32)
        rp = PixelRenderer((N, N), jnp.array(one), os_pixel_size=N // 2, num_os=16)
        imu = np.asarray(rp.render_source(p, "sersic"), np.float64)
        # apportion each pixel's (implementation) flux between inside / outside the ellipse by the sub-pixel
        # distribution of the reference profile: a plain area-coverage weight assumes the light is uniform
        # within a pixel and under-estimates the enclosed light by ~2 % for minor axes of 1-2 px (false alarm
        # seen at n=0.85, r_eff=3.0, ellip=0.46: 0.479 instead of 0.497)
        osn = 15
        off = (np.arange(osn) + 0.5) / osn - 0.5
        cols, rows = np.meshgrid(np.arange(N), np.arange(N))
        num = np.zeros((N, N))
        den = np.zeros((N, N))
        t = p["theta"]
        for a in off:
            for b in off:
                dx, dy = cols + a - p["xc"], rows + b - p["yc"]
                u = -dx * np.sin(t) + dy * np.cos(t)
                v = dx * np.cos(t) + dy * np.sin(t)
                inside = (np.sqrt(u ** 2 + (v / (1 - p["ellip"])) ** 2) <= p["r_eff"])
                sb = RR.sersic_sb(cols + a, rows + b, p)
                num += inside * sb
                den += sb
        cov = np.where(den > 0, num / np.where(den > 0, den, 1.0), 0.0)
        frac = float((imu * cov).sum() / p["flux"])
        out["half_light"] = frac
        if abs(frac - 0.5) > 0.02:
            out["oracle"].append("light inside the r_eff ellipse is %.4f of the flux (expected 0.50 +/- 0.02)" % frac)
    return out


def main():
    cases = json.load(open(sys.argv[1]))
    json.dump([run(c) for c in cases], open(sys.argv[2], "w"))


if __name__ == "__main__":
    main()

"""Implementation side of C03.

modes
  ramp   : the ratio PSF_fft / rfft2(psf, s = im_shape) of a real renderer at a few frequencies (unit-modulus phases)
  point  : point sources at integer / fractional positions vs the embedded PSF stamp (exact property), all three renderers
  conv   : extended sources vs direct circular convolution of the renderer's own intrinsic image; unit PSF = identity
"""
import json
import sys

import numpy as np
import nplib
from nplib import *  # noqa


def fhex(x):
    return float(x).hex()


def stamp(P, seed, kind="asym"):
    rng = np.random.default_rng(seed)
    p = rng.integers(1, 9, size=(P, P)).astype(np.float64)
    p[rng.integers(P), rng.integers(P)] += 40.0          # off-centre peak
    return p / p.sum()


def smooth_stamp(P, seed):
    """asymmetric, off-centre-peaked but reasonably sampled stamp (two offset Gaussians)"""
    rng = np.random.default_rng(seed)
    x = np.arange(P) - (P - 1) / 2
    X, Y = np.meshgrid(x, x)
    ox, oy = rng.uniform(-0.8, 0.8, 2)
    p = np.exp(-0.5 * (((X - ox) / 1.3) ** 2 + ((Y - oy) / 1.0) ** 2)) + 0.3 * np.exp(-0.5 * (((X + 1.0) / 0.9) ** 2 + ((Y - 0.7) / 1.2) ** 2))
    return p / p.sum()


def embed(N, psf, yc, xc, flux):
    """stamp with its geometric centre on (row yc, col xc) (integer placement; odd or even size)"""
    P0, P1 = psf.shape
    out = np.zeros((N, N))
    r0 = int(round(yc - (P0 - 1) / 2))
    c0 = int(round(xc - (P1 - 1) / 2))
    out[r0:r0 + P0, c0:c0 + P1] = flux * psf
    return out


def run(c):
    out = {"oracle": []}
    if c["mode"] == "ramp":
        N, P = c["N"], c["P"]
        psf = stamp(P, c["seed"])
        r = FourierRenderer((N, N), jnp.array(psf.astype(np.float32)))
        base = np.asarray(jnp.fft.rfft2(jnp.array(psf.astype(np.float32)), s=(N, N)))
        ratio = np.asarray(r.PSF_fft) / base
        pts = []
        for (ky, kx) in c["freqs"]:
            z = complex(ratio[ky, kx])
            pts.append([ky, kx, fhex(z.real), fhex(z.imag), fhex(float(np.asarray(r.FX)[ky, kx])), fhex(float(np.asarray(r.FY)[ky, kx]))])
        out["points"] = pts
        return out
    if c["mode"] == "rfft2":
        # the forward half-plane transform and the FFT convolution exactly as conv_fft spells it, on tiny arrays
        N = c["N"]
        a, b = jnp.array(np.array(c["a"], np.float32)), jnp.array(np.array(c["b"], np.float32))
        A = np.asarray(jnp.fft.rfft2(a))
        out["freqs"] = [[ky, kx, fhex(float(A[ky, kx].real)), fhex(float(A[ky, kx].imag))] for (ky, kx) in c["freqs"]]
        cv = np.asarray(jnp.fft.irfft2(jnp.fft.rfft2(a) * jnp.fft.rfft2(b), s=(N, N)))
        out["pixels"] = [[r_, c_, fhex(float(cv[r_, c_]))] for (r_, c_) in c["pixels"]]
        return out
    if c["mode"] == "point_ns":
        # non-square odd stamps at integer positions: the embedded-stamp claim is exact for all three renderers
        N, (P0, P1) = c["N"], c["shape"]
        rng = np.random.default_rng(c["seed"])
        psf = rng.integers(1, 9, size=(P0, P1)).astype(np.float64)
        psf[rng.integers(P0), rng.integers(P1)] += 40.0
        psf = psf / psf.sum()
        flux, xc, yc = c["flux"], c["xc"], c["yc"]
        want = embed(N, psf, yc, xc, flux)
        for kind in ("pixel", "fourier", "hybrid"):
            kw = dict(os_pixel_size=2, num_os=3) if kind == "pixel" else {}
            try:
                r = REND[kind]((N, N), jnp.array(psf.astype(np.float32)), **kw)
                im = np.asarray(r.render_source(dict(xc=xc, yc=yc, flux=flux), "pointsource"), np.float64)
            except Exception as ex:   # noqa
                out["oracle"].append("%s: a %dx%d PSF on a %dx%d image raises %s: %s" % (kind, P0, P1, N, N, type(ex).__name__, str(ex)[:100]))
                continue
            d = np.abs(im - want).max() / (flux * psf.max())
            out.setdefault("dev", {})[kind + "_ns"] = float(d)
            if d > 2e-5:
                out["oracle"].append("%s: point source at integer (%g, %g) with a %dx%d stamp differs from the embedded stamp by %.3g of the peak" % (kind, xc, yc, P0, P1, d))
        return out
    if c["mode"] == "point":
        N, P = c["N"], c["P"]
        integer_pos = float(c["xc"]).is_integer() and float(c["yc"]).is_integer()
        # integer positions: arbitrary spiky stamps (the claim is exact); fractional positions: the Fourier renderers shift
        # band-limitedly, so the centroid claim is tested with sampled (smooth, still asymmetric) stamps
        psf = stamp(P, c["seed"]) if (integer_pos and P % 2 == 1) else smooth_stamp(P, c["seed"])
        flux = c["flux"]
        for kind in ("pixel", "fourier", "hybrid"):
            kw = dict(os_pixel_size=2, num_os=3) if kind == "pixel" else {}
            r = REND[kind]((N, N), jnp.array(psf.astype(np.float32)), **kw)
            xc, yc = c["xc"], c["yc"]
            im = np.asarray(r.render_source(dict(xc=xc, yc=yc, flux=flux), "pointsource"), np.float64)
            peak = flux * psf.max()
            # the multi-source entry point (FitMulti, multi-band fitters) must apply the PSF exactly like render_source
            try:
                im_m = np.asarray(r.render_for_model({"xc_0": xc, "yc_0": yc, "flux_0": flux}, ["pointsource"], ""), np.float64)
                dm = np.abs(im_m - im).max() / peak
                out.setdefault("dev", {})[kind + "_for_model"] = float(dm)
                if dm > 2e-5:
                    out["oracle"].append("%s: render_for_model of a single point source differs from render_source by %.3g of the peak (PSF applied differently)" % (kind, dm))
            except Exception as ex:     # noqa
                out["oracle"].append("%s: render_for_model raised %s: %s" % (kind, type(ex).__name__, str(ex)[:100]))
            integer = float(xc).is_integer() and float(yc).is_integer()
            if integer and P % 2 == 1:
                want = embed(N, psf, yc, xc, flux)
                d = np.abs(im - want).max() / peak
                out.setdefault("dev", {})[kind] = float(d)
                if d > 2e-5:
                    alt = np.abs(im - embed(N, psf.T, yc, xc, flux)).max() / peak
                    out["oracle"].append("%s: point source at integer (%g, %g) differs from the embedded stamp by %.3g of the peak (vs transposed stamp: %.3g)" % (kind, xc, yc, d, alt))
            if (not integer) or P % 2 == 0:
                # flux-weighted centroid = position + centroid offset of the stamp about its geometric centre
                cols, rows = np.meshgrid(np.arange(N), np.arange(N))
                cx, cy = (im * cols).sum() / im.sum(), (im * rows).sum() / im.sum()
                pc, pr = np.meshgrid(np.arange(P), np.arange(P))
                ox = (psf * pc).sum() / psf.sum() - (P - 1) / 2
                oy = (psf * pr).sum() / psf.sum() - (P - 1) / 2
                d = np.hypot(cx - (xc + ox), cy - (yc + oy))
                out.setdefault("centroid_dev", {})[kind] = float(d)
                if d > 0.02:
                    out["oracle"].append("%s: centroid of the point source at (%g, %g) is off by %.3f px" % (kind, xc, yc, d))
            if abs(im.sum() - flux * psf.sum()) > 1e-4 * flux:
                out["oracle"].append("%s: point source total %.6g != flux*sum(psf)" % (kind, im.sum()))
        return out
    # conv
    N, P, p = c["N"], c["P"], c["params"]
    psf = stamp(P, c["seed"])
    for kind in ("pixel", "fourier", "hybrid"):
        kw = dict(os_pixel_size=4, num_os=6) if kind == "pixel" else {}
        r = REND[kind]((N, N), jnp.array(psf.astype(np.float32)), **kw)
        one = np.ones((1, 1), np.float32)
        r1 = REND[kind]((N, N), jnp.array(one), **kw) if kind != "hybrid" else None
        im = np.asarray(r.render_source(p, "sersic"), np.float64)
        if kind == "hybrid":
            # the hybrid renderer pre-convolves its real-space components analytically: compare its FFT part only through linearity (C08); skip
            continue
        intr = np.asarray(r1.render_source(p, "sersic"), np.float64)
        # unit PSF returns the intrinsic image unchanged
        if kind == "pixel":
            raw = np.asarray(r1.render_int_sersic(p["xc"], p["yc"], p["flux"], p["r_eff"], p["n"], p["ellip"], p["theta"]), np.float64)
            if np.abs(intr - raw).max() > 2e-5 * raw.max():
                out["oracle"].append("pixel: a 1x1 unit PSF does not return the intrinsic image")
        # circular convolution with the stamp centred on (P-1)/2 (odd P)
        if P % 2 == 1:
            c0 = (P - 1) // 2
            want = np.zeros_like(intr)
            for a in range(P):
                for b in range(P):
                    want += psf[a, b] * np.roll(np.roll(intr, a - c0, axis=0), b - c0, axis=1)
            d = np.abs(im - want).max() / want.max()
            out.setdefault("dev", {})[kind] = float(d)
            if d > 2e-5:
                out["oracle"].append("%s: extended source differs from the spatial convolution of its intrinsic image by %.3g of the peak" % (kind, d))
    return out


def main():
    cases = json.load(open(sys.argv[1]))
    json.dump([run(c) for c in cases], open(sys.argv[2], "w"))


if __name__ == "__main__":
    main()

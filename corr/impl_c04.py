"""Implementation-side oracle of C04: the three real renderers against each other and
against the independent float64 reference renderer; amplitude table vs direct decomposition.

in : [{"mode": "agree", "N": int, "profile": "sersic", "params": {...}, "psf": "gauss"|"moffat"|"asym", "fwhm": float}
      | {"mode": "table"}]
"""
import json
import os
import sys

import numpy as np
import nplib
from nplib import *  # noqa

sys.path.insert(0, os.path.join(os.environ.get("VERIF_DIR", "/verif"), "ref"))
import refrender as RR  # noqa: E402
sys.path.insert(0, os.path.join(os.environ.get("VERIF_DIR", "/verif"), "corr"))


def make_psf(kind, fwhm, P=21):
    if kind == "gauss":
        return RR.gaussian_psf(P, fwhm)
    if kind == "gauss_even":       # an even-sized stamp: its geometric centre lies between pixels
        return RR.gaussian_psf(16, fwhm)
    x = np.arange(P) - (P - 1) / 2
    X, Y = np.meshgrid(x, x)
    if kind == "moffat":
        beta = 3.0
        alpha = fwhm / (2 * np.sqrt(2 ** (1 / beta) - 1))
        m = (1 + (X ** 2 + Y ** 2) / alpha ** 2) ** (-beta)
        return m / m.sum()
    s = fwhm / 2.3548
    m = np.exp(-0.5 * ((X - 0.7) ** 2 / (1.2 * s) ** 2 + (Y + 0.4) ** 2 / s ** 2)) + 0.3 * np.exp(-0.5 * ((X + 1.5) ** 2 + (Y - 1.0) ** 2) / s ** 2)
    return m / m.sum()


def run_agree(c):
    N, p = c["N"], c["params"]
    psf = make_psf(c["psf"], c["fwhm"])
    out = {"oracle": [], "stats": {}}
    if c["psf"] == "gauss_even":
        # (the float64 reference convolution assumes odd stamps: for the even stamp only the hybrid-vs-Fourier clause is exercised)
        out["stats"] = {}
        peak = None
        f = REND["fourier"]((N, N), jnp.array(psf.astype(np.float32)))
        fim = np.asarray(f.render_source(p, "sersic"), np.float64)
        for m in c.get("ms", [3, 8]):
            h = REND["hybrid"]((N, N), jnp.array(psf.astype(np.float32)), num_pixel_render=m)
            d = np.abs(np.asarray(h.render_source(p, "sersic"), np.float64) - fim).max() / fim.max()
            out["stats"]["hybrid%d_vs_fourier_even_stamp" % m] = float(d)
            if d > 6e-3:
                out["oracle"].append("hybrid (num_pixel_render=%d) vs Fourier with a 16x16 PSF stamp: %.3g of the peak (bound 6e-3)" % (m, d))
        return out
    ref = RR.convolve_centered(RR.pixel_integrate(N, p), psf)
    peak, tot = ref.max(), np.abs(ref).sum()
    ims = {}
    for kind in ("fourier", "hybrid", "pixel"):
        kw = dict(os_pixel_size=8, num_os=12) if kind == "pixel" else {}
        r = REND[kind]((N, N), jnp.array(psf.astype(np.float32)), **kw)
        ims[kind] = np.asarray(r.render_source(p, "sersic"), np.float64)
    n = p["n"]
    for kind in ("fourier", "hybrid"):
        d = np.abs(ims[kind] - ref)
        mx, l1 = d.max() / peak, d.sum() / tot
        out["stats"][kind] = [float(mx), float(l1)]
        tm, tl = (0.12, 0.10) if n <= 4 else (0.18, 0.15)
        if mx > tm or l1 > tl:
            out["oracle"].append("%s vs reference: max %.3f of peak, L1 %.3f of total (bands %.2f / %.2f)" % (kind, mx, l1, tm, tl))
    boxc = N // 2
    if n <= 2.5 and p["r_eff"] >= 1.5 and abs(p["xc"] - boxc) < 7 and abs(p["yc"] - boxc) < 7:
        d = np.abs(ims["pixel"] - ref)
        mx, l1 = d.max() / peak, d.sum() / tot
        out["stats"]["pixel"] = [float(mx), float(l1)]
        if mx > 0.02 or l1 > 0.02:
            out["oracle"].append("pixel vs reference: max %.4f of peak, L1 %.4f of total (bands 0.02 / 0.02)" % (mx, l1))
    if c["psf"] == "gauss" and abs(p["xc"] - N / 2) <= 5 and abs(p["yc"] - N / 2) <= 5:
        d = np.abs(ims["hybrid"] - ims["fourier"]).max() / peak
        out["stats"]["hybrid_vs_fourier"] = float(d)
        if d > 6e-3:
            out["oracle"].append("hybrid vs Fourier: %.3g of the peak (bound 6e-3)" % d)
        # the same with more components in real space (the bound holds for every num_pixel_render)
        for m in c.get("ms", [8]):
            h = REND["hybrid"]((N, N), jnp.array(psf.astype(np.float32)), num_pixel_render=m)
            d = np.abs(np.asarray(h.render_source(p, "sersic"), np.float64) - ims["fourier"]).max() / peak
            out["stats"]["hybrid%d_vs_fourier" % m] = float(d)
            if d > 6e-3:
                out["oracle"].append("hybrid (num_pixel_render=%d) vs Fourier: %.3g of the peak (bound 6e-3)" % (m, d))
    return out


def run_table(c):
    import subprocess
    # float64 mode in a fresh interpreter (jax_enable_x64 must be set before any array is created)
    code = r"""
import jax, json, sys
jax.config.update('jax_enable_x64', True)
import jax.numpy as jnp, numpy as np
from pysersic.rendering import FourierRenderer, sersic_gauss_decomp
psf = np.zeros((3,3)); psf[1,1] = 1
r = FourierRenderer((16,16), jnp.array(psf))
rd = FourierRenderer((16,16), jnp.array(psf), use_interp_amps=False)      # the documented direct-decomposition option
worst = 0.0
worst_opt = 0.0
for i in range(0, 50, 1):
    n = float(r.n_ax[i])
    a_int, s_int = r.get_amps_sigmas(1.0, 1.0, n)
    a_dir, s_dir = sersic_gauss_decomp(1.0, 1.0, n, r.etas, r.betas, r.frac_start, r.frac_end, r.n_sigma)
    worst = max(worst, float(jnp.abs(a_int - a_dir).max()), float(jnp.abs(s_int - s_dir).max() / jnp.abs(s_dir).max()))
    if i % 7 == 0:
        for (fl, re) in ((1.0, 1.0), (3.0, 2.0), (0.5, 4.5)):
            a1, s1 = r.get_amps_sigmas(fl, re, n)
            a2, s2 = rd.get_amps_sigmas(fl, re, n)
            worst_opt = max(worst_opt, float(jnp.abs(a1 - a2).max()) / fl, float(jnp.abs(s1 - s2).max() / jnp.abs(s1).max()))
print(json.dumps({'worst': worst, 'worst_opt': worst_opt}))
"""
    p = subprocess.run([sys.executable, "-W", "ignore", "-c", code], stdout=subprocess.PIPE, stderr=subprocess.PIPE, text=True, env=dict(os.environ))
    out = {"oracle": [], "stats": {}}
    try:
        js = json.loads(p.stdout.strip().splitlines()[-1])
        w = js["worst"]
        out["stats"]["table_vs_direct"] = w
        if w > 1e-3:
            out["oracle"].append("interpolated table differs from the direct decomposition at a tabulated index by %.3g of the flux" % w)
        out["stats"]["use_interp_amps_on_vs_off"] = js["worst_opt"]
        if js["worst_opt"] > 1e-3:
            out["oracle"].append("renderer with use_interp_amps=False differs from the default (interpolated) one at a tabulated index by %.3g of the flux (flux, r_eff != 1 included)" % js["worst_opt"])
    except Exception:
        out["oracle"].append("table-vs-direct comparison failed to run: " + p.stderr[-300:])
    return out


def main():
    cases = json.load(open(sys.argv[1]))
    json.dump([{"agree": run_agree, "table": run_table}[c["mode"]](c) for c in cases], open(sys.argv[2], "w"))


if __name__ == "__main__":
    main()

"""Implementation side of C05: trace the real model of a fitter at a prior draw.

in : [{"fitter": "single"|"multi", "types": [...], "sky": str, "loss": str, "renderer": str, "suffix": str, "N": int, "seed": int, "mask": bool}]
out: per case: sites (name, kind), exposed parameter values, per-site latent log-probs, per-pixel observed log-prob,
     the model image, an INDEPENDENT re-rendering (renderer called directly with the exposed values + closed-form sky),
     the total log_density and the sum of the per-site terms.
"""
import json
import sys

import numpy as np
import nplib
from nplib import *  # noqa
from numpyro.infer.util import log_density
from pysersic.rendering import base_profile_params as PP


def fhex(x):
    return float(x).hex()


def run(c):
    N = c["N"]
    rng = np.random.default_rng(c["seed"])
    data = np.array([[dyadic(rng, 0.5, 6, 4) for _ in range(N)] for _ in range(N)], np.float32)
    rms = np.array([[dyadic(rng, 0.25, 2, 4) for _ in range(N)] for _ in range(N)], np.float32)
    mask = (rng.random((N, N)) < 0.3) if c["mask"] else None
    if mask is not None:
        rms = np.where(mask, rms * 8.0, rms).astype(np.float32)       # masked (bad) pixels typically carry inflated uncertainties
    psf = psf_stamp("gauss", 3)
    kw = dict(os_pixel_size=1, num_os=2) if c["renderer"] == "pixel" else {}
    lossf = getattr(ploss, c["loss"])
    sfx = c["suffix"]
    if c["fitter"] == "single":
        prior = source_prior(c["types"][0], c["sky"], sfx, N, sky_guess=1.0, sky_err=0.5)
        f = FitSingle(data, rms, psf, prior, mask=mask, loss_func=lossf, renderer=REND[c["renderer"]], renderer_kwargs=kw)
    else:
        prior = multi_prior(c["types"], c["sky"], sfx, N, sky_guess=1.0, sky_err=0.5)
        f = FitMulti(data, rms, psf, prior, mask=mask, loss_func=lossf, renderer=REND[c["renderer"]], renderer_kwargs=kw)
    m = f.build_model()
    vals, _ = prior_draw(m, c["seed"])
    tr = trace_at(m, vals)
    out = {"sites": [], "oracle": [], "latent_lp": {}, "values": {}}
    total_sites = 0.0
    obs = None
    for k, s in tr.items():
        if s["type"] == "sample":
            lp = np.asarray(s["fn"].log_prob(s["value"]), dtype=np.float64)
            total_sites += float(lp.sum())
            if s.get("is_observed", False) or type(getattr(s["fn"], "base_dist", s["fn"])).__name__ == "Unit":
                out["sites"].append([k, "observed"])
                obs = (k, lp)
            else:
                out["sites"].append([k, "latent"])
                out["latent_lp"][k] = [fhex(np.float32(s["value"])), fhex(lp), type(s["fn"]).__name__]
        elif s["type"] == "deterministic":
            out["sites"].append([k, "deterministic"])
            if np.ndim(s["value"]) == 0:
                out["values"][k] = fhex(np.float32(s["value"]))
    ld = float(log_density(m, (), {}, vals)[0])
    out["log_density"], out["sum_of_sites"] = fhex(ld), fhex(total_sites)
    if abs(ld - total_sites) > 1e-3 * (1 + abs(ld)):
        out["oracle"].append("log_density %r != sum of per-site log-probs %r" % (ld, total_sites))
    model_img = np.asarray(tr["model" + sfx]["value"], dtype=np.float64)
    # independent re-rendering from the exposed parameter values
    V = {k: tr[k]["value"] for k in tr if tr[k]["type"] == "deterministic" and np.ndim(tr[k]["value"]) == 0}
    if c["fitter"] == "single":
        params = {p: V[p + sfx] for p in PP[c["types"][0]]}
        img = f.renderer.render_source(params, c["types"][0])
        sky_sfx = sfx
    else:
        img = 0
        for j, T in enumerate(c["types"]):
            params = {p: V["%s_%d%s" % (p, j, sfx)] for p in PP[T]}
            img = img + f.renderer.render_source(params, T)
        sky_sfx = ""
    rr, cc = np.mgrid[0:N, 0:N]
    sky = np.zeros((N, N))
    if c["sky"] != "none":
        sky = sky + float(V["sky_back" + sky_sfx])
    if c["sky"] == "tilted-plane":
        sky = sky + (cc - N / 2) * float(V["sky_x_sl" + sky_sfx]) + (rr - N / 2) * float(V["sky_y_sl" + sky_sfx])
    want = np.asarray(img, dtype=np.float64) + sky
    scale = np.abs(want).max() + 1.0
    if not np.all(np.abs(model_img - want) <= 5e-6 * scale):
        i = np.unravel_index(np.argmax(np.abs(model_img - want)), want.shape)
        out["oracle"].append("recorded model image differs from render(exposed parameters)+sky at %s: %r vs %r" % (i, model_img[i], want[i]))
    good = np.asarray(f.mask)
    lp = obs[1]
    out["loss_site"] = obs[0]
    out["inputs"] = {"mod": [[fhex(v) for v in r] for r in np.asarray(tr["model" + sfx]["value"], np.float32)],
                     "data": [[fhex(v) for v in r] for r in np.asarray(f.data)], "rms": [[fhex(v) for v in r] for r in np.asarray(f.rms)],
                     "good": [[bool(v) for v in r] for r in good]}
    out["logp"] = [[fhex(v) for v in r] for r in lp]
    if np.any(lp[~good] != 0):
        out["oracle"].append("masked pixel contributes to the likelihood")
    if mask is not None and not np.array_equal(good, ~mask):
        out["oracle"].append("fitter.mask is not the negation of the user mask")
    out["latents"] = {k: v[0] for k, v in out["latent_lp"].items() if not k.endswith("_base") or k.startswith(("sys_rms_base", "outlier_frac_base"))}
    return out


def main():
    cases = json.load(open(sys.argv[1]))
    res = []
    for c in cases:
        try:
            res.append(run(c))
        except Exception as ex:  # noqa: the model cannot even be built / traced
            import traceback
            res.append({"failed": True, "sites": [], "latent_lp": {}, "latents": {}, "values": {},
                        "oracle": ["building / tracing the model raised %s: %s" % (type(ex).__name__, str(ex)[:200])],
                        "trace": traceback.format_exc()[-800:]})
    json.dump(res, open(sys.argv[2], "w"))


if __name__ == "__main__":
    main()

"""Implementation side of C08 (the property's own oracle on the real renderers):
flux scaling, zero flux, composite = sum of components, exp/dev = sersic(1/4),
scene = sum of sources, jax.linear_transpose w.r.t. flux.

in : [{"renderer": str, "N": int, "sources": [{"type": str, "params": {...}}], "scale": float, "seed": int, "suffix": str}]
out: [{"oracle": [...], "peak": float}]
"""
import json
import sys

import numpy as np
import nplib
from nplib import *  # noqa
from pysersic.rendering import base_profile_params as PP

_CACHE = {}


def renderer(kind, N):
    key = (kind, N)
    if key not in _CACHE:
        psf = psf_stamp("gauss", 5)
        _CACHE[key] = REND[kind]((N, N), jnp.array(psf))
    return _CACHE[key]


def run(c):
    r = renderer(c["renderer"], c["N"])
    out = {"oracle": []}
    srcs = c["sources"]
    sfx = c["suffix"]
    ims = [np.asarray(r.render_source({k + sfx: v for k, v in s["params"].items()}, s["type"], suffix=sfx), np.float64) for s in srcs]
    peak = max(np.abs(im).max() for im in ims) + 1e-30
    out["peak"] = float(peak)
    tol = 5e-6 * peak * max(1, len(srcs))
    # scene = sum of sources
    pd = {}
    for j, s in enumerate(srcs):
        for k, v in s["params"].items():
            pd["%s_%d%s" % (k, j, sfx)] = v
    scene = np.asarray(r.render_for_model(pd, [s["type"] for s in srcs], sfx), np.float64)
    if np.abs(scene - sum(ims)).max() > tol:
        out["oracle"].append("render_for_model differs from the sum of render_source by %.3g of the peak" % (np.abs(scene - sum(ims)).max() / peak))
    # reversed catalogue order
    pd2 = {}
    rs = list(reversed(srcs))
    for j, s in enumerate(rs):
        for k, v in s["params"].items():
            pd2["%s_%d%s" % (k, j, sfx)] = v
    scene2 = np.asarray(r.render_for_model(pd2, [s["type"] for s in rs], sfx), np.float64)
    if np.abs(scene2 - scene).max() > tol:
        out["oracle"].append("scene depends on the catalogue order")
    a = c["scale"]
    for s, im in zip(srcs, ims):
        T, p = s["type"], s["params"]
        # linear in flux (negative and zero factors too)
        p2 = dict(p, flux=p["flux"] * a)
        im2 = np.asarray(r.render_source(p2, T), np.float64)
        if np.abs(im2 - a * im).max() > 5e-6 * peak * max(1.0, abs(a)):
            out["oracle"].append("%s: render(flux*%g) != %g*render(flux) by %.3g of peak" % (T, a, a, np.abs(im2 - a * im).max() / peak))
        z = np.asarray(r.render_source(dict(p, flux=0.0), T), np.float64)
        if np.abs(z).max() != 0 and not np.abs(z).max() <= 1e-12 * peak:
            out["oracle"].append("%s: zero-flux source is not zero" % T)
        # composites
        base = {k: p[k] for k in ("xc", "yc", "theta") if k in p}
        parts = None
        if T == "doublesersic":
            parts = [("sersic", dict(base, flux=p["flux"] * p["f_1"], n=p["n_1"], ellip=p["ellip_1"], r_eff=p["r_eff_1"])),
                     ("sersic", dict(base, flux=p["flux"] * (1 - p["f_1"]), n=p["n_2"], ellip=p["ellip_2"], r_eff=p["r_eff_2"]))]
        elif T == "sersic_exp":
            parts = [("sersic", dict(base, flux=p["flux"] * p["f_1"], n=p["n"], ellip=p["ellip_1"], r_eff=p["r_eff_1"])),
                     ("sersic", dict(base, flux=p["flux"] * (1 - p["f_1"]), n=1.0, ellip=p["ellip_2"], r_eff=p["r_eff_2"]))]
        elif T == "sersic_pointsource":
            parts = [("sersic", dict(base, flux=p["flux"] * (1 - p["f_ps"]), n=p["n"], ellip=p["ellip"], r_eff=p["r_eff"])),
                     ("pointsource", dict(xc=p["xc"], yc=p["yc"], flux=p["flux"] * p["f_ps"]))]
        elif T in ("exp", "dev"):
            parts = [("sersic", dict(p, n=1.0 if T == "exp" else 4.0))]
        if parts:
            tot = sum(np.asarray(r.render_source(pp, tt), np.float64) for tt, pp in parts)
            if np.abs(tot - im).max() > 5e-6 * peak * 2:
                out["oracle"].append("%s is not the sum of its components (%.3g of peak)" % (T, np.abs(tot - im).max() / peak))
        # structural linearity in flux: transposition succeeds only for programs linear in that argument
        try:
            fl = lambda f: r.render_source(dict(p, flux=f), T)
            jax.linear_transpose(fl, jnp.float32(1.0))(jnp.ones((c["N"], c["N"]), jnp.float32))
        except Exception as ex:  # noqa
            out["oracle"].append("%s: program is not linear in flux (linear_transpose failed: %s)" % (T, type(ex).__name__))
    return out


def main():
    cases = json.load(open(sys.argv[1]))
    json.dump([run(c) for c in cases], open(sys.argv[2], "w"))


if __name__ == "__main__":
    main()

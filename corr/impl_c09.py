"""Implementation-side oracle of C09: pairs of renderings for transformed inputs.

in : [{"renderer": str, "N": int (even), "profile": str, "params": {...}, "psf_seed": int}]
out: [{"oracle": [...], "maxdev": {clause: fraction of peak}}]
"""
import json
import sys

import numpy as np
import nplib
from nplib import *  # noqa


def asym_psf(seed, P=25, fwhm=4.0):   # P=25: the stamp edge is at > 5 sigma, so truncating it leaks < 1e-6 to the Nyquist frequency (P=15 leaked 1e-5)
    """well-sampled PSF of arbitrary asymmetric shape: sum of three offset Gaussians"""
    rng = np.random.default_rng(seed)
    x = np.arange(P) - (P - 1) / 2
    X, Y = np.meshgrid(x, x)
    s = fwhm / 2.3548
    p = np.zeros((P, P))
    for w in (1.0, 0.4, 0.25):
        ox, oy = rng.uniform(-1.2, 1.2, 2)
        sx, sy = s * rng.uniform(0.9, 1.3), s * rng.uniform(0.9, 1.3)
        p += w * np.exp(-0.5 * (((X - ox) / sx) ** 2 + ((Y - oy) / sy) ** 2))
    return (p / p.sum()).astype(np.float32)


def tr_params(p, kind, N):
    q = dict(p)
    if kind == "transpose":
        q["xc"], q["yc"] = p["yc"], p["xc"]
        if "theta" in p:
            q["theta"] = np.pi / 2 - p["theta"]
    elif kind == "mirror":
        q["xc"] = N - 1 - p["xc"]
        if "theta" in p:
            q["theta"] = -p["theta"]
    elif kind == "theta_pi":
        q["theta"] = p["theta"] + np.pi
    return q


def run(c):
    N = c["N"]
    psf = asym_psf(c["psf_seed"], P=c.get("P", 25))
    if c["renderer"] == "hybrid8":       # the hybrid renderer with 8 of its 15 components in real space
        R = lambda shape, P: REND["hybrid"](shape, P, num_pixel_render=8)      # noqa: E731
    else:
        R = REND[c["renderer"]]
    r = R((N, N), jnp.array(psf))
    rT = R((N, N), jnp.array(psf.T.copy()))
    rM = R((N, N), jnp.array(psf[:, ::-1].copy()))
    p, T = c["params"], c["profile"]
    im = np.asarray(r.render_source(p, T), np.float64)
    peak = np.abs(im).max()
    out = {"oracle": [], "maxdev": {}}

    def chk(name, a, b, tol):
        d = np.abs(a - b).max() / peak
        out["maxdev"][name] = float(d)
        if not d <= tol:
            out["oracle"].append("%s: max deviation %.3g of the peak (tolerance %.1g)" % (name, d, tol))
    if "theta" in p:
        chk("theta+pi", np.asarray(r.render_source(tr_params(p, "theta_pi", N), T), np.float64), im, 1e-5)
        p0 = {k: (0.0 if k.startswith("ellip") else v) for k, v in p.items()}
        a = np.asarray(r.render_source(p0, T), np.float64)
        b = np.asarray(r.render_source(dict(p0, theta=p0["theta"] + 1.234), T), np.float64)
        chk("ellip=0 independent of theta", a, b, 1e-5)
    chk("transpose", np.asarray(rT.render_source(tr_params(p, "transpose", N), T), np.float64), im.T, 1e-5)
    chk("mirror", np.asarray(rM.render_source(tr_params(p, "mirror", N), T), np.float64), im[:, ::-1], 1e-4 if c["renderer"] == "pixel" else 2e-5)
    if c["renderer"] != "pixel":
        da, db = c["shift"]
        q = dict(p, xc=p["xc"] + da, yc=p["yc"] + db)
        im2 = np.asarray(r.render_source(q, T), np.float64)
        m = 6 + max(abs(da), abs(db))
        A = im[m:N - m, m:N - m]
        B = im2[m + db:N - m + db, m + da:N - m + da]
        chk("integer translation", B, A, 1e-5)
    return out


def main():
    cases = json.load(open(sys.argv[1]))
    json.dump([run(c) for c in cases], open(sys.argv[2], "w"))


if __name__ == "__main__":
    main()

"""Implementation-side oracle of C10: jit(value_and_grad(sum(w * render_source(params)))) over the lattice of the property.

in : [{"renderer": str, "N": int, "profile": str, "params": {...}, "jit": bool}]
out: [{"oracle": [...]}]
"""
import json
import sys

import numpy as np
import nplib
from nplib import *  # noqa

_R = {}


def rend(kind, N):
    if (kind, N) not in _R:
        _R[(kind, N)] = REND[kind]((N, N), jnp.array(psf_stamp("gauss", 5)))
    return _R[(kind, N)]


_F = {}


def run(c):
    r = rend(c["renderer"], c["N"])
    T = c["profile"]
    rng = np.random.default_rng(0)
    w = jnp.array(rng.normal(size=(c["N"], c["N"])).astype(np.float32))
    key = (c["renderer"], c["N"], T, c["jit"])
    if key not in _F:
        f = lambda p: jnp.sum(w * r.render_source(p, T))
        vg = jax.value_and_grad(f)
        _F[key] = jax.jit(vg) if c["jit"] else vg
    p = {k: jnp.float32(v) for k, v in c["params"].items()}
    v, g = _F[key](p)
    out = {"oracle": []}
    if not np.isfinite(float(v)):
        out["oracle"].append("value is not finite")
    bad = [k for k, gv in g.items() if not np.isfinite(float(gv))]
    if bad:
        out["oracle"].append("gradient not finite w.r.t. %s" % ",".join(sorted(bad)))
    im = np.asarray(r.render_source(p, T))
    if not np.isfinite(im).all():
        out["oracle"].append("image contains NaN / inf")
    return out


def main():
    cases = json.load(open(sys.argv[1]))
    json.dump([run(c) for c in cases], open(sys.argv[2], "w"))


if __name__ == "__main__":
    main()

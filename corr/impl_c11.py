"""Implementation side of C11: real prior objects built through the helpers.

in : [{"kind": "gaussian"|"uniform"|"truncated", "loc","scale","low","high" (floats or null), "suffix": str, "seed": int, "sky": bool}]
out: [{"key": stored key, "reparam": bool, "points": [[x_hex, logp_hex|"-inf"]...], "sample_min","sample_max", "base_loc/scale", "oracle": [...]}]
"""
import json
import math
import sys

import numpy as np
import nplib
from nplib import *  # noqa
from scipy import stats
from pysersic.priors import PySersicSourcePrior, FlatSkyPrior
from numpyro import infer


def fhex(x):
    return float(x).hex()


def run(c):
    out = {"oracle": []}
    sfx = c["suffix"]
    name = c.get("name", "r_eff")
    if c.get("sky"):
        sp = FlatSkyPrior(sky_guess=c["loc"], sky_guess_err=c["scale"], suffix=sfx)
        key = "sky_back" + sfx
        d = sp.dist_dict[key]
        rep = sp.reparam_dict.get(key)
    else:
        prior = PySersicSourcePrior("sersic", suffix=sfx)
        if c["kind"] == "gaussian":
            prior.set_gaussian_prior(name, c["loc"], c["scale"])
        elif c["kind"] == "uniform":
            prior.set_uniform_prior(name, c["low"], c["high"])
        else:
            prior.set_truncated_gaussian_prior(name, c["loc"], c["scale"], low=c["low"], high=c["high"])
        keys = list(prior.dist_dict.keys())
        if keys != [name + sfx]:
            out["oracle"].append("stored keys %s, expected [%s]" % (keys, name + sfx))
        key = keys[0]
        d = prior.dist_dict[key]
        rep = prior.reparam_dict.get(key)
    out["key"] = key
    out["reparam"] = isinstance(rep, infer.reparam.TransformReparam)
    t = d.transforms[0]
    out["affine"] = [fhex(np.asarray(t.loc)), fhex(np.asarray(t.scale))]
    out["base"] = type(d.base_dist).__name__
    rng = np.random.default_rng(c["seed"])
    # evaluation points: inside and outside the support
    if c["kind"] == "uniform":
        lo, hi = c["low"], c["high"]
        cen, wid = 0.5 * (lo + hi), hi - lo
    else:
        cen, wid = c["loc"], 6 * c["scale"]
        lo = c["low"] if c.get("low") is not None else -math.inf
        hi = c["high"] if c.get("high") is not None else math.inf
    xs = [float(np.float32(cen + wid * u)) for u in rng.uniform(-0.8, 0.8, size=6)]
    if math.isfinite(lo):
        xs += [float(np.float32(lo - 0.1 * wid)), float(np.float32(lo + 0.01 * wid))]
    if math.isfinite(hi):
        xs += [float(np.float32(hi + 0.1 * wid)), float(np.float32(hi - 0.01 * wid))]
    pts = []
    for x in xs:
        lp = float(d.log_prob(jnp.float32(x)))
        pts.append([fhex(x), "-inf" if lp == -math.inf else ("nan" if lp != lp else fhex(lp))])
        # the property's textbook oracle (scipy at the float32-rounded point), 1e-2 absolute
        if c["kind"] == "gaussian":
            want = stats.norm.logpdf(x, c["loc"], c["scale"])
        elif c["kind"] == "uniform":
            want = stats.uniform.logpdf(x, lo, hi - lo)
        else:
            a = (lo - c["loc"]) / c["scale"]
            b = (hi - c["loc"]) / c["scale"]
            want = stats.truncnorm.logpdf(x, a, b, c["loc"], c["scale"])
        inside = lo <= x <= hi
        if inside and not (abs(lp - want) <= 1e-2):
            out["oracle"].append("log_prob(%r) = %r, textbook %r" % (x, lp, float(want)))
        if not inside and lp != -math.inf:
            out["oracle"].append("log_prob(%r) = %r outside the support [%r, %r]" % (x, lp, lo, hi))
    out["points"] = pts
    smp = np.asarray(d.sample(jax.random.PRNGKey(c["seed"]), (10000,)), dtype=np.float64)
    out["sample_min"], out["sample_max"] = fhex(smp.min()), fhex(smp.max())
    eps = 1e-5 * (abs(cen) + wid)
    if smp.min() < lo - eps or smp.max() > hi + eps or not np.all(np.isfinite(smp)):
        out["oracle"].append("samples fall outside [%r, %r]: min %r max %r" % (lo, hi, smp.min(), smp.max()))
    # reparameterised vs plain model: constant density difference, exposed value = loc + scale*base
    if not c.get("sky"):
        def model():
            numpyro.sample(key, d)

        rmodel = handlers.reparam(model, config={key: rep})
        diffs = []
        for z in rng.uniform(0.05, 0.95, size=4) if c["kind"] == "uniform" else rng.uniform(-1, 1, size=4):
            if c["kind"] == "truncated":
                a = (lo - c["loc"]) / c["scale"]; b = (hi - c["loc"]) / c["scale"]
                # a base point inside the (standardised) support, also when the one-sided window starts beyond +-9 sigma
                zlo = a + 1e-3 if math.isfinite(a) else min(-9.0, b - 2.0)
                zhi = b - 1e-3 if math.isfinite(b) else max(9.0, a + 2.0)
                z = float(np.clip(z, zlo, zhi))
            tr = handlers.trace(handlers.substitute(rmodel, data={key + "_base": jnp.float32(z)})).get_trace()
            x = tr[key]["value"]
            lp_r = float(tr[key + "_base"]["fn"].log_prob(tr[key + "_base"]["value"]))
            lp_p = float(d.log_prob(x))
            diffs.append(lp_p - lp_r)
            want_x = float(np.float32(np.float32(t.loc) + np.float32(t.scale) * np.float32(z)))
            if abs(float(x) - want_x) > 1e-5 * (1 + abs(want_x)):
                out["oracle"].append("exposed value %r != loc + scale*base %r" % (float(x), want_x))
        out["jacobian_diffs"] = [fhex(v) for v in diffs]
        if max(diffs) - min(diffs) > 1e-3:
            out["oracle"].append("reparameterised vs plain density difference is not constant: %r" % diffs)
    return out


def main():
    cases = json.load(open(sys.argv[1]))
    json.dump([run(c) for c in cases], open(sys.argv[2], "w"))


if __name__ == "__main__":
    main()

"""Implementation side of C12.

modes:
  table : SourceProperties with explicit guesses -> generate_prior(T, sky, suffix): keys, classes, affine parameters, bounds
  multi : PySersicMultiPrior over dict / DataFrame / recarray catalogues: keys, N_sources
  image : autoprior on images of rendered sources (photutils): completeness, finiteness, draws in bounds & finite renderings, position centre
"""
import json
import math
import sys

import numpy as np
import nplib
from nplib import *  # noqa
import pandas
from pysersic.priors import SourceProperties, PySersicMultiPrior, autoprior, base_profile_params as PP, base_sky_params


def fhex(x):
    return float(x).hex()


def describe(d):
    out = {"class": type(d).__name__}
    b = getattr(d, "base_dist", d)
    out["base"] = type(b).__name__
    t = d.transforms[0] if hasattr(d, "transforms") else None
    if t is not None:
        out["loc"], out["scale"] = fhex(np.asarray(t.loc)), fhex(np.asarray(t.scale))
    for a in ("low", "high"):
        if hasattr(b, a) and getattr(b, a) is not None:
            try:
                out["base_" + a] = fhex(np.asarray(getattr(b, a)))
            except Exception:
                pass
    return out


def domain_violations(prior, ndraw):
    """count prior draws outside the physical domain the property states (r_eff >= 0.5, ellip in [0, 0.9], n in [0.65, 8], fractions in [0, 1])"""
    bad = {}
    def model():
        return prior()
    for s in range(ndraw):
        d = handlers.seed(model, jax.random.PRNGKey(s))()
        for k, v in d.items():
            v = float(v)
            if k.startswith("r_eff") and v < 0.5 - 1e-6: bad[k] = bad.get(k, 0) + 1
            if k.startswith("ellip") and not (-1e-6 <= v <= 0.9 + 1e-6): bad[k] = bad.get(k, 0) + 1
            if (k == "n" or k.startswith("n_")) and not (0.65 - 1e-6 <= v <= 8 + 1e-6): bad[k] = bad.get(k, 0) + 1
            if k.startswith("f_") and not (-1e-6 <= v <= 1 + 1e-6): bad[k] = bad.get(k, 0) + 1
    return bad


def run_table(c):
    props = SourceProperties(-99)
    g = c["guesses"]
    props.set_sky_guess(sky_guess=g["sky_guess"], sky_guess_err=g["sky_guess_err"])
    props.set_flux_guess(g["flux_guess"], g["flux_guess_err"])
    props.set_r_eff_guess(g["r_eff_guess"], g["r_eff_guess_err"])
    props.set_theta_guess(g["theta_guess"])
    props.set_position_guess((g["xc_guess"], g["yc_guess"]))
    prior = props.generate_prior(c["profile"], sky_type=c["sky"], suffix=c["suffix"])
    out = {"keys": list(prior.dist_dict.keys()), "sky_keys": list(prior.sky_prior.dist_dict.keys()), "entries": {}, "oracle": []}
    for k, d in prior.dist_dict.items():
        out["entries"][k] = describe(d)
        if k not in prior.reparam_dict:
            out["oracle"].append("no reparam entry for " + k)
    if not prior.check_vars():
        out["oracle"].append("check_vars() is False for a generated prior" if c["suffix"] == "" else "")
        out["oracle"] = [o for o in out["oracle"] if o]
    bad = domain_violations(prior, c.get("ndraw", 40))
    if bad:
        out["oracle"].append("prior draws outside the physical domain: %s (r_eff guess %s)" % (bad, g["r_eff_guess"]))
    return out


def run_multi(c):
    cat = {k: list(v) for k, v in c["catalog"].items()}
    if c["form"] == "dataframe":
        cat = pandas.DataFrame(cat)
    elif c["form"] == "recarray":
        cat = pandas.DataFrame(cat).to_records(index=False)
    kw = {}
    if c["sky"] != "none":
        kw = dict(sky_guess=0.25, sky_guess_err=0.5)
    try:
        mp = PySersicMultiPrior(cat, sky_type=c["sky"], suffix=c["suffix"], **kw)
    except Exception as ex:  # noqa
        return {"keys": [], "sky_keys": [], "N": -1, "entries": {}, "failed": True,
                "oracle": ["PySersicMultiPrior(%s catalogue%s) raised %s: %s" % (c["form"], "" if "theta" in c["catalog"] else " without theta column", type(ex).__name__, ex)]}
    bad = domain_violations(mp, c.get("ndraw", 25))
    return {"keys": list(mp.dist_dict.keys()), "sky_keys": list(mp.sky_prior.dist_dict.keys()), "N": int(mp.N_sources),
            "entries": {k: describe(d) for k, d in mp.dist_dict.items() if k.startswith(("xc", "yc", "flux"))},
            "oracle": ["multi-source prior draws outside the physical domain: %s" % bad] if bad else []}


def run_image(c):
    rng = np.random.default_rng(c["seed"])
    N = c["N"]
    psf = psf_stamp("gauss", 5)
    r = PixelRenderer((N, N), jnp.array(psf), os_pixel_size=4, num_os=4) if False else HybridRenderer((N, N), jnp.array(psf))
    p = c["params"]
    im = np.asarray(r.render_source(p, c["truth_profile"]), dtype=np.float64)
    peak = im.max()
    noise = peak / c["snr"]
    img = im + rng.normal(scale=noise, size=im.shape)
    if "offset" in c:
        # noise-dominated image with an over-subtracted background: the measured source flux is negative about half the time or always
        img = rng.normal(size=im.shape) + c["offset"]
    elif c.get("negative"):
        img = -img
    mask = None
    if c["mask"]:
        # a masked detector-edge band: whole leading rows and columns (far from the source)
        mask = np.zeros((N, N), bool)
        mask[:3, :] = True
        mask[:, :5] = True
    out = {"oracle": []}
    prior = autoprior(img, c["profile"], mask=mask, sky_type=c["sky"])
    want = sorted(PP[c["profile"]] + base_sky_params[c["sky"]])
    got = sorted(list(prior.dist_dict.keys()) + list(prior.sky_prior.dist_dict.keys()))
    if got != want:
        out["oracle"].append("prior defines %s, required %s" % (got, want))
    # finite hyper-parameters
    for k, d in list(prior.dist_dict.items()) + list(prior.sky_prior.dist_dict.items()):
        t = d.transforms[0]
        if not (np.isfinite(np.asarray(t.loc)).all() and np.isfinite(np.asarray(t.scale)).all()):
            out["oracle"].append("non-finite hyper-parameter for " + k)
    if out["oracle"]:
        return out
    # draws lie in the physical domain and render to finite images
    def model():
        return prior()
    bad_dom = 0
    draws = []
    for s in range(c["ndraw"]):
        d = handlers.seed(model, jax.random.PRNGKey(s))()
        draws.append(d)
        for k, v in d.items():
            v = float(v)
            if k.startswith("r_eff") and v < 0.5 - 1e-6: bad_dom += 1
            if k.startswith("ellip") and not (-1e-6 <= v <= 0.9 + 1e-6): bad_dom += 1
            if (k == "n" or k.startswith("n_")) and not (0.65 - 1e-6 <= v <= 8 + 1e-6): bad_dom += 1
            if k == "theta" and not (-1e-6 <= v <= 2 * math.pi + 1e-5): bad_dom += 1
            if k.startswith("f_") and not (-1e-6 <= v <= 1 + 1e-6): bad_dom += 1
    if bad_dom:
        out["oracle"].append("%d prior draws outside the physical domain" % bad_dom)
    if not c.get("negative"):
        for d in draws[:25]:
            imr = np.asarray(r.render_source(d, c["profile"]))
            if not np.isfinite(imr).all():
                out["oracle"].append("a prior draw renders to a non-finite image: %s" % {k: float(v) for k, v in d.items()})
                break
    if c["snr"] >= 100 and not c.get("negative"):
        tx = prior.dist_dict["xc"].transforms[0].loc
        ty = prior.dist_dict["yc"].transforms[0].loc
        if abs(float(tx) - p["xc"]) > 0.25 or abs(float(ty) - p["yc"]) > 0.25:
            out["oracle"].append("position prior centred on (%.3f, %.3f), source at (%.3f, %.3f)" % (float(tx), float(ty), p["xc"], p["yc"]))
    out["centre"] = [float(prior.dist_dict["xc"].transforms[0].loc), float(prior.dist_dict["yc"].transforms[0].loc)]
    return out


def main():
    cases = json.load(open(sys.argv[1]))
    res = []
    for c in cases:
        res.append({"table": run_table, "multi": run_multi, "image": run_image}[c["mode"]](c))
    json.dump(res, open(sys.argv[2], "w"))


if __name__ == "__main__":
    main()

"""Implementation side of C13.

modes
  keys : real find_MAP with the trainer short-circuited in the harness (returns the initial state): returned dictionary
         (keys, grouping) and the site names of the traced model
  fit  : one real fit on synthetic data: image == render(returned params) + sky, logp(MAP) >= logp(truth) - 0.5, repeatability
"""
import json
import sys

import numpy as np
import nplib
from nplib import *  # noqa
import pysersic.pysersic as PM
from numpyro.infer.svi import SVIRunResult
from numpyro.infer.util import log_density
from pysersic.rendering import base_profile_params as PP


def stub_train(svi_class, rkey=None, **kw):
    st = svi_class.init(rkey)
    return SVIRunResult(svi_class.get_params(st), st, [])


def build(c):
    N = c["N"]
    rng = np.random.default_rng(c["seed"])
    data = rng.normal(size=(N, N)).astype(np.float32) + 1.0
    rms = np.ones((N, N), np.float32)
    psf = psf_stamp("gauss", 3)
    lossf = getattr(ploss, c["loss"])
    kw = dict(os_pixel_size=1, num_os=2) if c["renderer"] == "pixel" else {}
    if c["fitter"] == "single":
        prior = source_prior(c["types"][0], c["sky"], c["suffix"], N, sky_guess=1.0, sky_err=0.5)
        return FitSingle(data, rms, psf, prior, loss_func=lossf, renderer=REND[c["renderer"]], renderer_kwargs=kw)
    prior = multi_prior(c["types"], c["sky"], c["suffix"], N, sky_guess=1.0, sky_err=0.5)
    return FitMulti(data, rms, psf, prior, loss_func=lossf, renderer=REND[c["renderer"]], renderer_kwargs=kw)


def run_keys(c):
    f = build(c)
    orig = PM.train_numpyro_svi_early_stop
    PM.train_numpyro_svi_early_stop = stub_train
    out = {"oracle": []}
    try:
        m = f.build_model()
        tr = handlers.trace(handlers.seed(m, jax.random.PRNGKey(0))).get_trace()
        out["sites"] = list(tr.keys())
        try:
            res = f.find_MAP(rkey=jax.random.PRNGKey(1))
        except Exception as ex:  # noqa
            out["oracle"].append("find_MAP raised %s: %s" % (type(ex).__name__, str(ex)[:120]))
            out["returned"] = None
            return out
    finally:
        PM.train_numpyro_svi_early_stop = orig
    flat = {}
    groups = {}
    for k, v in res.items():
        if isinstance(v, dict):
            groups[k] = sorted(v.keys())
        else:
            flat[k] = list(np.shape(v))
    out["returned"] = {"flat": flat, "groups": groups}
    # the property, read directly
    sfx = c["suffix"]
    want_flat = set()
    if c["fitter"] == "single":
        want_flat |= {p + sfx for p in PP[c["types"][0]]}
        sky_sfx = sfx
    else:
        sky_sfx = ""
        want_groups = {"source_%d" % i: sorted(PP[T]) for i, T in enumerate(c["types"])}
        if groups != want_groups:
            out["oracle"].append("per-source groups %s, expected %s" % (groups, want_groups))
    want_flat |= {s + sky_sfx for s in {"none": [], "flat": ["sky_back"], "tilted-plane": ["sky_back", "sky_x_sl", "sky_y_sl"]}[c["sky"]]}
    nuis = {"gaussian_loss_w_frac": ["frac_rms_increase"], "gaussian_loss_w_sys": ["sys_rms"], "student_t_loss_free_sys": ["sys_rms"],
            "gaussian_mixture": ["outlier_frac"], "gaussian_mixture_w_sys": ["outlier_frac", "sys_rms"], "gaussian_mixture_w_frac": ["outlier_frac", "rms_frac"]}.get(c["loss"], [])
    want_flat |= {n + sfx for n in nuis}
    want_flat |= {"model" + sfx}
    if set(flat) != want_flat:
        out["oracle"].append("returned keys %s, expected %s" % (sorted(flat), sorted(want_flat)))
    if "model" + sfx in flat and flat["model" + sfx] != [c["N"], c["N"]]:
        out["oracle"].append("model image has shape %s" % flat["model" + sfx])
    # the returned image is the rendering of the returned parameters plus the returned sky (independent re-rendering:
    # the renderer called source by source, closed-form sky)
    try:
        N = c["N"]
        if c["fitter"] == "single":
            P = {k: float(res[k + sfx]) for k in PP[c["types"][0]]}
            img = np.asarray(f.renderer.render_source(P, c["types"][0]), np.float64)
        else:
            img = np.zeros((N, N))
            for i, T in enumerate(c["types"]):
                P = {k: float(v) for k, v in res["source_%d" % i].items()}
                img = img + np.asarray(f.renderer.render_source(P, T), np.float64)
        rr, cc = np.meshgrid(np.arange(N), np.arange(N), indexing="ij")
        sky = np.zeros((N, N))
        if c["sky"] != "none":
            sky = sky + float(res["sky_back" + sky_sfx])
        if c["sky"] == "tilted-plane":
            sky = sky + (cc - N / 2) * float(res["sky_x_sl" + sky_sfx]) + (rr - N / 2) * float(res["sky_y_sl" + sky_sfx])
        want = img + sky
        got = np.asarray(res["model" + sfx], np.float64)
        scale = max(np.abs(want).max(), 1e-30)
        dev = np.abs(got - want).max() / scale
        out["model_dev"] = float(dev)
        if not np.isfinite(dev) or dev > 2e-3:
            out["oracle"].append("returned model image differs from render(returned parameters) + sky by %.3g of the peak (fitter=%s, sky=%s)" % (dev, c["fitter"], c["sky"]))
    except KeyError as ex:
        pass        # missing keys are reported above
    return out


def run_fit(c):
    N = c["N"]
    psf = RR_gauss(7, 2.5)
    truth = c["truth"]
    rend = HybridRenderer((N, N), jnp.array(psf))
    img = np.asarray(rend.render_source(truth, c["profile"]), np.float64)
    rng = np.random.default_rng(c["seed"])
    noise = img.max() / c["snr"]
    data = img + rng.normal(scale=noise, size=img.shape)
    rms = np.full((N, N), noise)
    props = SourceProperties(-99)
    props.set_sky_guess(sky_guess=0.0, sky_guess_err=noise)
    props.set_flux_guess(truth["flux"] * 1.1, truth["flux"] * 0.3)
    props.set_r_eff_guess(truth.get("r_eff", 2.0) * 1.1, 1.0)
    props.set_theta_guess(0.0)
    props.set_position_guess((truth["xc"] + 0.3, truth["yc"] - 0.3))
    prior = props.generate_prior(c["profile"], sky_type="none")
    f = FitSingle(data, rms, psf, prior)
    out = {"oracle": []}
    r1 = f.find_MAP(rkey=jax.random.PRNGKey(c["seed"]))
    r2 = f.find_MAP(rkey=jax.random.PRNGKey(c["seed"]))
    for k in r1:
        if not np.array_equal(np.asarray(r1[k]), np.asarray(r2[k])):
            out["oracle"].append("repeat run with the same key differs in " + k)
            break
    params = {k: float(r1[k]) for k in PP[c["profile"]]}
    want = np.asarray(f.renderer.render_source(params, c["profile"]), np.float64)
    if np.abs(np.asarray(r1["model"], np.float64) - want).max() > 1e-3 * np.abs(want).max():
        out["oracle"].append("returned model image differs from the rendering of the returned parameters by %.3g of the peak" % (np.abs(np.asarray(r1["model"]) - want).max() / np.abs(want).max()))
    m = f.build_model()

    def logp(par):
        vals = {}
        for k, v in par.items():
            d = f.prior.dist_dict[k]
            t = d.transforms[0]
            vals[k + "_base"] = (jnp.float32(v) - t.loc) / t.scale
        return float(log_density(m, (), {}, vals)[0])
    lm, lt = logp(params), logp({k: truth[k] for k in PP[c["profile"]]})
    out["logp"] = [lm, lt]
    if not lm >= lt - 0.5:
        out["oracle"].append("logp(MAP) = %.3f < logp(truth) - 0.5 = %.3f" % (lm, lt - 0.5))
    return out


def RR_gauss(P, fwhm):
    s = fwhm / 2.3548
    x = np.arange(P) - (P - 1) / 2
    g = np.exp(-0.5 * (x[:, None] ** 2 + x[None, :] ** 2) / s ** 2)
    return (g / g.sum()).astype(np.float32)


def main():
    cases = json.load(open(sys.argv[1]))
    json.dump([{"keys": run_keys, "fit": run_fit}[c["mode"]](c) for c in cases], open(sys.argv[2], "w"))


if __name__ == "__main__":
    main()

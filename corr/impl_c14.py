"""Implementation side of the C14 correspondence.

Drives the REAL pysersic.pysersic.train_numpyro_svi_early_stop with a scripted
stand-in for the SVI object.  A state is the tuple of update-call ids that
produced it (its lineage); call k returns the k-th scripted loss.

usage: impl_c14.py <cases.json> <out.json> [--jit]
cases: [{"cfg": [num_round, max_train, patience], "lr": [lr_init, decay], "script": ["nan"|"inf"|"-inf"|int, ...]}, ...]
"""
import json
import math
import os
import sys

os.environ.setdefault("TQDM_DISABLE", "1")

import jax
import jax.numpy as jnp
import numpy as np

import pysersic.pysersic as pp


def tofloat(x):
    if x == "nan":
        return float("nan")
    if x == "inf":
        return float("inf")
    if x == "-inf":
        return float("-inf")
    return float(x)


def canon(x):
    x = float(x)
    if math.isnan(x):
        return "nan"
    if math.isinf(x):
        return "inf" if x > 0 else "-inf"
    assert x == int(x)
    return int(x)


class Opt:
    def __init__(self, lr):
        self.lr = lr


class ScriptExhausted(Exception):
    pass


class HostStub:
    """Host-side stand-in; used with jax.disable_jit()."""

    def __init__(self, script):
        self.script = script
        self.counter = 0
        self.optim = None
        self.calls = []  # (id, parent lineage, lr)

    def init(self, rkey):
        return ()

    def stable_update(self, state):
        k = self.counter
        if k >= len(self.script):
            raise ScriptExhausted()
        self.counter += 1
        self.calls.append((k, tuple(int(i) for i in state), float(self.optim.lr)))
        return tuple(state) + (k,), jnp.asarray(self.script[k], dtype=jnp.float32)

    def get_params(self, state):
        return state


class JitStub:
    """jit-compatible stand-in: the scripted loss and the global call id come
    from an ordered io_callback; the lineage is a fixed-size int array."""

    SIZE = 64

    def __init__(self, script):
        self.script = script
        self.counter = 0
        self.optim = None
        self.calls = []

    def init(self, rkey):
        return (jnp.full((self.SIZE,), -1, dtype=jnp.int32), jnp.zeros((), dtype=jnp.int32))

    def _host(self, lineage, n, lr):
        k = self.counter
        if k >= len(self.script):
            # cannot raise through the callback reliably: return a sentinel
            self.counter += 1
            self.calls.append((k, None, float(lr)))
            return np.int32(k), np.float32(np.nan)
        self.counter += 1
        lin = tuple(int(i) for i in np.asarray(lineage)[: int(n)])
        self.calls.append((k, lin, float(lr)))
        return np.int32(k), np.float32(self.script[k])

    def stable_update(self, state):
        from jax.experimental import io_callback

        lineage, n = state
        lr = self.optim.lr
        k, loss = io_callback(
            self._host,
            (jax.ShapeDtypeStruct((), jnp.int32), jax.ShapeDtypeStruct((), jnp.float32)),
            lineage, n, jnp.asarray(lr, dtype=jnp.float32), ordered=True,
        )
        lineage = lineage.at[n].set(k)
        return (lineage, n + 1), loss

    def get_params(self, state):
        lineage, n = state
        return tuple(int(i) for i in np.asarray(lineage)[: int(n)])

    def __hash__(self):
        return id(self)

    def __eq__(self, other):
        return self is other


def exponents(calls, lr_init, decay, num_round, f32):
    """decay exponent of each call: r with lr == lr_init * decay**r (the very
    expression the routine is documented to use), or None if no r matches."""
    out = []
    for (_k, _p, lr) in calls:
        found = None
        for r in range(max(num_round, 1) + 2):
            want = lr_init * decay ** r
            if f32:
                want = float(np.float32(want))
            if lr == want:
                found = r
                break
        out.append(found)
    return out


def run_case(case, use_jit):
    num_round, max_train, patience = case["cfg"]
    lr_init, decay = case["lr"]
    script = [tofloat(x) for x in case["script"]]
    stub = (JitStub if use_jit else HostStub)(script)
    kwargs = dict(num_round=num_round, max_train=max_train, lr_init=lr_init,
                  frac_lr_decrease=decay, patience=patience, optimizer=Opt,
                  rkey=jax.random.PRNGKey(0))
    try:
        if use_jit:
            res = pp.train_numpyro_svi_early_stop(stub, **kwargs)
        else:
            with jax.disable_jit():
                res = pp.train_numpyro_svi_early_stop(stub, **kwargs)
    except UnboundLocalError:
        return {"error": "UnboundLocalError", "ncalls": stub.counter}
    except ScriptExhausted:
        return {"error": "ScriptExhausted", "ncalls": stub.counter}
    best = res.params
    if use_jit:
        state = stub.get_params(res.state)
    else:
        state = tuple(res.state)
    exps = exponents(stub.calls, lr_init, decay, num_round, use_jit)
    parents = [list(p) if p is not None else None for (_k, p, _lr) in stub.calls]
    return {
        "best": [int(i) for i in best],
        "state": [int(i) for i in state],
        "losses": [canon(x) for x in res.losses],
        "exps": exps,
        "parents": parents,
        "ncalls": stub.counter,
    }


def enumerate_histories(cfg, lr, alphabet, limit):
    """All complete loss histories over `alphabet` that the IMPLEMENTATION can
    consume under cfg: lazy DFS, a script is extended only when the routine
    asks for a loss beyond its end."""
    out = []
    stack = [[]]
    while stack and len(out) < limit:
        pref = stack.pop()
        res = run_case({"cfg": cfg, "lr": lr, "script": pref}, False)
        if res.get("error") == "ScriptExhausted":
            for a in reversed(alphabet):
                stack.append(pref + [a])
        else:
            out.append({"cfg": cfg, "lr": lr, "script": pref, "res": res})
    return out, (len(stack) == 0)


def main():
    payload = json.load(open(sys.argv[1]))
    use_jit = "--jit" in sys.argv
    if isinstance(payload, dict) and payload.get("mode") == "enumerate":
        allout = []
        complete = True
        for cfg in payload["cfgs"]:
            o, done = enumerate_histories(cfg, payload["lr"], payload["alphabet"], payload.get("limit", 10**9))
            allout += o
            complete = complete and done
        json.dump({"cases": allout, "complete": complete}, open(sys.argv[2], "w"))
        return
    out = [run_case(c, use_jit) for c in payload]
    json.dump(out, open(sys.argv[2], "w"))


if __name__ == "__main__":
    main()

"""Implementation side of C15: traces of real FitMultiBandPoly / FitMultiBandBSpline models.

in : [{"kind": "poly"|"bspline", "fitter": "single"|"multi", "types": [...], "n_bands": int, "band_names": [...]|null, "linked": [...], "const": [...],
       "order": int, "wavelengths": [...], "sky": str, "coef_scale": float, "seed": int}]
out: site names/kinds, linked values per band (hex) with the inputs of the link (coefficients, normalised wavelengths, range),
     relabelled prior keys, and the property oracle (per-band data flow by perturbation; range; shared constants; density = sum of band terms)
"""
import json
import sys

import numpy as np
import nplib
from nplib import *  # noqa
from numpyro.infer.util import log_density
from pysersic.multiband import FitMultiBandPoly, FitMultiBandBSpline
from pysersic.priors import update_prior_suffix


def fhex(x):
    return float(x).hex()


def run(c):
    N = 8
    rng = np.random.default_rng(c["seed"])
    fl = []
    psfs_ = []
    nb = c["n_bands"]
    for b in range(nb):
        data = rng.normal(size=(N, N)).astype(np.float32) + 2.0
        rms = (np.abs(rng.normal(size=(N, N))) * 0.2 + 0.5).astype(np.float32)
        mask = rng.random((N, N)) < 0.2
        kw = dict(os_pixel_size=1, num_os=2)
        xs_ = np.arange(3) - 1.0
        sg_ = 0.7 + 0.45 * b                   # every band has its own PSF width
        pb_ = np.exp(-0.5 * (xs_[:, None] ** 2 + xs_[None, :] ** 2) / sg_ ** 2)
        pb_ = (pb_ / pb_.sum()).astype(np.float32)
        psfs_.append(pb_)
        if c["fitter"] == "single":
            prior = source_prior(c["types"][0], c["sky"], "", N, sky_guess=1.0, sky_err=0.5)
            fl.append(FitSingle(data, rms, pb_, prior, mask=mask, renderer=PixelRenderer, renderer_kwargs=kw))
        else:
            prior = multi_prior(c["types"], c["sky"], "", N, sky_guess=1.0, sky_err=0.5)
            fl.append(FitMulti(data, rms, pb_, prior, mask=mask, renderer=PixelRenderer, renderer_kwargs=kw))
    names0 = list(fl[0].prior.dist_dict.keys())
    out = {"oracle": [], "param_names": names0}
    wv = np.array(c["wavelengths"], dtype=float)
    common = dict(wavelengths=wv, linked_params=c["linked"], const_params=c["const"], band_names=c["band_names"], wv_to_save=np.array([wv.min(), wv.mean()]))
    if c.get("user_range"):
        common["linked_params_range"] = {k: v for k, v in c["user_range"].items()}
    if c["kind"] == "poly":
        mb = FitMultiBandPoly(fl, poly_order=c["order"], **common)
    else:
        mb = FitMultiBandBSpline(fl, **common)
    bands = mb.band_names
    out["bands"] = list(bands)
    out["relabelled"] = {b: list(mb.prior[b].dist_dict.keys()) for b in bands}
    # distributions are unchanged by the relabelling (the fitter list is deep-copied by the constructor, so objects are compared by class and parameters)
    def sig(d):
        b_ = getattr(d, "base_dist", d)
        t = d.transforms[0] if hasattr(d, "transforms") else None
        return (type(d).__name__, type(b_).__name__, None if t is None else (float(t.loc), float(t.scale)),
                tuple(float(np.asarray(getattr(b_, a))) for a in ("low", "high") if getattr(b_, a, None) is not None and np.ndim(getattr(b_, a)) == 0))
    for b, f0 in zip(bands, fl):
        for k, d in f0.prior.dist_dict.items():
            d2 = mb.prior[b].dist_dict.get("%s_%s" % (k, b))
            if d2 is None or sig(d2) != sig(d):
                out["oracle"].append("relabelling changed / lost the distribution of %s in band %s" % (k, b))
                break
    m = mb.build_model()
    vals, tr0 = prior_draw(m, c["seed"])
    # push the link coefficients far out (saturating the squashing function)
    for k in list(vals):
        if k.endswith("_poly_coeff"):
            vals[k] = jnp.asarray(np.asarray(vals[k]) * c["coef_scale"], jnp.float32)
    tr = trace_at(m, vals)
    out["sites"] = [[k, ("observed" if v.get("is_observed") else "latent") if v["type"] == "sample" else "deterministic"] for k, v in tr.items()]
    out["ranges"] = {k: [float(v[0]), float(v[1])] for k, v in mb.linked_params_range.items()}
    out["wv_normed"] = [fhex(v) for v in np.asarray(mb.wv_normed, np.float64)]
    links = {}
    for p in c["linked"]:
        per_band = [float(tr["%s_%s" % (p, b)]["value"]) for b in bands]
        links[p] = {"values": [fhex(v) for v in per_band]}
        if c["kind"] == "poly":
            links[p]["coeffs"] = [fhex(v) for v in np.asarray(tr[p + "_poly_coeff"]["value"], np.float64)]
            links[p]["scale_mean"] = [fhex(mb.linked_params_scale[p]), fhex(mb.linked_params_mean[p])]
        else:
            links[p]["weights"] = [fhex(v) for v in np.asarray(tr["bspl_w_" + p]["value"], np.float64)]
            links[p]["dmat"] = [[fhex(v) for v in row] for row in np.asarray(mb.dmat_bands, np.float64)]
        # the DECLARED range of a linked parameter: the user's entry if given, else the model's default
        declared = (c.get("user_range") or {}).get(p)
        if declared is not None:
            got = mb.linked_params_range.get(p)
            if got is None or abs(float(got[0]) - declared[0]) > 1e-6 or abs(float(got[1]) - declared[1]) > 1e-6:
                out["oracle"].append("user-declared range %r of linked %s is not the range in use (%r)" % (declared, p, None if got is None else [float(got[0]), float(got[1])]))
            for v in per_band:
                if not (declared[0] - 1e-5 * (1 + abs(declared[0])) <= v <= declared[1] + 1e-5 * (1 + abs(declared[1]))):
                    out["oracle"].append("linked %s = %r outside its user-declared range %r" % (p, v, declared))
        if p in mb.linked_params_range:
            lo, hi = mb.linked_params_range[p]
            for v in per_band:
                if not (float(lo) - 1e-5 * (1 + abs(lo)) <= v <= float(hi) + 1e-5 * (1 + abs(hi))):
                    out["oracle"].append("linked %s = %r outside its range [%r, %r]" % (p, v, float(lo), float(hi)))
    out["links"] = links
    # the link function saved at an explicit wavelength (wv_to_save[0] = the smallest band wavelength) must equal the value of
    # the band observed at that wavelength, whatever the order in which the bands were listed
    jmin = int(np.argmin(wv))
    for p in c["linked"]:
        k = p + "_at_wv"
        if k in tr:
            v0 = float(np.asarray(tr[k]["value"]).ravel()[0])
            vb = float(tr["%s_%s" % (p, bands[jmin])]["value"])
            if abs(v0 - vb) > 1e-4 * (1 + abs(vb)):
                out["oracle"].append("linked %s: value in band %s (wavelength %g) is %r but the link function at that wavelength is %r" % (p, bands[jmin], wv[jmin], vb, v0))
    # constants: one site, same value used in all bands -> the renderers receive it (checked via density below)
    for p in c["const"]:
        if p not in tr or tr[p]["type"] not in ("sample", "deterministic"):
            out["oracle"].append("constant parameter %s has no single shared site" % p)
        for b in bands:
            if "%s_%s" % (p, b) in tr:
                out["oracle"].append("constant parameter %s also has a per-band site" % p)
    # each band's model image is the rendering of that band's parameter values with THAT band's own PSF (single-source, no sky:
    # independent re-rendering with a fresh renderer built from the band's PSF)
    trm = trace_at(mb.build_model(return_model=True), vals) if (c["fitter"] == "single" and c["sky"] == "none") else {}
    if "model" in trm:
        allobs = np.asarray(trm["model"]["value"], np.float64)
        for bi, b in enumerate(bands):
            try:
                P = {}
                for pn in names0:
                    if "%s_%s" % (pn, b) in tr:
                        P[pn] = float(tr["%s_%s" % (pn, b)]["value"])
                    else:
                        P[pn] = float(tr[pn]["value"])
                rr_ = PixelRenderer((N, N), jnp.array(psfs_[bi]), os_pixel_size=1, num_os=2)
                want = np.asarray(rr_.render_source(P, c["types"][0]), np.float64)
                dev = np.abs(allobs[bi] - want).max() / max(np.abs(want).max(), 1e-30)
                if not dev <= 1e-4:
                    out["oracle"].append("band %s is not rendered with its own PSF / parameters: model image differs from the independent rendering by %.3g of the peak" % (b, dev))
            except KeyError:
                pass
    # density = sum over sites; each band's Loss site depends only on that band's data / rms / mask
    ld = float(log_density(m, (), {}, vals)[0])
    tot = sum(float(np.sum(np.asarray(s["fn"].log_prob(s["value"]), np.float64))) for s in tr.values() if s["type"] == "sample")
    if abs(ld - tot) > 1e-3 * (1 + abs(ld)):
        out["oracle"].append("log_density != sum of the per-site terms")
    base = {b: np.asarray(tr["Loss_" + b]["fn"].log_prob(tr["Loss_" + b]["value"]), np.float64) for b in bands}
    j = int(rng.integers(nb))
    bj = bands[j]
    f_j = mb.fitter_list[j]
    for attr, delta in (("data", 1.0), ("rms", 0.25)):
        old = getattr(f_j, attr)
        setattr(f_j, attr, old + delta)
        try:
            tr2 = trace_at(mb.build_model(), vals)
        finally:
            setattr(f_j, attr, old)
        for b in bands:
            new = np.asarray(tr2["Loss_" + b]["fn"].log_prob(tr2["Loss_" + b]["value"]), np.float64)
            changed = not np.array_equal(new, base[b])
            if (b == bj) != changed:
                out["oracle"].append("changing the %s of band %s %s the likelihood term of band %s" % (attr, bj, "changes" if changed else "does not change", b))
    # the mask of band j: flipping one good pixel to masked zeroes exactly that pixel's term in band j only
    goodj = np.asarray(f_j.mask)
    gi = np.argwhere(goodj)
    if len(gi):
        r0, c0 = gi[0]
        oldm = f_j.mask
        f_j.mask = oldm.at[r0, c0].set(False)
        try:
            tr3 = trace_at(mb.build_model(), vals)
        finally:
            f_j.mask = oldm
        for b in bands:
            new = np.asarray(tr3["Loss_" + b]["fn"].log_prob(tr3["Loss_" + b]["value"]), np.float64)
            if b == bj and new[r0, c0] != 0:
                out["oracle"].append("masking a pixel of band %s does not remove its likelihood term" % bj)
            if b != bj and not np.array_equal(new, base[b]):
                out["oracle"].append("the mask of band %s affects band %s" % (bj, b))
    good = np.asarray(f_j.mask)
    if np.any(base[bj][~good] != 0):
        out["oracle"].append("masked pixels of band %s contribute" % bj)
    return out


def main():
    cases = json.load(open(sys.argv[1]))
    res = []
    for c in cases:
        try:
            res.append(run(c))
        except Exception as ex:  # noqa
            import traceback
            res.append({"failed": True, "oracle": ["multi-band model could not be built / traced: %s: %s" % (type(ex).__name__, str(ex)[:160])], "trace": traceback.format_exc()[-600:]})
    json.dump(res, open(sys.argv[2], "w"))


if __name__ == "__main__":
    main()

"""Implementation side of C16: the 'model' site of real fitters with and without
sky, the stand-alone plane function, and the sky prior hyper-parameters.

in : [{"fitter": "single"|"multi", "types": [...], "sky": "none"|"flat"|"tilted-plane", "suffix": str, "N": int,
       "renderer": "pixel"|"fourier"|"hybrid", "zero_flux": bool, "g": float, "e": float, "seed": int}]
out: [{"sky_values": {name: hex}, "pixels": [[r, c, diff_hex, scale]], "standalone": [[r, c, hex]],
       "hyper": [[name, loc_hex, scale_hex]], "sites": [...], "oracle": [...]}]
"""
import json
import sys

import numpy as np
import nplib
from nplib import *  # noqa
from pysersic import priors


def fhex(x):
    return float(x).hex()


def build(c, sky):
    N = c["N"]
    rng = np.random.default_rng(c["seed"])
    data = rng.normal(size=(N, N))
    rms = np.ones((N, N))
    psf = psf_stamp("gauss" if c["renderer"] != "pixel" else "delta", 3)
    kw = dict(os_pixel_size=1, num_os=2) if c["renderer"] == "pixel" else {}
    if c["fitter"] == "single":
        prior = source_prior(c["types"][0], sky, c["suffix"], N, sky_guess=c["g"], sky_err=c["e"])
        f = FitSingle(data, rms, psf, prior, renderer=REND[c["renderer"]], renderer_kwargs=kw)
    else:
        prior = multi_prior(c["types"], sky, c["suffix"], N, sky_guess=c["g"], sky_err=c["e"])
        f = FitMulti(data, rms, psf, prior, renderer=REND[c["renderer"]], renderer_kwargs=kw)
    return f


def run(c):
    out = {"oracle": []}
    N = c["N"]
    sfx = c["suffix"]
    f = build(c, c["sky"])
    m = f.build_model()
    vals, tr = prior_draw(m, c["seed"])
    if c["zero_flux"]:
        # flux = loc + scale*base = 0  <=>  base = -loc/scale  (flux prior is Normal(16+i, 4..))
        for k in list(vals):
            if k.startswith("flux") and k.endswith("_base"):
                name = k[:-5]
                d = f.prior.dist_dict[name]
                t = d.transforms[0]
                vals[k] = -jnp.asarray(t.loc) / jnp.asarray(t.scale)
    tr = trace_at(m, vals)
    model = np.asarray(tr["model" + sfx]["value"], dtype=np.float64)
    # the same sources without sky
    f0 = build(c, "none")
    m0 = f0.build_model()
    vals0 = {k: v for k, v in vals.items() if not k.startswith("sky_")}
    tr0 = trace_at(m0, vals0)
    base = np.asarray(tr0["model" + sfx]["value"], dtype=np.float64)
    skyv = {}
    # PySersicMultiPrior builds its sky prior without the suffix (documented behaviour of the class)
    sky_sfx = sfx if c["fitter"] == "single" else ""
    for nme in ("sky_back", "sky_x_sl", "sky_y_sl"):
        if nme + sky_sfx in tr:
            skyv[nme] = fhex(np.float32(tr[nme + sky_sfx]["value"]))
    out["sky_values"] = skyv
    diff = model - base
    rng = np.random.default_rng(c["seed"] + 1)
    pix = [(0, 0), (0, N - 1), (N - 1, 0), (N - 1, N - 1)] + [(int(rng.integers(N)), int(rng.integers(N))) for _ in range(3)]
    out["pixels"] = [[r, cc, fhex(diff[r, cc]), float(abs(base[r, cc]) + abs(model[r, cc]) + 1.0)] for r, cc in pix]
    # the property's closed form, evaluated independently in float64
    back = float.fromhex(skyv.get("sky_back", "0x0p+0"))
    xs = float.fromhex(skyv.get("sky_x_sl", "0x0p+0"))
    ys = float.fromhex(skyv.get("sky_y_sl", "0x0p+0"))
    rr, cc2 = np.mgrid[0:N, 0:N]
    want = back + (cc2 - N / 2) * xs + (rr - N / 2) * ys if c["sky"] != "none" else np.zeros((N, N))
    tol = 2e-6 * (np.abs(base) + np.abs(model) + 1.0)
    if not np.all(np.abs(diff - want) <= tol):
        i = np.unravel_index(np.argmax(np.abs(diff - want) - tol), diff.shape)
        out["oracle"].append("model(with sky) - model(no sky) differs from the closed form at pixel %s: %g vs %g" % (i, diff[i], want[i]))
    # stand-alone function
    X, Y = f.renderer.X, f.renderer.Y
    sa = np.asarray(priors.render_tilted_plane_sky(X, Y, np.float32(back), np.float32(xs), np.float32(ys)), dtype=np.float64)
    out["standalone"] = [[r, c2, fhex(sa[r, c2])] for r, c2 in pix[:5]]
    # hyper-parameters
    hyper = []
    for name, d in f.prior.sky_prior.dist_dict.items():
        t = d.transforms[0]
        hyper.append([name, fhex(t.loc), fhex(t.scale), type(d.base_dist).__name__])
        if name not in f.prior.reparam_dict:
            out["oracle"].append("sky parameter %s has no reparam entry" % name)
    out["hyper"] = hyper
    out["sites"] = sorted(k for k in tr if k.startswith("sky_"))
    return out


def main():
    cases = json.load(open(sys.argv[1]))
    json.dump([run(c) for c in cases], open(sys.argv[2], "w"))


if __name__ == "__main__":
    main()

"""Implementation side of C17: run the real priors.estimate_sky (and
SourceProperties) on integer-valued images; also evaluate the property's own
oracle (explicitly gathered unmasked border set; perturbation invariance).

in : [{"H":..,"W":..,"n":..,"img":[[int]],"mask":[[0/1]]|null,"mode":"arg"|"ma"|"none"|"sp"}]
out: [{"median2": int|null, "count": int, "std": float, "oracle": [violated clauses]}]
"""
import json
import sys
import warnings

import numpy as np

warnings.filterwarnings("ignore")
from astropy.stats import biweight_scale as bws  # noqa: E402
from pysersic import priors  # noqa: E402


def call(img, mask, mode, n):
    if mode == "none" or mask is None:
        return priors.estimate_sky(img, n_pix_sample=n)
    if mode == "arg":
        return priors.estimate_sky(img, mask, n_pix_sample=n)
    if mode == "ma":
        return priors.estimate_sky(np.ma.masked_array(img, mask), n_pix_sample=n)
    raise ValueError(mode)


def fnum(x):
    if x is np.ma.masked:
        return None
    x = float(x)
    return None if x != x else x


def run(case, rng):
    H, W, n = case["H"], case["W"], case["n"]
    img = np.array(case["img"], dtype=float)
    mask = None if case["mask"] is None else np.array(case["mask"], dtype=bool)
    mode = case["mode"]
    out = {"oracle": []}
    if mode == "sp":
        # through SourceProperties: the mask travels as a masked array
        sp = priors.SourceProperties.__new__(priors.SourceProperties)
        sp.image = np.ma.masked_array(img, mask) if mask is not None else img
        sp.mask = mask
        sp.set_sky_guess(n_pix_sample=n)
        med = sp.sky_guess
        med2, std2, cnt = priors.estimate_sky(sp.image, n_pix_sample=n)
        std = std2
        if fnum(sp.sky_guess_err) is not None and cnt > 0:
            if abs(float(sp.sky_guess_err) - 2 * float(std2) / np.sqrt(cnt)) > 1e-9 * (1 + abs(float(std2))):
                out["oracle"].append("SourceProperties.sky_guess_err != 2*std/sqrt(npix)")
    else:
        med, std, cnt = call(img, mask, mode, n)
    m = fnum(med)
    out["median2"] = None if m is None else int(round(2 * m))
    out["count"] = int(cnt)
    out["std"] = fnum(std)
    # ---- the property's oracle, on the implementation alone
    b = np.zeros((H, W), bool)
    b[:n] = True
    b[H - n:] = True
    b[:, :n] = True
    b[:, W - n:] = True
    good = b if mask is None else (b & ~mask)
    ref = img[good]
    exp_count = H * W - (H - 2 * n) * (W - 2 * n) - (0 if mask is None else int((b & mask).sum()))
    if int(cnt) != exp_count:
        out["oracle"].append("count %d != H*W-(H-2n)(W-2n) - masked border = %d" % (int(cnt), exp_count))
    if len(ref):
        if m is None or abs(m - float(np.median(ref))) > 1e-9:
            out["oracle"].append("median %r != median of unmasked border set %r" % (m, float(np.median(ref))))
        s_ref = fnum(bws(ref))
        s = fnum(std)
        if (s is None) != (s_ref is None) or (s is not None and abs(s - s_ref) > 1e-9 * (1 + abs(s_ref))):
            out["oracle"].append("scatter %r != biweight_scale of unmasked border set %r" % (s, s_ref))
    out["ref_sorted"] = sorted(int(v) for v in ref)
    # invariance under interior and masked-pixel perturbation
    if mode != "sp":
        img2 = img.copy()
        pert = ~b if mask is None else (~b | mask)
        img2[pert] = rng.integers(-10**6, 10**6, size=int(pert.sum()))
        med2, std2, cnt2 = call(img2, mask, mode, n)
        if fnum(med2) != m or int(cnt2) != int(cnt) or fnum(std2) != fnum(std):
            out["oracle"].append("estimate changes when interior / masked pixels change")
    return out


def main():
    cases = json.load(open(sys.argv[1]))
    rng = np.random.default_rng(12345)
    json.dump([run(c, rng) for c in cases], open(sys.argv[2], "w"))


if __name__ == "__main__":
    main()

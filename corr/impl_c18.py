"""Implementation side of C18: construct real fitters / renderers on a sweep of
(in)consistent inputs, record the outcome (exception class or accepted) and,
when accepted, compare the stored arrays bit-for-bit with the float32 cast of
the inputs and the mask with its inverted polarity.

in : [{"kind": "fitter"|"renderer", "data":[h,w], "rms":[h,w], "psf":[h,w], "mask":[h,w]|null,
       "neg": [r,c]|null, "maskdtype": "bool"|"int"|"float", "jax": bool, "renderer": "pixel"|"hybrid"|"fourier", "fitter":"single"|"multi", "seed": int}]
out: [{"outcome": "accepted"|<exception name>, "ingest": [problems]}]
"""
import json
import sys
import warnings

import numpy as np

warnings.filterwarnings("ignore")
import jax.numpy as jnp  # noqa: E402
from pysersic import FitSingle, FitMulti  # noqa: E402
from pysersic.priors import PySersicSourcePrior, PySersicMultiPrior  # noqa: E402
from pysersic.rendering import PixelRenderer, HybridRenderer, FourierRenderer  # noqa: E402

REND = {"pixel": PixelRenderer, "hybrid": HybridRenderer, "fourier": FourierRenderer}


def run(c):
    rng = np.random.default_rng(c["seed"])
    data = rng.normal(size=tuple(c["data"]))
    rms = np.abs(rng.normal(size=tuple(c["rms"]))) + 0.1
    if c["neg"] is not None:
        rms[tuple(c["neg"])] = -abs(rms[tuple(c["neg"])])
    psf = np.abs(rng.normal(size=tuple(c["psf"])))
    psf = psf / psf.sum()
    mask = None
    if c["mask"] is not None:
        m = rng.random(size=tuple(c["mask"])) < 0.3
        mask = {"bool": m, "int": m.astype(int) * rng.integers(1, 4, size=m.shape), "float": m.astype(float) * 2.5}[c["maskdtype"]]
    if c["jax"]:
        data, rms, psf = jnp.array(data), jnp.array(rms), jnp.array(psf)
        if mask is not None:
            mask = jnp.array(mask)
    out = {"ingest": []}
    try:
        if c["kind"] == "renderer":
            REND[c["renderer"]](tuple(c["data"]), jnp.array(np.asarray(psf, dtype=np.float32)))
            out["outcome"] = "accepted"
            return out
        if c["fitter"] == "single":
            prior = PySersicSourcePrior("sersic")
            f = FitSingle(data, rms, psf, prior, mask=mask, renderer=REND[c["renderer"]])
        else:
            cat = {"x": [3.0], "y": [3.0], "flux": [10.0], "r": [2.0], "type": ["sersic"]}
            f = FitMulti(data, rms, psf, PySersicMultiPrior(cat), mask=mask, renderer=REND[c["renderer"]])
        out["outcome"] = "accepted"
    except Exception as e:  # noqa
        out["outcome"] = type(e).__name__
        return out
    # faithful ingestion
    for name, src in (("data", data), ("rms", rms), ("psf", psf)):
        st = np.asarray(getattr(f, name))
        want = np.asarray(src).astype(np.float32)
        if st.dtype != np.float32:
            out["ingest"].append("%s stored as %s" % (name, st.dtype))
        if st.shape != want.shape or not np.array_equal(st.view(np.uint32) if st.dtype == np.float32 else st, want.view(np.uint32)):
            out["ingest"].append("%s not stored value-for-value" % name)
    st = np.asarray(f.mask)
    want = np.ones(np.asarray(data).shape, bool) if mask is None else ~(np.asarray(mask) != 0)
    if st.dtype != np.bool_ or st.shape != want.shape or not np.array_equal(st, want):
        out["ingest"].append("mask not stored as logical_not(marked)")
    if not np.array_equal(np.asarray(f.renderer.pixel_PSF), np.asarray(psf).astype(np.float32)):
        out["ingest"].append("renderer PSF differs from the supplied PSF")
    if tuple(f.renderer.im_shape) != tuple(np.asarray(data).shape):
        out["ingest"].append("renderer im_shape != data.shape")
    return out


def main():
    cases = json.load(open(sys.argv[1]))
    json.dump([run(c) for c in cases], open(sys.argv[2], "w"))


if __name__ == "__main__":
    main()

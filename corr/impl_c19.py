"""Implementation side of C19: run the real PySersicResults._parse_injested_data
on an xarray-backed stand-in for the inference-data container.

in : [{"names": [...], "nchain": k, "ndraw": d, "purge": bool, "seed": s}]
out: [{"fates": {name: "kept_unchanged"|"kept_changed"|"dropped"|"models"|"models_changed"},
       "pairs": {name: [[x_hex, y_hex], ...]}, "models_attr": [names saved to .models]}]
"""
import json
import sys
import warnings

import numpy as np

warnings.filterwarnings("ignore")
import xarray as xr  # noqa: E402
from pysersic.results import PySersicResults  # noqa: E402


class IData:
    def __init__(self, ds):
        self.posterior = ds

    def __getitem__(self, k):
        assert k == "posterior"
        return self.posterior


def run(c):
    rng = np.random.default_rng(c["seed"])
    names = c["names"]
    k, d = c["nchain"], c["ndraw"]
    dv = {}
    for n in names:
        if n.startswith("model"):
            dv[n] = (("chain", "draw", "model_dim_0", "model_dim_1"), rng.uniform(-100, 100, (k, d, 3, 3)))
        elif "poly_coeff" in n or n.startswith("bspl_w") or n.endswith("_at_wv"):
            # link-function coefficients / weights and values saved at explicit wavelengths are vectors: arviz gives them a third axis
            dv[n] = (("chain", "draw", n + "_dim_0"), rng.uniform(-100, 100, (k, d, 3)))
        else:
            dv[n] = (("chain", "draw"), rng.uniform(-100, 100, (k, d)))
    ds = xr.Dataset(dv)
    orig = {n: ds[n].values.copy() for n in names}
    res = PySersicResults.__new__(PySersicResults)
    out = res._parse_injested_data(IData(ds), purge_extra=c["purge"])
    post = out.posterior
    fates, pairs = {}, {}
    saved = getattr(res, "models", None)
    saved_name = None if saved is None else saved.name
    for n in names:
        if n in post.data_vars:
            v = post[n].values
            if v.shape == orig[n].shape and np.array_equal(v.view(np.uint64), orig[n].view(np.uint64)):
                fates[n] = "kept_unchanged"
            else:
                fates[n] = "kept_changed"
                flat_x, flat_y = orig[n].ravel(), v.ravel()
                pairs[n] = [[float(flat_x[i]).hex(), float(flat_y[i]).hex()] for i in range(min(3, flat_x.size))]
        elif saved_name == n:
            same = np.array_equal(saved.values.view(np.uint64), orig[n].view(np.uint64))
            fates[n] = "models" if same else "models_changed"
        else:
            fates[n] = "dropped"
    return {"fates": fates, "pairs": pairs, "models_attr": [] if saved_name is None else [saved_name]}


def main():
    cases = json.load(open(sys.argv[1]))
    json.dump([run(c) for c in cases], open(sys.argv[2], "w"))


if __name__ == "__main__":
    main()

"""Implementation side of C20.

modes
  box    : class of every pixel of a PixelRenderer(N, os, num_os) measured with a quadratic marker profile substituted for
           render_sersic_2d in the harness (value - (X^2+Y^2) = 2*sum w x^2 inside the box, 0 outside)
  hybrid : index sets w_real / w_fourier of HybridRenderer(n_sigma, m) and, for m = 0, bitwise comparison with FourierRenderer
  image  : the property's oracle on real images (outside = point-sampled profile, inside = float64 pixel integration,
           hybrid vs Fourier, n_sigma variants)
"""
import json
import os
import sys

import numpy as np
import nplib
from nplib import *  # noqa
from pysersic import rendering as R

sys.path.insert(0, os.path.join(os.environ.get("VERIF_DIR", "/verif"), "ref"))
import refrender as RR  # noqa: E402


def run_box(c):
    N, osz, m = c["N"], c["os"], c["num_os"]
    one = np.ones((1, 1), np.float32)
    r = PixelRenderer((N, N), jnp.array(one), os_pixel_size=osz, num_os=m)
    orig = R.render_sersic_2d
    R.render_sersic_2d = lambda X, Y, xc, yc, flux, r_eff, n, ellip, theta: (X * 1.0) ** 2 + (Y * 1.0) ** 2
    try:
        with jax.disable_jit():
            im = np.asarray(r.render_int_sersic(0., 0., 1., 1., 1., 0., 0.), np.float64)
    finally:
        R.render_sersic_2d = orig
    cols, rows = np.meshgrid(np.arange(N), np.arange(N))
    extra = im - (cols ** 2 + rows ** 2)
    w = np.asarray(np.polynomial.legendre.leggauss(m)[1]) / 2
    x = np.asarray(np.polynomial.legendre.leggauss(m)[0]) / 2
    inside_val = 2 * float((w * x ** 2).sum())
    cls = []
    for rr in range(N):
        row = []
        for cc in range(N):
            e = extra[rr, cc]
            tol = 1e-3 * (1 + cols[rr, cc] ** 2 + rows[rr, cc] ** 2) * 1e-3
            if abs(e) <= tol and (m == 1 or abs(e - inside_val) > tol):
                row.append(0)
            elif abs(e - inside_val) <= tol:
                row.append(1 if m > 1 else 0)
            else:
                row.append(2)
        cls.append(row)
    return {"class": cls, "attrs": [int(r.x_os_lo), int(r.x_os_hi), int(r.y_os_lo), int(r.y_os_hi)], "oracle": []}


def run_hybrid(c):
    psf = psf_stamp("gauss", 3)
    N = 16
    h = HybridRenderer((N, N), jnp.array(psf), n_sigma=c["n_sigma"], num_pixel_render=c["m"])
    out = {"w_real": [int(i) for i in np.asarray(h.w_real)], "w_fourier": [int(i) for i in np.asarray(h.w_fourier)], "oracle": []}
    if c["m"] == 0:
        f = FourierRenderer((N, N), jnp.array(psf), n_sigma=c["n_sigma"])
        p = dict(xc=8.3, yc=7.6, flux=10., r_eff=2.0, n=2.2, ellip=0.3, theta=0.7)
        a = np.asarray(h.render_source(p, "sersic"))
        b = np.asarray(f.render_source(p, "sersic"))
        if not np.array_equal(a, b):
            out["oracle"].append("hybrid with num_pixel_render=0 differs from the Fourier renderer (max %g)" % np.abs(a - b).max())
    return out


def run_image(c):
    out = {"oracle": []}
    N, p = c["N"], c["params"]
    if c["what"] == "pixel":
        one = np.ones((1, 1), np.float32)
        r = PixelRenderer((N, N), jnp.array(one), os_pixel_size=c["os"], num_os=c["num_os"])
        im = np.asarray(r.render_source(p, "sersic"), np.float64)
        cols, rows = np.meshgrid(np.arange(N), np.arange(N))
        point = np.asarray(R.render_sersic_2d(jnp.array(cols, jnp.float32), jnp.array(rows, jnp.float32), p["xc"], p["yc"], p["flux"], p["r_eff"], p["n"], p["ellip"], p["theta"]), np.float64)
        peak = point.max()
        lo, hi = N // 2 - c["os"], N // 2 + c["os"]
        inside = (rows >= lo) & (rows < hi) & (cols >= lo) & (cols < hi)
        if np.abs(im - point)[~inside].max() > 1e-6 * peak:
            out["oracle"].append("a pixel outside the box differs from the point-sampled profile")
        if c["num_os"] >= 3 and inside.any():
            # independent float64 pixel integration with the code's own b_n approximation (the claim is about the box, not about b_n)
            def sb(x, y):
                import math
                n, re, q, t = p["n"], p["r_eff"], 1 - p["ellip"], p["theta"]
                b = 1.9992 * n - 0.3271
                dx, dy = x - p["xc"], y - p["yc"]
                u = -dx * np.sin(t) + dy * np.cos(t)
                v = dx * np.cos(t) + dy * np.sin(t)
                z = np.sqrt(u ** 2 + (v / q) ** 2) / re
                amp = p["flux"] * b ** (2 * n) / (2 * np.pi * n * re ** 2 * q * np.exp(b) * math.gamma(2 * n))
                return amp * np.exp(-b * (z ** (1 / n) - 1))
            gx, gw = np.polynomial.legendre.leggauss(24)
            gx, gw = gx / 2, gw / 2
            ref = np.zeros((N, N))
            for a, wa in zip(gx, gw):
                for b_, wb in zip(gx, gw):
                    ref += wa * wb * sb(cols + a, rows + b_)
            d = np.abs(im - ref)[inside].max() / peak
            if d > 2e-5:
                out["oracle"].append("a box pixel differs from the float64 pixel integral by %.3g of the peak" % d)
            sep = np.abs(ref - point)[inside].max() / peak
            out["class_separation"] = float(sep)
    else:
        psf = RR.gaussian_psf(15, 3.0).astype(np.float32)
        f = FourierRenderer((N, N), jnp.array(psf), n_sigma=c.get("n_sigma", 15))
        a = np.asarray(f.render_source(p, "sersic"), np.float64)
        peak = a.max()
        for m in c["ms"]:
            h = HybridRenderer((N, N), jnp.array(psf), n_sigma=c.get("n_sigma", 15), num_pixel_render=m)
            b = np.asarray(h.render_source(p, "sersic"), np.float64)
            d = np.abs(a - b).max() / peak
            if m == 0 and d != 0:
                out["oracle"].append("num_pixel_render=0: hybrid != Fourier")
            if d > 6e-3:
                out["oracle"].append("num_pixel_render=%d: hybrid differs from Fourier by %.3g of the peak" % (m, d))
        for ns in (20, 30):
            f2 = FourierRenderer((N, N), jnp.array(psf), n_sigma=ns)
            d = np.abs(np.asarray(f2.render_source(p, "sersic"), np.float64) - a).max() / peak
            out.setdefault("nsigma_dev", {})[str(ns)] = float(d)
            if d > 5e-3:
                out["oracle"].append("n_sigma=%d differs from n_sigma=15 by %.3g of the peak" % (ns, d))
    return out


def main():
    cases = json.load(open(sys.argv[1]))
    json.dump([{"box": run_box, "hybrid": run_hybrid, "image": run_image}[c["mode"]](c) for c in cases], open(sys.argv[2], "w"))


if __name__ == "__main__":
    main()

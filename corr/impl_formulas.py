"""Translator validation: evaluate the ORIGINAL numerical functions of pysersic.rendering
(float64, jax_enable_x64) at the points listed in the request and return the values.

in : [{"fn": "sersic2d"|"sersic1d"|"gauss_fourier"|"ps_fourier"|"gauss_pixel"|"hybrid_obs", "args": {...}}]
out: [{"value": hex | [hex, hex], "lgamma": hex?}]
"""
import json
import sys

import jax

jax.config.update("jax_enable_x64", True)
import jax.numpy as jnp  # noqa: E402
import numpy as np  # noqa: E402
from pysersic import rendering as R  # noqa: E402


def fhex(x):
    return float(x).hex()


def run(c):
    a = c["args"]
    f = c["fn"]
    if f == "sersic2d":
        v = R.render_sersic_2d(jnp.float64(a["X"]), jnp.float64(a["Y"]), a["xc"], a["yc"], a["flux"], a["r_eff"], a["n"], a["ellip"], a["theta"])
        return {"value": fhex(v), "lgamma": fhex(jax.scipy.special.gammaln(2 * a["n"]))}
    if f == "sersic1d":
        v = R.sersic1D(jnp.float64(a["r"]), a["flux"], a["re"], a["n"])
        return {"value": fhex(v), "lgamma": fhex(jax.scipy.special.gammaln(2 * a["n"]))}
    if f == "gauss_fourier":
        FX = jnp.array([[a["FX"]]], jnp.float64)
        FY = jnp.array([[a["FY"]]], jnp.float64)
        v = R.render_gaussian_fourier(FX, FY, jnp.array(a["amps"], jnp.float64), jnp.array(a["sigmas"], jnp.float64), a["xc"], a["yc"], a["theta"], a["q"])
        v = complex(np.asarray(v)[0, 0])
        return {"value": [fhex(v.real), fhex(v.imag)]}
    if f == "ps_fourier":
        v = complex(R.render_pointsource_fourier(jnp.float64(a["FX"]), jnp.float64(a["FY"]), a["xc"], a["yc"], a["flux"]))
        return {"value": [fhex(v.real), fhex(v.imag)]}
    if f == "gauss_pixel":
        X = jnp.array([[a["X"]]], jnp.float64)
        Y = jnp.array([[a["Y"]]], jnp.float64)
        v = R.render_gaussian_pixel(X, Y, jnp.array(a["amps"], jnp.float64), jnp.array(a["sigmas"], jnp.float64), a["xc"], a["yc"], a["theta"],
                                    jnp.array(a["q"], jnp.float64))
        return {"value": fhex(np.asarray(v)[0, 0])}
    if f == "hybrid_obs":
        # what render_sersic_hybrid hands to render_gaussian_pixel / render_gaussian_fourier
        N = 16
        psf = np.zeros((3, 3)); psf[1, 1] = 0.5; psf[0, 1] = psf[2, 1] = psf[1, 0] = psf[1, 2] = 0.125
        psf = psf * a["psf_sum"]
        r = R.HybridRenderer((N, N), jnp.array(psf), num_pixel_render=a["m"], n_sigma=a["n_sigma"])
        rec = {}
        orig_p, orig_f = R.render_gaussian_pixel, R.render_gaussian_fourier

        def cap_p(X, Y, amps, sigmas, xc, yc, theta, q):
            rec["pixel"] = (np.asarray(amps), np.asarray(sigmas), np.asarray(q))
            return orig_p(X, Y, amps, sigmas, xc, yc, theta, q)

        def cap_f(FX, FY, amps, sigmas, xc, yc, theta, q):
            rec["fourier"] = (np.asarray(amps), np.asarray(sigmas), float(q))
            return orig_f(FX, FY, amps, sigmas, xc, yc, theta, q)
        R.render_gaussian_pixel, R.render_gaussian_fourier = cap_p, cap_f
        try:
            with jax.disable_jit():
                amps, sigmas = r.get_amps_sigmas(a["flux"], a["r_eff"], a["n"])
                r.render_sersic_hybrid(8.0, 8.0, a["flux"], a["r_eff"], a["n"], a["ellip"], 0.3)
        finally:
            R.render_gaussian_pixel, R.render_gaussian_fourier = orig_p, orig_f
        amps, sigmas = np.asarray(amps), np.asarray(sigmas)
        return {"sig_psf": fhex(r.sig_psf_approx), "amps": [fhex(v) for v in amps], "sigmas": [fhex(v) for v in sigmas],
                "pixel": [[fhex(v) for v in arr] for arr in rec["pixel"]],
                "fourier": [[fhex(v) for v in rec["fourier"][0]], [fhex(v) for v in rec["fourier"][1]], fhex(rec["fourier"][2])],
                "w_real": [int(i) for i in np.asarray(r.w_real)], "w_fourier": [int(i) for i in np.asarray(r.w_fourier)]}
    raise KeyError(f)


def main():
    cases = json.load(open(sys.argv[1]))
    json.dump([run(c) for c in cases], open(sys.argv[2], "w"))


if __name__ == "__main__":
    main()

"""Implementation side of C06/C07: call the real loss functions of pysersic.loss
under numpyro handlers and report, per case,
  - the sites (name, kind, observed?, distribution class and parameters),
  - the per-pixel log-probability of the observed / factor site,
  - the property oracles of C06 (exact invariance under masked-pixel
    perturbation, zero / non-zero gradients) evaluated on the implementation.

in : [{"loss": str, "H": int, "W": int, "suffix": str, "seed": int, "mask": "none"|"random"|"allbutone"|"allfalse",
       "maskdtype": "bool"|"int"|"float", "via": "direct"|"fitter"}]
"""
import json
import sys

import numpy as np
import nplib
from nplib import *  # noqa
from numpyro.infer.util import log_density
from pysersic.pysersic import parse_mask


def fhex(x):
    return float(x).hex()


def latent_info(site):
    fn = site["fn"]
    d = {"class": type(fn).__name__}
    for a in ("loc", "scale", "low", "high"):
        if hasattr(fn, a):
            v = getattr(fn, a)
            try:
                d[a] = fhex(np.asarray(v))
            except Exception:
                d[a] = None
    if hasattr(fn, "base_dist"):
        d["base"] = type(fn.base_dist).__name__
        for a in ("loc", "scale"):
            if hasattr(fn.base_dist, a):
                d["base_" + a] = fhex(np.asarray(getattr(fn.base_dist, a)))
    return d


def run(c):
    rng = np.random.default_rng(c["seed"])
    H, W = c["H"], c["W"]
    lossf = getattr(ploss, c["loss"])
    # dyadic inputs; positive model for the Cash statistic
    mod = np.array([[dyadic(rng, 0.5, 8, 4) for _ in range(W)] for _ in range(H)], np.float32)
    data = np.array([[dyadic(rng, -4, 12, 4) for _ in range(W)] for _ in range(H)], np.float32)
    rms = np.array([[dyadic(rng, 0.25, 3, 4) for _ in range(W)] for _ in range(H)], np.float32)
    if c["loss"] == "cash_loss" and c.get("wide_model", True) and c["seed"] % 2 == 0:
        # the Cash statistic is documented for every POSITIVE model: faint wings of a compact source reach 1e-12 and below
        mod = np.array([[2.0 ** int(rng.integers(-45, 8)) for _ in range(W)] for _ in range(H)], np.float32)
    if c["mask"] == "none":
        user = None
    else:
        if c["mask"] == "random":
            m = rng.random((H, W)) < 0.4
        elif c["mask"] == "allfalse":
            m = np.zeros((H, W), bool)
        else:
            m = np.ones((H, W), bool)
            m[rng.integers(H), rng.integers(W)] = False
        user = {"bool": m, "int": m.astype(int) * 3, "float": m.astype(float) * 0.5}[c["maskdtype"]]
    good = np.asarray(parse_mask(user, jnp.array(data)))      # fitter.mask: True = use
    sfx = c["suffix"]

    def model(mod_, data_, rms_):
        return lossf(mod_, data_, rms_, jnp.array(good), suffix=sfx)

    # draw latents from the prior, then trace at those values
    tr0 = handlers.trace(handlers.seed(model, jax.random.PRNGKey(c["seed"]))).get_trace(jnp.array(mod), jnp.array(data), jnp.array(rms))
    lat = {k: v["value"] for k, v in tr0.items() if v["type"] == "sample" and not v.get("is_observed", False)}
    tr = handlers.trace(handlers.substitute(model, data=lat)).get_trace(jnp.array(mod), jnp.array(data), jnp.array(rms))
    out = {"sites": [], "latents": {}, "dets": {}, "oracle": []}
    obs_site = None
    for k, s in tr.items():
        if s["type"] == "sample":
            observed = bool(s.get("is_observed", False))
            is_factor = type(s["fn"]).__name__ in ("Unit",) or "Unit" in type(getattr(s["fn"], "base_dist", s["fn"])).__name__
            entry = {"name": k, "type": "factor" if is_factor else "sample", "observed": observed}
            if not observed and not is_factor:
                entry["dist"] = latent_info(s)
                out["latents"][k] = fhex(np.float32(s["value"]))
            else:
                obs_site = s
                entry["dist"] = type(getattr(s["fn"], "base_dist", s["fn"])).__name__
                entry["masked_dist"] = "Masked" in type(s["fn"]).__name__
            out["sites"].append(entry)
        elif s["type"] == "deterministic":
            out["sites"].append({"name": k, "type": "deterministic"})
            out["dets"][k] = fhex(np.float32(s["value"]))
    # the per-pixel likelihood site is the observed / factor site whose log-probability has the shape of the image (a loss may
    # carry further scalar factors; they enter the total log-density used by the invariance oracle below)
    cand = [s_ for s_ in tr.values() if s_["type"] == "sample" and (s_.get("is_observed", False) or "Unit" in type(getattr(s_["fn"], "base_dist", s_["fn"])).__name__)]
    for s_ in cand:
        if np.shape(np.asarray(s_["fn"].log_prob(s_["value"]))) == (H, W):
            obs_site = s_
            break
    lp = np.asarray(obs_site["fn"].log_prob(obs_site["value"]), dtype=np.float64)
    if lp.shape != (H, W):
        lp = np.broadcast_to(lp, (H, W)).copy()
    out["logp"] = [[fhex(v) for v in row] for row in lp]
    out["inputs"] = {"mod": [[fhex(v) for v in r] for r in mod], "data": [[fhex(v) for v in r] for r in data],
                     "rms": [[fhex(v) for v in r] for r in rms], "good": [[bool(v) for v in r] for r in good]}
    if user is not None and not np.array_equal(good, ~(np.asarray(user) != 0)):
        out["oracle"].append("good pixels are not logical_not(user mask)")
    if user is None and not good.all():
        out["oracle"].append("no mask supplied but some pixel is excluded")
    if np.any(lp[~good] != 0):
        out["oracle"].append("a masked pixel has a non-zero log-probability term")

    if c["loss"].startswith("student_t") and good.any():
        # per-pixel log-density at zero residual and at a residual of 2 rms: for a Student-t with 5 d.o.f. and scale s,
        # lp(0) - lp(r) = 3 ln(1 + (r/s)^2 / 5), which gives s pixel by pixel
        def site_lp(data_):
            trx = handlers.trace(handlers.substitute(model, data=lat)).get_trace(jnp.array(mod), jnp.array(data_), jnp.array(rms))
            so = [s_ for s_ in trx.values() if s_["type"] == "sample" and s_.get("is_observed", False)][0]
            return np.asarray(so["fn"].log_prob(so["value"]), np.float64)
        r_ = 2.0 * np.asarray(rms, np.float64)
        lp0, lp2 = site_lp(mod), site_lp((np.asarray(mod, np.float64) + r_).astype(np.float32))
        z2 = 5.0 * np.expm1((lp0 - lp2) / 3.0)
        with np.errstate(all="ignore"):
            s_meas = r_ / np.sqrt(z2)
        sysv = 0.0
        for k_, v_ in out["dets"].items():
            if k_.startswith("sys_rms") and not k_.startswith("sys_rms_base"):
                sysv = float.fromhex(v_)
        ratio = s_meas / np.sqrt(np.asarray(rms, np.float64) ** 2 + sysv ** 2)
        rg = ratio[good]
        out["student_scale_ratio"] = [float(rg.min()), float(rg.max())]
        if not np.all(np.isfinite(rg)) or rg.max() / rg.min() - 1 > 2e-4:
            out["oracle"].append("Student-t scale is not proportional to sqrt(rms^2 + sys_rms^2): scale / that ranges over [%.5f, %.5f] across pixels" % (rg.min(), rg.max()))

    # ---- C06 oracle on the implementation: exact invariance + gradients
    def total(mod_, data_, rms_):
        return log_density(model, (mod_, data_, rms_), {}, lat)[0]

    base = float(total(jnp.array(mod), jnp.array(data), jnp.array(rms)))
    out["total"] = fhex(base)
    bad = ~good
    if bad.any():
        for which in ("data", "rms", "mod"):
            arrs = {"data": data.copy(), "rms": rms.copy(), "mod": mod.copy()}
            arrs[which][bad] = rng.choice([1e4, 7.0, 1e-3, 3e5], size=int(bad.sum())).astype(np.float32)
            t2 = float(total(jnp.array(arrs["mod"]), jnp.array(arrs["data"]), jnp.array(arrs["rms"])))
            if t2 != base:
                out["oracle"].append("log-density changes by %g when masked %s pixels change" % (t2 - base, which))
        for dv, rv in ((1e30, None), (-3e25, 1e-3), (1e30, 1e15)):
            arrs = {"data": data.copy(), "rms": rms.copy(), "mod": mod.copy()}
            arrs["data"][bad] = np.float32(dv)
            if rv is not None:
                arrs["rms"][bad] = np.float32(rv)
            t2 = float(total(jnp.array(arrs["mod"]), jnp.array(arrs["data"]), jnp.array(arrs["rms"])))
            if not (t2 == base):
                out["oracle"].append("log-density becomes %r (was %r) when masked pixels hold the huge finite values data=%g%s" % (t2, base, dv, "" if rv is None else ", rms=%g" % rv))
    g_mod, g_data, g_rms = jax.grad(total, argnums=(0, 1, 2))(jnp.array(mod), jnp.array(data), jnp.array(rms))
    g_data, g_rms, g_mod = np.asarray(g_data), np.asarray(g_rms), np.asarray(g_mod)
    for nm, g in (("data", g_data), ("rms", g_rms), ("model", g_mod)):
        if np.any(g[bad] != 0) or not np.all(np.isfinite(g)):
            out["oracle"].append("d(log-density)/d(%s) is not identically zero on masked pixels (or not finite)" % nm)
    # "an unmasked pixel matters": the gradient with respect to data (and rms) is non-zero on every used pixel.  Stationary points
    # (residual 0; |residual| = rms for the Gaussian; model = 1 for Cash) are measure-zero exceptions that dyadic test data do hit, so
    # this assertion is evaluated on a copy of the inputs with non-dyadic, pixel-dependent offsets.
    off = (np.arange(H * W).reshape(H, W) + 1.0)
    data2 = (np.asarray(data, np.float64) + 0.0123456789 * off * 1.618033).astype(np.float32)
    rms2 = (np.asarray(rms, np.float64) * (1.0 + 0.00917 * np.sqrt(off))).astype(np.float32)
    mod2 = (np.asarray(mod, np.float64) * (1.0 + 0.00431 * np.cbrt(off))).astype(np.float32)
    g2_mod, g2_data, g2_rms = jax.grad(total, argnums=(0, 1, 2))(jnp.array(mod2), jnp.array(data2), jnp.array(rms2))
    g2_data, g2_rms = np.asarray(g2_data), np.asarray(g2_rms)
    if good.any() and np.any(g2_data[good] == 0):
        out["oracle"].append("d(log-density)/d(data) vanishes on an unmasked pixel")
    uses_rms = c["loss"] != "cash_loss"
    if uses_rms and good.any() and np.any(g2_rms[good] == 0):
        out["oracle"].append("d(log-density)/d(rms) vanishes on an unmasked pixel")
    return out


def main():
    cases = json.load(open(sys.argv[1]))
    json.dump([run(c) for c in cases], open(sys.argv[2], "w"))


if __name__ == "__main__":
    main()

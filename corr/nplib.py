"""Helpers shared by the implementation-side scripts that drive numpyro models
of pysersic (C05, C06, C07, C11, C13, C15, C16)."""
import warnings

warnings.filterwarnings("ignore")
import numpy as np  # noqa: E402
import jax  # noqa: E402
import jax.numpy as jnp  # noqa: E402
import numpyro  # noqa: E402
from numpyro import handlers  # noqa: E402

from pysersic import FitSingle, FitMulti, loss as ploss  # noqa: E402
from pysersic.priors import PySersicSourcePrior, PySersicMultiPrior, SourceProperties  # noqa: E402
from pysersic.rendering import PixelRenderer, HybridRenderer, FourierRenderer, base_profile_params  # noqa: E402

REND = {"pixel": PixelRenderer, "hybrid": HybridRenderer, "fourier": FourierRenderer}
LOSSES = ["gaussian_loss", "cash_loss", "gaussian_loss_w_frac", "gaussian_loss_w_sys", "student_t_loss",
          "student_t_loss_free_sys", "pseudo_huber_loss", "gaussian_mixture", "gaussian_mixture_w_sys", "gaussian_mixture_w_frac"]


def dyadic(rng, lo, hi, bits=6):
    """random multiple of 2^-bits in [lo, hi]"""
    k = rng.integers(int(np.ceil(lo * 2 ** bits)), int(np.floor(hi * 2 ** bits)) + 1)
    return float(k) / 2 ** bits


def source_prior(profile, sky_type="none", suffix="", N=8, rng=None, sky_guess=0.25, sky_err=0.5):
    """a PySersicSourcePrior built through generate_prior with explicit guesses"""
    props = SourceProperties(-99)
    props.set_sky_guess(sky_guess=sky_guess, sky_guess_err=sky_err)
    props.set_flux_guess(16.0, 4.0)
    props.set_r_eff_guess(2.0, 1.0)
    props.set_theta_guess(0.5)
    props.set_position_guess((N / 2.0, N / 2.0 - 0.5))
    return props.generate_prior(profile, sky_type=sky_type, suffix=suffix)


def multi_prior(types, sky_type="none", suffix="", N=8, sky_guess=0.25, sky_err=0.5):
    cat = {"x": [N / 2.0 + 0.5 * i for i in range(len(types))], "y": [N / 2.0 - 0.5 * i for i in range(len(types))],
           "flux": [16.0 + i for i in range(len(types))], "r": [2.0] * len(types), "type": list(types)}
    if sky_type == "none":
        return PySersicMultiPrior(cat, sky_type=sky_type, suffix=suffix)
    return PySersicMultiPrior(cat, sky_type=sky_type, sky_guess=sky_guess, sky_guess_err=sky_err, suffix=suffix)


def psf_stamp(kind="delta", P=3):
    if kind == "delta":
        p = np.zeros((P, P), np.float32)
        p[P // 2, P // 2] = 1.0
        return p
    x = np.arange(P) - (P - 1) / 2
    g = np.exp(-0.5 * (x[:, None] ** 2 + x[None, :] ** 2) / 1.0)
    return (g / g.sum()).astype(np.float32)


def trace_at(model, values, **kw):
    """trace of the model with the given site values substituted"""
    return handlers.trace(handlers.substitute(model, data=values)).get_trace(**kw)


def prior_draw(model, seed=0, **kw):
    """one draw of every latent site (as the reparameterised model exposes them)"""
    tr = handlers.trace(handlers.seed(model, jax.random.PRNGKey(seed))).get_trace(**kw)
    return {k: v["value"] for k, v in tr.items() if v["type"] == "sample" and not v.get("is_observed", False)}, tr


def site_summary(tr):
    out = {}
    for k, s in tr.items():
        if s["type"] == "sample":
            out[k] = {"type": "sample", "observed": bool(s.get("is_observed", False)), "dist": type(s["fn"]).__name__}
        elif s["type"] == "deterministic":
            out[k] = {"type": "deterministic"}
    return out

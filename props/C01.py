"""C01 - the rendered model carries the requested total flux  (PARTIAL).

T: kernels, ramps, glue regenerated; amplitude table (row sums + interpax derivative estimates) dumped from the running
renderer; Props/C01.v re-proved: DC values, sum(irfft2 F) = Re F[0,0] for every N (Base/Dft.v), FFT convolution multiplies
the total by PSF_fft[0,0] = sum(psf), amplitude sums in [0.955,1.045] for EVERY n in [0.8,6] (Hermite/Bernstein hull).
K: the Coq irfft2 model vs jnp.fft.irfft2 on random half-plane arrays (interval); the Hermite model + dumped table vs the
real interpolated amplitudes (interval).
Search: totals of real renderings vs the exact decomposition and vs the independent reference (bands of the property).
"""
import json
import random
import re
from fractions import Fraction

import vlib
import gen
from props import losslib, formlib
from props.C08 import rand_params, PROFILES

q = formlib.q


def knots():
    import os
    txt = open(os.path.join(vlib.COQ, "Gen", "AmpTable.v")).read()
    xs = [Fraction(int(a), int(b)) for a, b in re.findall(r"\(\((\d+) / (\d+)\), ", txt)]
    return xs


def run(ck):
    rng = random.Random(ck.seed * 7919 + 1)
    quick = ck.tier == "quick"
    rep = gen.generate_all(only=["Formulas", "Ramps", "Amps", "AmpTable", "RenderGlue", "ProfileParams"])
    for u, (ok, msg) in rep.items():
        ck.oblige("translate:" + u, "translate", ok, msg)
    ck.guard()
    ck.prove("Props/C01.v", timeout=2400)
    cases = []
    # --- K1: irfft2 model
    for N in ([3, 4] if quick else [3, 4, 5, 6]):   # (N = 7: 8 minutes per interval goal, N = 8 more)
        for _ in range(1 if quick else 2):
            F = [[[formlib.dy(rng, -4, 4, 3), formlib.dy(rng, -4, 4, 3)] for _ in range(N // 2 + 1)] for _ in range(N)]
            cases.append({"mode": "fft", "N": N, "F": F, "pixels": [[rng.randrange(N), rng.randrange(N)] for _ in range(2)]})
    # --- K2: interpolated amplitude sums
    ns = [float(Fraction(rng.randint(int(0.66 * 2 ** 12), int(7.99 * 2 ** 12)), 2 ** 12)) for _ in range(6 if quick else 60)]
    cases.append({"mode": "amps", "n": ns})
    # --- oracle
    ntot = 9 if quick else 150
    for i in range(ntot):
        N = rng.choice([48, 64])
        T = PROFILES[i % 7]
        p = rand_params(rng, T, N)
        p["flux"] = rng.uniform(10, 200)
        for k in p:
            if k.startswith("r_eff"):
                p[k] = rng.uniform(1.5, N / 12)
            if k == "n" or k.startswith("n_"):
                p[k] = rng.uniform(0.8, 6) if i % 3 else rng.uniform(0.8, 2.5)
            if k in ("xc", "yc"):
                p[k] = N / 2 + rng.uniform(-5, 5)
        rend = ["fourier", "hybrid", "pixel"][i % 3]
        cases.append({"mode": "total", "renderer": rend, "N": N, "profile": T, "params": p, "P": rng.choice([5, 7, 8, 9]), "psf": rng.choice(["gauss", "random"]),
                      "fwhm": rng.uniform(2.5, 3.5), "psf_sum": rng.choice([1.0, 1.0, 0.5, 2.0]), "seed": i, "band": (i % 2 == 0)})
    # non-normalised PSFs on the hybrid renderer (its real-space components must scale with sum(psf) like the FFT-convolved ones)
    for ps_ in (0.5, 2.0):
        cases.append({"mode": "total", "renderer": "hybrid", "N": 64, "profile": "sersic",
                      "params": {"xc": 32.3, "yc": 31.6, "flux": 100.0, "r_eff": 4.0, "n": 4.0, "ellip": 0.3, "theta": 0.7}, "P": 9, "psf": "gauss", "fwhm": 3.0,
                      "psf_sum": ps_, "seed": 1, "band": True})
    for (re_, n_, e_, fw_) in ([(1.5, 4.0, 0.85, 4.7)] if quick else [(1.5, 4.0, 0.85, 4.7), (2.0, 3.0, 0.9, 5.9), (1.0, 4.0, 0.9, 4.7), (1.5, 2.5, 0.8, 3.5)]):
        for rend_ in ("hybrid", "fourier"):
            cases.append({"mode": "total", "renderer": rend_, "N": 64, "profile": "sersic",
                          "params": {"xc": 32.3, "yc": 31.6, "flux": 100.0, "r_eff": re_, "n": n_, "ellip": e_, "theta": 0.7}, "P": 15, "psf": "gauss", "fwhm": fw_,
                          "psf_sum": 1.0, "seed": 3, "band": True})
    ck.log("implementation: %d cases (fft / amps / totals)" % len(cases))
    import concurrent.futures as cf
    nsh = min(6, vlib.NCPU)
    shards = [cases[i::nsh] for i in range(nsh)]
    with cf.ThreadPoolExecutor(nsh) as ex:
        outs = list(ex.map(lambda s: ck.run_impl("impl_c01.py", s, timeout=3000), shards))
    res = [None] * len(cases)
    for kk, o in enumerate(outs):
        for j, r in enumerate(o):
            res[kk + j * nsh] = r
    goals, oracle_bad = [], []
    xs = knots()
    for ci, (c, r) in enumerate(zip(cases, res)):
        ck.bump("mode", c["mode"])
        if c["mode"] == "fft":
            ck.count(json.dumps(c), nontrivial=True)
            tab = "[" + "; ".join("[" + "; ".join("(%s, %s)" % (q(a), q(b)) for a, b in row) + "]" for row in c["F"]) + "]"
            for (rr, cc, h) in r["pixels"]:
                goals.append((ci, "irfft2:N=%d" % c["N"], "Goal Rabs (irfft2 %d (tab %s) %d %d - %s) <= 1 / 100000000.\nProof. dft_eval. interval with (i_prec 70). Qed." % (c["N"], tab, rr, cc, q(h))))
        elif c["mode"] == "amps":
            for n, h in zip(c["n"], r["S"]):
                ck.count("amps:%r" % n, nontrivial=True)
                nf = Fraction(n)
                i = max(k for k, x in enumerate(xs) if x <= nf)
                i = min(i, len(xs) - 2)
                goals.append((ci, "S_T(%g)" % n, "Goal let '(x0, F0, D0) := nth %d amp_knots (0, 0, 0) in let '(x1, F1, D1) := nth %d amp_knots (0, 0, 0) in\n"
                                                "  x0 <= %s <= x1 /\\ Rabs (hermite F0 F1 D0 D1 (x1 - x0) ((%s - x0) / (x1 - x0)) - %s) <= 3 / 100000.\n"
                                                "Proof. unfold amp_knots. cbn [nth]. unfold hermite. repeat split; interval with (i_prec 80). Qed." % (i, i + 1, q(nf), q(nf), q(h))))
        else:
            ck.bump("renderer", c["renderer"]); ck.bump("profile", c["profile"]); ck.bump("psf_sum", c["psf_sum"])
            ck.count(json.dumps(c), nontrivial=True)
            if r["oracle"]:
                oracle_bad.append((c, r))
    ck.rule = ("irfft2 model: random dyadic half-plane arrays for N=3..6 (odd and even); amplitude sums at random n in [0.66, 8]; totals: 7 profile types x 3 renderers, odd/even and "
               "non-normalised PSFs, sub-pixel centres, frames 48/64")
    ok, detail, failing = True, "", []
    if any(o["name"].startswith("translate:") and not o["ok"] for o in ck.obligations):
        ok, detail = False, "model could not be regenerated"
    else:
        with vlib.Lock():
            okm, _ = vlib.coq_make(["Proofs/FluxProofs.vo"], timeout=2400)
        if not okm:
            ok, detail = False, "Proofs/FluxProofs.v does not build"
        else:
            hdr = ("From Coq Require Import Reals List Lia.\nFrom Coquelicot Require Import Coquelicot.\nFrom Interval Require Import Tactic.\n"
                   "From PS Require Import Base.RBase Base.Dft Gen.AmpTable Proofs.AgreementProofs Proofs.FluxProofs.\nImport ListNotations.\nOpen Scope R_scope.\n"
                   "Definition tab (t : list (list (R * R))) (ky kx : nat) : C := nth kx (nth ky t []) (0, 0).\n"
                   "Ltac dft_eval :=\n  unfold irfft2, irfft2_T, half, wN;\n"
                   "  repeat match goal with |- context [Nat.even ?n] => let b := eval vm_compute in (Nat.even n) in change (Nat.even n) with b end;\n"
                   "  repeat match goal with |- context [Nat.div ?a ?b] => let v := eval vm_compute in (Nat.div a b) in change (Nat.div a b) with v end;\n"
                   "  cbn [csum Nat.sub]; rewrite ?Cpow_cis; unfold tab; cbn [nth];\n"
                   "  unfold cis, Cmult, Cplus, RtoC, Re; cbn [fst snd Nat.mul Nat.add INR].\n")
            old = losslib.HDR
            losslib.HDR = hdr
            try:
                failing = losslib.run_goals(ck, goals, "c01", shard=4 if quick else 2)
            finally:
                losslib.HDR = old
            ck.extra["coq_goals"] = len(goals)
            ck.cmds.append("coqc -Q coq PS coq/Cases/<run>/c01_NNN.v  (%d interval goals)" % len(goals))
            if failing:
                ok = False
                detail = "; ".join("%s: %s" % (f[1], f[2].replace("\n", " ")[:140]) for f in failing[:3])
    ck.oblige("correspondence:Coq irfft2 model == jnp.fft.irfft2; Hermite model on the dumped table == interpolated amplitude sums (interval)", "correspondence", ok, detail)
    ck.oblige("oracle:totals of real renderings == sum(psf)*flux*W (Fourier), flux*sum(psf) (point sources), sum(psf)*sum(intrinsic) (pixel); bands vs the reference integration", "correspondence",
              not oracle_bad, json.dumps(oracle_bad[0][1]["oracle"][:2]) if oracle_bad else "")
    ck.samples += [{k: c[k] for k in c if k != "F"} for c in cases[:2]] + [c for c in cases if c["mode"] == "total"][:3]
    ck.trusted += ["Coq 8.16.1 kernel; Coquelicot; Interval; Reals axioms (sig_forall_dec, sig_not_dec, functional_extensionality_dep) and Classical_Prop.classic via Coquelicot",
                   "translator units Formulas/Ramps/Amps/RenderGlue; run-time dump of the amplitude table and of interpax.approx_df (corr/dump_tables.py)",
                   "hand model of jnp.fft.irfft2 (Base/Dft.v: complex inverse FFT along rows, C2R along columns) tied by the interval correspondence; the forward rfft2 enters only through its "
                   "zero-frequency value sum(image)",
                   "NOT proved: the 2-D (elliptical) plane integral of the analytic Sersic law (its circular radial integral for integer 2n IS proved to be the flux); the 12-point quadrature error (pixel); sampled-vs-integrated real-space Gaussians (hybrid); the "
                   "in-footprint fraction f_in - all only through the search oracle; float32 rounding (margin of the certificate: 0.9589 vs 0.955)"]
    ck.explanation = ("Proved: zero-frequency value of the Fourier Gaussian mixture = sum of amplitudes, of the point source = flux, of both PSF ramps = 1 (for any pi literal); sum over all pixels of "
                      "irfft2(F) = Re F[0,0] for every N>=1 and every half-plane array (roots-of-unity geometric sums); FFT convolution multiplies the total by PSF_fft[0,0]; amplitudes = table x "
                      "flux and composites split the flux f / 1-f; certificate: for EVERY n in [0.8,6] the interpolated unit-flux amplitudes sum to within [0.955,1.045] ([0.98,1.02] on "
                      "[1.25,4]).  Hence the Fourier renderer's total is sum(psf)*flux*S_T(n) independent of position, angle, ellipticity, r_eff, PSF and frame size.  The sum over all pixels of the centred convolution is total(scene)*sum(psf) (spatial form).  For integer 2n the light of the generated 1-D profile between radii a and R is flux*(P(2n,tR)-P(2n,ta)) with P the regularised incomplete gamma integral (proved), 0<=P<=1, P(m,x)<=x^m/m!, 1-P(m,x)<=m(m+1)!/x^2: the flux argument is the total light.")
    if ck.broken():
        if oracle_bad:
            c, r = oracle_bad[0]
            ck.violation({"what": "rendered total flux contradicts the property", "violated": r["oracle"][:3], "case": c, "stats": r["stats"]}, True)
        elif failing:
            ck.violation({"what": "irfft2 / amplitude-table model differs from the implementation", "where": failing[0][1], "detail": failing[0][2][:300]}, False)


def replay(path):
    rep = json.load(open(path))
    ck = vlib.Check("C01", "quick", 0)
    r = ck.run_impl("impl_c01.py", [rep["case"]])[0]
    ck.cleanup()
    print(r)
    print("REPLAY:", "still failing" if r.get("oracle") else "not failing")
    return 1 if r.get("oracle") else 0

"""C02 - profile parameters mean what the API says (centre, r_eff, ellip, theta).

T: kernels and grids regenerated; Props/C02.v re-proved (centre symmetry, major /
minor axis along (-sin t, cos t) / (cos t, sin t), same ellipse in all three
evaluation paths, Fourier phase, half-light fraction at integer 2n).
K: translator validation of the kernels against the JAX functions (interval).
Search: Gaussian-weighted moments of real renderings vs the independent float64
reference renderer; enclosed-light fraction inside the r_eff ellipse.
"""
import json
import random

import vlib
import gen
from props import formlib


def run(ck):
    rng = random.Random(ck.seed * 7919 + 2)
    quick = ck.tier == "quick"
    rep = gen.generate_all(only=["Formulas", "Grid"])
    for u, (ok, msg) in rep.items():
        ck.oblige("translate:" + u, "translate", ok, msg)
    ck.guard()
    ck.prove("Props/C02.v")
    ok, detail, failing, pts = True, "", [], []
    if any(o["name"].startswith("translate:") and not o["ok"] for o in ck.obligations):
        ok, detail = False, "model could not be regenerated"
    else:
        with vlib.Lock():
            vlib.coq_make(["Gen/Formulas.vo"])
        ok, detail, failing, pts, res = formlib.validate(ck, rng, 3 if quick else 30, "c02f")
        ck.samples += [{"formula": p["fn"], "args": p["args"], "value": r["value"]} for p, r in list(zip(pts, res))[:4]]
    ck.oblige("correspondence:generated kernels == the JAX functions they were extracted from (interval, 1e-9)", "correspondence", ok, detail)
    cases = []
    n = 6 if quick else 60
    for i in range(n):
        rend = ["fourier", "hybrid", "pixel"][i % 3]
        N = rng.choice([48, 64])
        p = {"xc": N / 2 + rng.uniform(-2.5, 2.5), "yc": N / 2 + rng.uniform(-2.5, 2.5), "flux": 100.0, "r_eff": rng.uniform(1.5, (N / 2 - 3.5) / 6),
             "n": rng.uniform(0.8, 2.5 if rend == "pixel" else 6), "ellip": rng.uniform(0.3, 0.8) if i % 2 == 0 else rng.uniform(0, 0.8), "theta": rng.uniform(0, 6.28)}
        psf = "delta" if (rend == "pixel" and i % 2) else rng.choice(["gauss", "moffat"])
        cases.append({"renderer": rend, "N": N, "params": p, "psf": psf, "fwhm": rng.uniform(2.5, 4.0), "half_light": (i % 3 == 2 or i == 0)})
    for i in range(1 if quick else 8):
        # a hybrid renderer with most of the light in real-space components: elongated, generic angle
        N = rng.choice([48, 64])
        p = {"xc": N / 2 + rng.uniform(-2.5, 2.5), "yc": N / 2 + rng.uniform(-2.5, 2.5), "flux": 100.0, "r_eff": rng.uniform(2.0, (N / 2 - 3.5) / 6),
             "n": rng.uniform(1.0, 5), "ellip": rng.uniform(0.5, 0.8), "theta": rng.choice([0.5, 1.1, 2.0, 2.6]) + rng.uniform(-0.2, 0.2)}
        cases.append({"renderer": "hybrid8", "N": N, "params": p, "psf": "gauss", "fwhm": rng.uniform(2.5, 4.0), "half_light": False})
    for i in range(2 if quick else 12):
        # composite profiles: two components with DIFFERENT ellipticities, sizes and indices about one centre and angle
        N = rng.choice([48, 64])
        prof = ["sersic_exp", "doublesersic"][i % 2]
        e1, e2 = rng.choice([(0.3, 0.75), (0.75, 0.3), (0.35, 0.6)])
        p = {"xc": N / 2 + rng.uniform(-2.5, 2.5), "yc": N / 2 + rng.uniform(-2.5, 2.5), "flux": 100.0, "f_1": rng.uniform(0.3, 0.7),
             "r_eff_1": rng.uniform(2.0, N / 16), "r_eff_2": rng.uniform(2.5, (N / 2 - 3.5) / 6), "ellip_1": e1, "ellip_2": e2, "theta": rng.uniform(0, 6.28)}
        if prof == "sersic_exp":
            p["n"] = rng.uniform(1.0, 3.0)
        else:
            p["n_1"], p["n_2"] = rng.uniform(1.0, 3.0), rng.uniform(0.8, 2.0)
        cases.append({"renderer": ["fourier", "hybrid", "pixel"][(i // 2) % 3], "profile": prof, "N": N, "params": p, "psf": "gauss", "fwhm": rng.uniform(2.5, 4.0), "half_light": False})
    for i in range(1 if quick else 6):
        N = 64
        p = {"xc": N / 2 + rng.uniform(1.0, 3.0), "yc": N / 2 - rng.uniform(1.0, 3.0), "flux": 100.0, "f_ps": rng.uniform(0.3, 0.6), "r_eff": rng.uniform(2.0, (N / 2 - 3.5) / 6),
             "n": rng.uniform(0.8, 2.5), "ellip": rng.uniform(0.3, 0.7), "theta": rng.uniform(0, 6.28)}
        cases.append({"renderer": ["fourier", "hybrid", "pixel"][(i + ck.seed) % 3], "profile": "sersic_pointsource", "N": N, "params": p, "psf": "gauss", "fwhm": rng.uniform(2.5, 4.0),
                      "half_light": False, "centroid_only": True})
    ck.log("implementation: %d renderings vs the reference renderer" % len(cases))
    import concurrent.futures as cf
    nsh = min(6, vlib.NCPU)
    shards = [cases[i::nsh] for i in range(nsh)]
    with cf.ThreadPoolExecutor(nsh) as ex:
        outs = list(ex.map(lambda s: ck.run_impl("impl_c02.py", s, timeout=2400), shards))
    resi = [None] * len(cases)
    for kk, o in enumerate(outs):
        for j, r in enumerate(o):
            resi[kk + j * nsh] = r
    oracle_bad = [(c, r) for c, r in zip(cases, resi) if r["oracle"]]
    for c in cases:
        ck.bump("renderer", c["renderer"]); ck.bump("psf", c["psf"])
        ck.count(json.dumps(c), nontrivial=True)
    ck.extra["half_light_fractions"] = [r["half_light"] for r in resi if r["half_light"] is not None]
    ck.oblige("oracle:centroid / position angle / axis ratio / size vs the independent reference renderer; enclosed light inside the r_eff ellipse", "correspondence",
              not oracle_bad, json.dumps(oracle_bad[0][1]["oracle"][:2]) if oracle_bad else "")
    ck.rule = "translator validation at random float64 points; oracle: sersic sources 0.8<=n<=6 (pixel: <=2.5), 1.5<=r_eff<=N/12, Gaussian/Moffat PSFs FWHM 2.5-4 px (identity for pixel), sub-pixel centres"
    ck.trusted += ["Coq 8.16.1 kernel; Interval; Reals axioms", "translator units Formulas, Grid",
                   "NOT proved (numerical analysis): the moment tolerances against the reference renderer; half-light fraction for non-integer 2n; the 2-D (elliptical) plane-integral reduction of the "
                   "enclosed light to the radial integral and the limit a -> 0 (the radial integral itself, for the circular 1-D profile and integer 2n, IS proved)",
                   "reference renderer ref/refrender.py (independent float64 integration with exact b_n) is used only by the search oracle"]
    ck.explanation = ("Proved for all parameters: X=column/Y=row with integer pixel centres; all three kernels are point-symmetric about (xc,yc) (Fourier: real even amplitude, phase exactly "
                      "-2pi(FX xc+FY yc)); along (-sin t, cos t) the elliptical radius is |w|/r_eff and along (cos t, sin t) it is |w|/((1-ellip) r_eff) - theta from +y towards -x, axis ratio 1-ellip, "
                      "modulo pi; real-space and Fourier Gaussians carry the same covariance R diag(s^2, q^2 s^2) R^T; enclosed fraction P(2n,b_n) in [0.494,0.5005] for 2n=2..12, where P(m,b) = 1-exp(-b) sum_{k<m} b^k/k! is proved to be the "
                      "regularised incomplete gamma integral and flux*P(2n, b_n (r/re)^(1/n)) is proved to be the light curve of the generated 1-D profile (growth rate 2 pi r I(r)), so the "
                      "light between any a>0 and r_eff is flux*(P(2n,b_n) - P(2n, b_n (a/re)^(1/n))).")
    if ck.broken():
        if oracle_bad:
            c, r = oracle_bad[0]
            ck.violation({"what": "image moments contradict the documented meaning of the parameters", "violated": r["oracle"][:3], "case": c, "impl_moments": r["impl"], "ref_moments": r["ref"]}, True)
        elif failing:
            ck.violation({"what": "generated kernel differs from the JAX function", "point": pts[failing[0][0]], "detail": failing[0][2][:300]}, False)


def replay(path):
    rep = json.load(open(path))
    ck = vlib.Check("C02", "quick", 0)
    r = ck.run_impl("impl_c02.py", [rep["case"]])[0]
    ck.cleanup()
    print(r)
    print("REPLAY:", "still failing" if r["oracle"] else "not failing")
    return 1 if r["oracle"] else 0

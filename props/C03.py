"""C03 - the model is the intrinsic scene convolved with the PSF exactly as supplied  (PARTIAL: fractional positions).

T: PSF ramps, PSF_fft product, Fourier and pixel point-source code regenerated; Props/C03.v re-proved (ramp = integer-shift
phase for odd stamps, geometric-centre convention, untransposed pixel point source, DC preservation).
K: the unit-modulus phase PSF_fft / rfft2(psf) of real renderers vs the generated ramp phases (interval); the Coq irfft2
model is validated under C01.
Search: point sources vs embedded stamps (2e-5 of peak), fractional-position centroids (0.02 px), extended sources vs direct
spatial convolution of the renderer's own intrinsic image, unit PSF = identity.
"""
import json
import random
from fractions import Fraction

import vlib
import gen
from props import losslib, formlib

q = formlib.q


def run(ck):
    rng = random.Random(ck.seed * 7919 + 3)
    quick = ck.tier == "quick"
    rep = gen.generate_all(only=["Ramps", "Formulas", "RenderGlue", "Amps", "AmpTable"])
    for u, (ok, msg) in rep.items():
        ck.oblige("translate:" + u, "translate", ok, msg)
    ck.guard()
    ck.prove("Props/C03.v", timeout=2400)
    cases = []
    for N, P in ([(8, 3), (9, 4)] if quick else [(8, 1), (8, 3), (9, 4), (10, 5), (11, 2), (12, 5), (16, 7)]):
        cases.append({"mode": "ramp", "N": N, "P": P, "seed": rng.randint(0, 999), "freqs": [[rng.randrange(N), rng.randrange(N // 2 + 1)] for _ in range(3)]})
    for i in range(8 if quick else 80):
        integer = i % 2 == 0
        N = rng.choice([8, 9, 10, 11, 12, 16]) if integer else rng.choice([32, 40])
        P = rng.choice([1, 3, 5]) if integer else [6, 7, 8, 9][(i // 2) % 4]      # even stamps have a half-integer centre: tested like fractional positions
        lo = P // 2 + 1 if integer else 12
        if not integer and i % 4 == 1:
            integer = True       # integer position, possibly even stamp, on the large frame
        xc = rng.randint(lo, N - lo - 1) + (0 if integer else rng.choice([0.25, 0.5, 0.7]))
        yc = rng.randint(lo, N - lo - 1) + (0 if integer else rng.choice([0.0, 0.4, 0.5]))
        cases.append({"mode": "point", "N": N, "P": P, "seed": rng.randint(0, 999), "xc": float(xc), "yc": float(yc), "flux": rng.choice([1.0, 7.5, 120.0])})
    for i in range(2 if quick else 16):
        N = 32
        p = {"xc": 16 + rng.uniform(-2, 2), "yc": 16 + rng.uniform(-2, 2), "flux": 50.0, "r_eff": rng.uniform(2, 2.6), "n": rng.uniform(0.8, 2.5), "ellip": rng.uniform(0, 0.5), "theta": rng.uniform(0, 3)}
        cases.append({"mode": "conv", "N": N, "P": rng.choice([3, 5, 7]), "seed": rng.randint(0, 999), "params": p})
    for shp in ([(3, 5), (5, 3)] if quick else [(3, 5), (5, 3), (1, 3), (3, 1), (5, 7), (7, 3)]):
        N = rng.choice([12, 13, 16])
        cases.append({"mode": "point_ns", "N": N, "P": shp[0], "shape": list(shp), "seed": rng.randint(0, 999), "xc": float(rng.randint(5, N - 6)), "yc": float(rng.randint(5, N - 6)),
                      "flux": rng.choice([1.0, 7.5])})
    for N in ([3, 4] if quick else [2, 3, 4, 5, 6]):
        a = [[float(formlib.dy(rng, -4, 4, 3)) for _ in range(N)] for _ in range(N)]
        b = [[float(formlib.dy(rng, -4, 4, 3)) for _ in range(N)] for _ in range(N)]
        cases.append({"mode": "rfft2", "N": N, "P": 0, "a": a, "b": b, "freqs": [[rng.randrange(N), rng.randrange(N // 2 + 1)] for _ in range(2)],
                      "pixels": [[rng.randrange(N), rng.randrange(N)] for _ in range(2)]})
    ck.log("implementation: %d cases (ramp / point / conv / rfft2)" % len(cases))
    import concurrent.futures as cf
    nsh = min(6, vlib.NCPU)
    shards = [cases[i::nsh] for i in range(nsh)]
    with cf.ThreadPoolExecutor(nsh) as ex:
        outs = list(ex.map(lambda s: ck.run_impl("impl_c03.py", s, timeout=3000), shards))
    res = [None] * len(cases)
    for kk, o in enumerate(outs):
        for j, r in enumerate(o):
            res[kk + j * nsh] = r
    goals, goals2, oracle_bad = [], [], []
    worst = {}
    for ci, (c, r) in enumerate(zip(cases, res)):
        ck.bump("mode", c["mode"]); ck.bump("P", c["P"])
        ck.count(json.dumps(c), nontrivial=True)
        if r["oracle"]:
            oracle_bad.append((c, r))
        for k, v in r.get("dev", {}).items():
            worst[k] = max(worst.get(k, 0), v)
        if c["mode"] == "ramp":
            P = c["P"]
            for (ky, kx, reh, imh, fxh, fyh) in r["points"]:
                goals.append((ci, "ramp:P=%d" % P, "Goal Rabs (cos (ramp_x_phase %d %s + ramp_y_phase %d %s) - %s) <= 1 / 100000 /\\ Rabs (sin (ramp_x_phase %d %s + ramp_y_phase %d %s) - %s) <= 1 / 100000.\n"
                                                      "Proof. unfold ramp_x_phase, ramp_y_phase. split; interval with (i_prec 60). Qed."
                              % (P, q(fxh), P, q(fyh), q(reh), P, q(fxh), P, q(fyh), q(imh))))
        if c["mode"] == "rfft2":
            N = c["N"]
            ta = "[" + "; ".join("[" + "; ".join(q(float(v).hex()) for v in row) + "]" for row in c["a"]) + "]"
            tb = "[" + "; ".join("[" + "; ".join(q(float(v).hex()) for v in row) + "]" for row in c["b"]) + "]"
            for (ky, kx, reh, imh) in r["freqs"]:
                goals2.append((ci, "rfft2:N=%d" % N, "Goal Rabs (Re (dft2 %d (rtab %s) %d %d) - %s) <= 1 / 1000 /\\ Rabs (Im (dft2 %d (rtab %s) %d %d) - %s) <= 1 / 1000.\n"
                                                      "Proof. split; d2_eval; interval with (i_prec 60). Qed." % (N, ta, ky, kx, q(reh), N, ta, ky, kx, q(imh))))
            for (rr, cc, h) in r["pixels"]:
                goals2.append((ci, "fftconv:N=%d" % N, "Goal Rabs (Re (circ_conv2 %d (rtab %s) (rtab %s) %d %d) - %s) <= 1 / 1000.\nProof. d2_eval; interval with (i_prec 60). Qed."
                               % (N, ta, tb, rr, cc, q(h))))
    ck.extra["worst_deviation_fraction_of_peak"] = worst
    ck.rule = ("ramp: N=8..16, P=1..7 odd and even, random frequencies; point: asymmetric off-centre-peaked stamps P=1..5 on N=8..16 frames, integer and fractional positions inside the frame, non-square odd stamps, "
               "three renderers; conv: sersic sources vs circular spatial convolution of the renderer's own intrinsic image, unit PSF")
    ok, detail, failing = True, "", []
    if any(o["name"].startswith("translate:") and not o["ok"] for o in ck.obligations):
        ok, detail = False, "model could not be regenerated"
    else:
        with vlib.Lock():
            okm, _ = vlib.coq_make(["Gen/Ramps.vo"])
        hdr = "From Coq Require Import Reals.\nFrom Interval Require Import Tactic.\nFrom PS Require Import Base.RBase Gen.Ramps.\nOpen Scope R_scope.\n"
        old = losslib.HDR
        losslib.HDR = hdr
        try:
            failing = losslib.run_goals(ck, goals, "c03", shard=10)
        finally:
            losslib.HDR = old
        with vlib.Lock():
            vlib.coq_make(["Base/Dft2.vo"])
        losslib.HDR = ("From Coq Require Import Reals List Lia.\nFrom Coquelicot Require Import Coquelicot.\nFrom Interval Require Import Tactic.\n"
                       "From PS Require Import Base.RBase Base.Dft Base.Dft2.\nImport ListNotations.\nOpen Scope R_scope.\n"
                       "Definition rtab (t : list (list R)) (y x : nat) : C := RtoC (nth x (nth y t []) 0).\n"
                       "Ltac d2_eval :=\n  unfold dft2, dft, circ_conv2, wN;\n  cbn [csum];\n"
                       "  repeat match goal with |- context [Nat.modulo ?a ?b] => let v := eval vm_compute in (Nat.modulo a b) in change (Nat.modulo a b) with v end;\n"
                       "  rewrite ?Cpow_cis; unfold rtab; cbn [nth];\n"
                       "  unfold cis, Cmult, Cplus, RtoC, Re, Im; cbn [fst snd Nat.mul Nat.add Nat.sub INR].\n")
        try:
            failing2 = losslib.run_goals(ck, goals2, "c03d", shard=4)
        finally:
            losslib.HDR = old
        failing = failing + failing2
        ck.extra["coq_goals"] = len(goals) + len(goals2)
        ck.cmds.append("coqc -Q coq PS coq/Cases/<run>/c03_NNN.v  (%d interval goals)" % len(goals))
        if failing:
            ok = False
            detail = "; ".join("%s: %s" % (f[1], f[2].replace("\n", " ")[:140]) for f in failing[:3])
    ck.oblige("correspondence:PSF_fft / rfft2(psf) of real renderers == exp(i (ramp_x_phase + ramp_y_phase)); jnp.fft.rfft2 == dft2 model; irfft2(rfft2 a * rfft2 b) == circ_conv2 model (interval)", "correspondence", ok, detail)
    ck.oblige("oracle:point sources == embedded stamps (2e-5), fractional centroids (0.02 px), extended sources == spatial convolution of the intrinsic image, unit PSF identity", "correspondence",
              not oracle_bad, json.dumps(oracle_bad[0][1]["oracle"][:2]) if oracle_bad else "")
    ck.samples += cases[:2] + [c for c in cases if c["mode"] == "point"][:3]
    ck.trusted += ["Coq 8.16.1 kernel; Coquelicot; Interval; Reals axioms + classic",
                   "translator unit Ramps (phase ramps, PSF_fft product, pixel point-source offsets and coordinate order)",
                   "hand models of jnp.fft.rfft2 (dft2) and jnp.fft.irfft2 (Base/Dft.v, Base/Dft2.v), tied to jnp.fft by the interval correspondence on random small arrays",
                   "NOT proved: the bilinear (order=1) resampling at fractional positions and the band-limited shift of the Fourier point source at fractional positions; the zero-padding of the "
                   "PSF stamp to the frame (rfft2(psf, s=shape)) is modelled as an array that is zero outside the stamp; all exercised by the implementation-side oracle",
                   "jax.scipy.ndimage.map_coordinates(order=1, mode='constant') returns the array entry at integer coordinates (modelled, exercised by the point-source oracle)"]
    ck.explanation = ("Proved: both ramps are exp(+2 pi i ((P-1)/2) f) with pi itself - the geometric-centre convention; for odd stamps this is exactly the root-of-unity phase w^(c k) of an integer "
                      "circular shift by c=(P-1)/2 (half-pixel phase for even stamps); the Fourier point source is flux times the conjugate root-of-unity phase of a delta at (column xc, row yc); the "
                      "pixel renderer reads psf[r-yc+a][c-xc+b] (rows to rows, columns to columns, centre entry on the source pixel); FFT convolution preserves the total up to sum(psf); for every N>=1 and all real N x N arrays a, b: the 2-D transform of a circular convolution is the "
                      "product of the transforms, irfft2 inverts the half-plane transform of a real image (Hermitian symmetry proved), hence irfft2(rfft2 a * rfft2 b) = a (*) b pixel by pixel; a unit "
                      "impulse at (py, px) translates the other array there, rows to rows and columns to columns.  Whole chain, with the ramps regenerated from the source (odd stamp 2c+1, zero-padded): "
                      "irfft2(rfft2(scene) * rfft2(psf) * ramp_y * ramp_x)[r, col] = sum_{y,x} scene[y,x] * psf[r-y+c][col-x+c] (circular), and a unit point on pixel (py, px) renders as "
                      "psf[r-py+c][col-px+c]: the stamp centred on its geometric centre entry; the negative-frequency half of fftfreq gives the same ramp values.")
    if ck.broken():
        if oracle_bad:
            c, r = oracle_bad[0]
            ck.violation({"what": "the PSF is not applied exactly as supplied", "violated": r["oracle"][:3], "case": c}, True)
        elif failing:
            ck.violation({"what": "PSF_fft phase of the real renderer differs from the verified ramps", "where": failing[0][1], "detail": failing[0][2][:300]}, False)


def replay(path):
    rep = json.load(open(path))
    ck = vlib.Check("C03", "quick", 0)
    r = ck.run_impl("impl_c03.py", [rep["case"]])[0]
    ck.cleanup()
    print(r)
    print("REPLAY:", "still failing" if r["oracle"] else "not failing")
    return 1 if r["oracle"] else 0

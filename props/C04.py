"""C04 - pixel, Fourier and hybrid renderers agree with each other and with the truth.

T: hybrid broadening formulas, component split, 1-D profile regenerated; Props/C04.v
re-proved (covariance sum, partition, scale covariance of the decomposition, knots).
K: what render_sersic_hybrid REALLY hands to the real-space / Fourier kernels
(captured in the harness) vs the generated sigma_obs / q_obs / split (interval).
Search: the property's bands against the independent reference renderer.
"""
import json
import random
from fractions import Fraction

import vlib
import gen
from props import losslib, formlib


def q(h):
    return formlib.q(h)


def run(ck):
    rng = random.Random(ck.seed * 7919 + 4)
    quick = ck.tier == "quick"
    rep = gen.generate_all(only=["Formulas", "Amps"])
    for u, (ok, msg) in rep.items():
        ck.oblige("translate:" + u, "translate", ok, msg)
    ck.guard()
    ck.prove("Props/C04.v")
    # --- K: captured arguments of the hybrid renderer
    hc = []
    for _ in range(3 if quick else 20):
        ns = rng.choice([15, 15, 9])
        hc.append({"fn": "hybrid_obs", "args": {"psf_sum": rng.choice([1.0, 0.5, 2.0]), "m": rng.randint(0, ns), "n_sigma": ns, "flux": formlib.dy(rng, 1, 50),
                                                "r_eff": formlib.dy(rng, 1, 6), "n": formlib.dy(rng, 0.8, 6), "ellip": formlib.dy(rng, 0, 0.85)}})
    ck.log("implementation: capturing the component arguments of %d hybrid renderings (float64)" % len(hc))
    hres = ck.run_impl("impl_formulas.py", hc)
    goals = []
    struct_bad = []
    for i, (c, r) in enumerate(zip(hc, hres)):
        a = c["args"]
        ck.count(json.dumps(a), nontrivial=a["m"] > 0)
        ns, m = a["n_sigma"], a["m"]
        if r["w_real"] != list(range(ns - m, ns)) or r["w_fourier"] != list(range(ns - m)):
            struct_bad.append((c, r["w_real"], r["w_fourier"]))
        nl = lambda xs: "[" + "; ".join("%d%%nat" % v for v in xs) + "]" if xs else "(@nil nat)"
        goals.append((i, "split", "Goal (w_fourier %d%%nat %d%%nat, w_real %d%%nat %d%%nat) = (%s, %s).\nProof. vm_compute. reflexivity. Qed."
                      % (ns, m, ns, m, nl(r["w_fourier"]), nl(r["w_real"]))))
        s = r["sig_psf"]
        for j, k in enumerate(r["w_real"][:3]):
            amp_in, sig_in = r["amps"][k], r["sigmas"][k]
            amp_o, sig_o, q_o = r["pixel"][0][j], r["pixel"][1][j], r["pixel"][2][j]
            tol = "1 / 1000000000"
            goals.append((i, "obs:%d" % k,
                          "Goal Rabs (sigma_obs %s %s - %s) <= %s * (1 + Rabs %s) /\\ Rabs (q_obs %s %s %s - %s) <= %s /\\ Rabs (%s * %s - %s) <= %s * (1 + Rabs %s).\n"
                          "Proof. unfold sigma_obs, q_obs. repeat split; interval with (i_prec 80). Qed."
                          % (q(sig_in), q(s), q(sig_o), tol, q(sig_o), q(a["ellip"]), q(sig_in), q(s), q(q_o), tol, q(amp_in), q(a["psf_sum"]), q(amp_o), tol, q(amp_o))))
        if r["w_fourier"]:
            qf = r["fourier"][2]
            goals.append((i, "q", "Goal Rabs (hybrid_q %s - %s) <= 1/1000000000.\nProof. unfold hybrid_q. interval. Qed." % (q(a["ellip"]), q(qf))))
    ok, detail, failing = True, "", []
    if any(o["name"].startswith("translate:") and not o["ok"] for o in ck.obligations):
        ok, detail = False, "model could not be regenerated"
    else:
        with vlib.Lock():
            okm, _ = vlib.coq_make(["Gen/Amps.vo"])
        hdr = "From Coq Require Import Reals List.\nFrom Interval Require Import Tactic.\nFrom PS Require Import Base.RBase Gen.Amps.\nImport ListNotations.\nOpen Scope R_scope.\n"
        old = losslib.HDR
        losslib.HDR = hdr
        try:
            failing = losslib.run_goals(ck, goals, "c04", shard=20)
        finally:
            losslib.HDR = old
        ck.extra["coq_goals"] = len(goals)
        ck.cmds.append("coqc -Q coq PS coq/Cases/<run>/c04_NNN.v  (%d interval / vm_compute goals)" % len(goals))
        if failing:
            ok = False
            detail = "; ".join("%s: %s" % (f[1], f[2].replace("\n", " ")[:140]) for f in failing[:3])
    ck.oblige("correspondence:arguments render_sersic_hybrid passes to the real-space / Fourier kernels == generated sigma_obs, q_obs, amps*sum(psf), split (interval)", "correspondence", ok, detail)
    # --- search oracle
    cases = [{"mode": "table"}]
    n = 4 if quick else 40
    for i in range(n):
        N = rng.choice([48, 64])
        p = {"xc": N / 2 + rng.uniform(-4, 4), "yc": N / 2 + rng.uniform(-4, 4), "flux": 100.0, "r_eff": rng.uniform(1.5 if i % 2 else 1.0, N / 12),
             "n": rng.uniform(0.8, 6) if i % 3 else rng.uniform(0.8, 2.5), "ellip": rng.uniform(0, 0.8), "theta": rng.uniform(0, 3.14)}
        cases.append({"mode": "agree", "N": N, "params": p, "psf": ["gauss", "moffat", "asym"][i % 3], "fwhm": rng.uniform(2.5, 4.5)})
    for i in range(1 if quick else 6):
        N = 64
        p = {"xc": N / 2 + rng.uniform(-2, 2), "yc": N / 2 + rng.uniform(-2, 2), "flux": 100.0, "r_eff": rng.uniform(1.0, 3.0), "n": rng.uniform(0.8, 4), "ellip": rng.uniform(0, 0.6),
             "theta": rng.uniform(0, 3.14)}
        cases.append({"mode": "agree", "N": N, "params": p, "psf": "gauss_even", "fwhm": rng.uniform(2.5, 3.5), "ms": [3, 5, 8]})
    ck.log("implementation: %d comparisons with the reference renderer" % len(cases))
    import concurrent.futures as cf
    nsh = min(6, vlib.NCPU)
    shards = [cases[i::nsh] for i in range(nsh)]
    with cf.ThreadPoolExecutor(nsh) as ex:
        outs = list(ex.map(lambda s: ck.run_impl("impl_c04.py", s, timeout=3000), shards))
    res = [None] * len(cases)
    for kk, o in enumerate(outs):
        for j, r in enumerate(o):
            res[kk + j * nsh] = r
    oracle_bad = [(c, r) for c, r in zip(cases, res) if r["oracle"]]
    worst = {}
    for c, r in zip(cases, res):
        ck.bump("oracle_mode", c["mode"] + (":" + c["psf"] if c["mode"] == "agree" else ""))
        ck.count(json.dumps(c), nontrivial=True)
        for k, v in r["stats"].items():
            vv = v if isinstance(v, list) else [v]
            worst[k] = [max(a, b) for a, b in zip(worst.get(k, [0] * len(vv)), vv)]
    ck.extra["worst_observed"] = worst
    ck.oblige("oracle:three renderers vs the independent float64 reference (bands of the property), hybrid vs Fourier, table vs direct decomposition", "correspondence",
              not oracle_bad and not struct_bad, json.dumps(oracle_bad[0][1]["oracle"][:2]) if oracle_bad else json.dumps(struct_bad[:1]))
    ck.rule = ("hybrid argument capture: n_sigma 9/15, every split size, PSF sums 0.5/1/2; oracle: sersic sources 0.8<=n<=6, 1<=r_eff<=N/12, ellip<=0.8, frames 48/64, Gaussian / Moffat / asymmetric PSFs "
               "FWHM 2.5-4.5 px")
    ck.trusted += ["Coq 8.16.1 kernel; Interval; Reals axioms", "translator units Formulas, Amps; harness-level capture of the arguments of render_gaussian_pixel / render_gaussian_fourier",
                   "NOT proved (numerical analysis of approximation error): every image-level band of the property - Gaussian-mixture error of the Shajib decomposition, PSF pixelisation, 12-point "
                   "quadrature; hybrid-vs-Fourier for a PIXELISED Gaussian PSF (the theorem is its continuum form); interpax's interior (non-knot) behaviour"]
    ck.explanation = ("Proved: sigma_obs^2 = sigma^2+s^2 and (q_obs sigma_obs)^2 = q^2 sigma^2+s^2, hence each real-space component of the hybrid renderer is the Gaussian of covariance "
                      "R diag(sigma^2,q^2 sigma^2) R^T + s^2 I (the continuous convolution of the Fourier component with a circular Gaussian PSF); the two index sets partition the components and "
                      "coincide with the Fourier renderer's for m=0; sersic1D(re x; flux, re) = flux/re^2 sersic1D(x; 1, 1) (a unit table is valid for all flux/radius); the cubic Hermite "
                      "interpolant returns the table rows at the knots.")
    if ck.broken():
        if oracle_bad:
            c, r = oracle_bad[0]
            ck.violation({"what": "renderers disagree beyond the documented approximation error", "violated": r["oracle"][:3], "case": c, "stats": r["stats"]}, True)
        elif struct_bad:
            ck.violation({"what": "hybrid split differs from arange(n_sigma-m, n_sigma)", "case": struct_bad[0][0], "w_real": struct_bad[0][1]}, True)
        elif failing:
            ck.violation({"what": "hybrid renderer passes other component parameters than the verified formulas", "case": hc[failing[0][0]], "where": failing[0][1]}, False)


def replay(path):
    rep = json.load(open(path))
    ck = vlib.Check("C04", "quick", 0)
    r = ck.run_impl("impl_c04.py", [rep["case"]])[0]
    ck.cleanup()
    print(r)
    print("REPLAY:", "still failing" if r["oracle"] else "not failing")
    return 1 if r["oracle"] else 0

"""C05 - posterior density is prior x likelihood of (rendered sources + sky).

T: build_model data flow, naming glue of the renderers, parameter tables, prior
helpers, sky and loss models are regenerated; Props/C05.v is re-proved.
K: numpyro traces of real FitSingle / FitMulti models: site names and kinds vs the
model's site list (vm_compute), per-pixel likelihood vs the regenerated loss model
evaluated at (fitter.data, fitter.rms, recorded model image) (interval), unit-scale
latent log-probs.  Search: independent re-rendering + closed-form sky, sum of sites.
"""
import json
import random
from fractions import Fraction

import vlib
import gen
from props import losslib

PROFILES = ["sersic", "doublesersic", "sersic_exp", "sersic_pointsource", "pointsource", "exp", "dev"]


def strl(xs):
    return "[" + "; ".join('"%s"' % x for x in xs) + "]" if xs else "(@nil string)"


def run(ck):
    rng = random.Random(ck.seed * 7919 + 5)
    quick = ck.tier == "quick"
    rep = gen.generate_all(only=["BuildModel", "RenderGlue", "GeneratePrior", "ProfileParams", "Losses", "Sky", "PriorHelpers"])
    for u, (ok, msg) in rep.items():
        ck.oblige("translate:" + u, "translate", ok, msg)
    ck.guard()
    ck.prove("Props/C05.v")
    cases = []
    n = 12 if quick else 150
    for i in range(n):
        fitter = "single" if i % 3 else "multi"
        types = [PROFILES[i % 7]] if fitter == "single" else [rng.choice(PROFILES) for _ in range(rng.randint(1, 4))]
        cases.append({"fitter": fitter, "types": types, "sky": ["none", "flat", "tilted-plane"][(i + i // 3) % 3], "loss": losslib.LOSSES[i % 10],
                      "renderer": rng.choice(["pixel", "fourier", "hybrid"]), "suffix": rng.choice(["", "_a", "_1", "_ps"]), "N": [6, 7, 8, 9][(i // 3) % 4],
                      "seed": rng.randint(0, 10**6), "mask": (rng.random() < 0.6) or ("sys" in losslib.LOSSES[i % 10])})
    ck.log("implementation: tracing %d real fitter models" % len(cases))
    import concurrent.futures as cf
    nsh = min(6, vlib.NCPU)
    shards = [cases[i::nsh] for i in range(nsh)]
    with cf.ThreadPoolExecutor(nsh) as ex:
        outs = list(ex.map(lambda s: ck.run_impl("impl_c05.py", s, timeout=2400), shards))
    res = [None] * len(cases)
    for k, o in enumerate(outs):
        for j, r in enumerate(o):
            res[k + j * nsh] = r
    goals, oracle_bad = [], []
    for ci, (c, r) in enumerate(zip(cases, res)):
        ck.bump("fitter", c["fitter"]); ck.bump("sky", c["sky"]); ck.bump("loss", c["loss"]); ck.bump("renderer", c["renderer"]); ck.bump("suffix", c["suffix"] or "(none)")
        ck.count(json.dumps(c), nontrivial=True)
        if r["oracle"]:
            oracle_bad.append((c, r))
        if r.get("failed"):
            continue
        sfx = c["suffix"]
        kinds = {"latent": "Latent", "deterministic": "Determ", "observed": "Observed"}
        obs_sites = "[" + "; ".join('("%s", %s)' % (n, kinds[k]) for n, k in r["sites"]) + "]"
        if c["fitter"] == "single":
            goals.append((ci, "sites", 'Goal site_set_eqb (single_fit_sites "%s" "%s" %s_model "%s") %s = true.\nProof. vm_compute. reflexivity. Qed.'
                          % (c["types"][0], c["sky"], c["loss"], sfx, obs_sites)))
        else:
            goals.append((ci, "sites", 'Goal site_set_eqb (multi_fit_sites %s "%s" %s_model "%s") %s = true.\nProof. vm_compute. reflexivity. Qed.'
                          % (strl(c["types"]), c["sky"], c["loss"], sfx, obs_sites)))
    # per-pixel likelihood through the fitter = regenerated loss model at (data, rms, recorded model image)
    live = [i for i, r in enumerate(res) if not r.get("failed")]
    pcs = [dict(cases[i], H=cases[i]["N"], W=cases[i]["N"]) for i in live]
    pres = [res[i] for i in live]
    goals += [(live[g[0]], g[1], g[2]) for g in losslib.logp_goals(pcs, pres, per_case=2 if quick else 4, rng=rng)]
    # unit-scale latents: Normal() base sites have log-prob -z^2/2 - ln(2 pi)/2, Uniform() base sites 0
    for ci, (c, r) in enumerate(zip(cases, res)):
        if r.get("failed"):
            continue
        for k, (zh, lph, cls) in list(r["latent_lp"].items())[:3]:
            if cls == "Normal":
                lp = Fraction(float.fromhex(lph))
                goals.append((ci, "base:" + k, "Goal Rabs (normal_lpdf %s 0 1 - %s) <= 1/1000.\nProof. unfold normal_lpdf. interval. Qed." % (losslib.q(zh), losslib.q(lp))))
    # independent float64 recomputation of the per-pixel likelihood from the documented formulas (shared with C07), at the fitter's own (data, rms) and the recorded model image
    from props.C07 import oracle_violations as _lik_oracle
    for i, b in zip(live, [None] * len(live)):
        pass
    lik_bad = _lik_oracle(pcs, pres)
    for b in lik_bad:
        oracle_bad.append((b["case"], {"oracle": ["likelihood of the fitted model at an unmasked pixel differs from the documented %s formula with sigma = rms over good pixels: numpyro %.6g vs %.6g"
                                                   % (b["loss"], b["observed_log_prob"], b["documented_log_prob"])]}))
    ck.rule = ("single/multi fitters x 7 profile types (mixed catalogues of 1-4 sources) x 3 sky types x 10 losses x 3 renderers x suffixes ('', _a, _1, _ps) x masks on 6x6..9x9 (even and odd) dyadic data, "
               "latent values drawn from the prior")
    ok, detail, failing = True, "", []
    if any(o["name"].startswith("translate:") and not o["ok"] for o in ck.obligations):
        ok, detail = False, "model could not be regenerated"
    else:
        with vlib.Lock():
            okm, _ = vlib.coq_make(["Proofs/PosteriorProofs.vo", "Proofs/LossProofs.vo"])
        if not okm:
            ok, detail = False, "Proofs/PosteriorProofs.v / LossProofs.v do not build"
        else:
            hdr = losslib.HDR + ("From PS Require Import Base.PyStr Gen.ProfileParams Gen.GeneratePrior Gen.Sky Gen.BuildModel Gen.RenderGlue Proofs.AutoPriorProofs Proofs.PosteriorProofs.\n"
                                 "Open Scope string_scope.\n"
                                 "Definition kind_eqb (a b : site_kind) : bool := match a, b with Latent, Latent | Determ, Determ | Observed, Observed => true | _, _ => false end.\n"
                                 "Definition site_mem (s : string * site_kind) (l : list (string * site_kind)) : bool := existsb (fun t => String.eqb (fst s) (fst t) && kind_eqb (snd s) (snd t)) l.\n"
                                 "Definition site_set_eqb (a b : list (string * site_kind)) : bool := forallb (fun s => site_mem s b) a && forallb (fun s => site_mem s a) b && Nat.eqb (List.length a) (List.length b).\n"
                                 "(* FitMulti: source j of type T_j contributes its table row under source_key p j sfx; the multi prior's sky parameters carry no suffix *)\n"
                                 "Fixpoint multi_params (j : nat) (types : list string) (sfx : string) : list string :=\n"
                                 "  match types with [] => [] | T :: ts => List.app (map (fun p => source_key p j sfx) (lookup T profile_params_rendering)) (multi_params (S j) ts sfx) end.\n"
                                 "Definition multi_fit_sites (types : list string) (sky : string) (L : loss_model) (sfx : string) : list (string * site_kind) :=\n"
                                 "  List.app (prior_sites (multi_params 0 types sfx) \"\") (List.app (prior_sites (lookup sky sky_params) \"\") ((model_site_prefix ++ sfx, Determ) :: loss_sites L sfx)).\n"
                                 "Open Scope R_scope.\n")
            old = losslib.HDR
            losslib.HDR = hdr
            try:
                failing = losslib.run_goals(ck, goals, "c05", shard=25)
            finally:
                losslib.HDR = old
            ck.extra["coq_goals"] = len(goals)
            ck.cmds.append("coqc -Q coq PS coq/Cases/<run>/c05_NNN.v  (%d vm_compute / interval goals)" % len(goals))
            if failing:
                ok = False
                detail = "; ".join("case %d %s: %s" % (f[0], f[1], f[2].replace("\n", " ")[:140]) for f in failing[:3])
    ck.oblige("correspondence:sites of the real model == model site list; per-pixel likelihood == loss model at (data, rms, recorded image); unit-scale latents", "correspondence", ok, detail)
    ck.oblige("oracle:recorded model image == render(exposed parameters) + closed-form sky; log_density == sum of sites; masked pixels excluded", "correspondence",
              not oracle_bad, json.dumps(oracle_bad[0][1]["oracle"][:2]) if oracle_bad else "")
    ck.samples += [{"case": c, "sites": [s[0] for s in r["sites"]][:12]} for c, r in list(zip(cases, res))[:3]]
    ck.trusted += ["Coq 8.16.1 kernel; Interval; Reals axioms",
                   "translator units BuildModel, RenderGlue, GeneratePrior, ProfileParams, Losses, Sky, PriorHelpers",
                   "numpyro semantics: log_density = sum of sample-site log-probs (checked numerically per case), TransformReparam naming <name>_base; the renderer is an abstract function of the exposed parameters in the theorems (its algebra is C08)",
                   "python str.removesuffix modelled by Base/PyStr.removesuffix"]
    ck.explanation = ("Proved: stripped(sfx, p++sfx) = p for every suffix; multi-source keys coincide with the prior's keys and are injective; latent sites = prior parameters + sky parameters + loss "
                      "nuisances (nothing else); joint log-density = priors + per-pixel loss term at render+sky with sigma=rms over good pixels; loss receives (obs, data, rms, mask); reparam "
                      "changes the density by a constant.")
    if ck.broken():
        if oracle_bad:
            c, r = oracle_bad[0]
            ck.violation({"what": "the model a fitter builds is not prior x likelihood(render + sky)", "violated": r["oracle"][:3], "case": c}, True)
        elif failing:
            ck.violation({"what": "real model differs from the verified model of its sites / likelihood", "case": cases[failing[0][0]], "where": str(failing[0][1]), "detail": failing[0][2][:300]}, True)


def replay(path):
    rep = json.load(open(path))
    ck = vlib.Check("C05", "quick", 0)
    try:
        r = ck.run_impl("impl_c05.py", [rep["case"]])[0]
        bad = bool(r["oracle"])
        print(r["oracle"], [s[0] for s in r["sites"]])
    except RuntimeError as ex:
        print(str(ex)[-600:])
        bad = True
    ck.cleanup()
    print("REPLAY:", "still failing" if bad else "not failing (oracle only; re-run ./check C05 for the model comparison)")
    return 1 if bad else 0

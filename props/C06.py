"""C06 - masked pixels carry no information; mask polarity is 'True = ignore'.

T: loss models (Gen/Losses.v: which reductions read images outside the masked
site), mask ingestion (Gen/InputChecks.v) and the loss call of build_model
(Gen/BuildModel.v) are regenerated; Props/C06.v is re-proved (generic
soundness theorem of the syntactic mask-safety criterion + its instance for
all ten losses + zero gradient at masked pixels).
K: numpyro traces of the REAL losses: masked flag of the observed site, exact
zeros of the per-pixel log-probability at masked pixels, site structure.
Search: the property's exact perturbation / gradient oracle on the implementation.
"""
import json
import random

import vlib
import gen
from props import losslib


def run(ck):
    rng = random.Random(ck.seed * 7919 + 6)
    quick = ck.tier == "quick"
    rep = gen.generate_all(only=["Losses", "InputChecks", "BuildModel"])
    for u, (ok, msg) in rep.items():
        ck.oblige("translate:" + u, "translate", ok, msg)
    ck.guard()
    ck.prove("Props/C06.v")
    cases = losslib.make_cases(rng, quick)
    # every mask pattern for every loss
    for loss in losslib.LOSSES:
        for mk in ("random", "allbutone"):
            cases.append({"loss": loss, "H": 3, "W": 4, "suffix": rng.choice(["", "_b"]), "seed": rng.randint(0, 10**6), "mask": mk,
                          "maskdtype": rng.choice(["bool", "int", "float"])})
    ck.log("implementation: %d loss evaluations (trace + log_density + gradients)" % len(cases))
    import concurrent.futures as cf
    nsh = min(4, vlib.NCPU)
    shards = [cases[i::nsh] for i in range(nsh)]
    with cf.ThreadPoolExecutor(nsh) as ex:
        outs = list(ex.map(lambda s: ck.run_impl("impl_loss.py", s), shards))
    res = [None] * len(cases)
    for k, o in enumerate(outs):
        for j, r in enumerate(o):
            res[k + j * nsh] = r
    oracle_bad = []
    for c, r in zip(cases, res):
        ck.bump("loss", c["loss"]); ck.bump("mask", c["mask"]); ck.bump("maskdtype", c["maskdtype"])
        nmasked = sum(1 for row in r["inputs"]["good"] for g in row if not g)
        ck.count(json.dumps(c), nontrivial=nmasked > 0)
        r["oracle"] = [m_ for m_ in r["oracle"] if not m_.startswith("Student-t scale")]     # (a C07 clause, reported there)
        if r["oracle"]:
            oracle_bad.append((c, r))
    ck.rule = ("ten losses x mask patterns (none, all-False, random, all-but-one masked) x bool/int/float masks on small dyadic images; the implementation-side oracle replaces "
               "masked data/rms/model pixels by huge/small values and checks exact equality of log_density and exact zeros of jax.grad; non-trivial = at least one masked pixel")
    ok, detail, failing = True, "", []
    if any(o["name"].startswith("translate:") and not o["ok"] for o in ck.obligations):
        ok, detail = False, "model could not be regenerated"
    else:
        with vlib.Lock():
            okm, _ = vlib.coq_make(["Proofs/LossProofs.vo"])
        if not okm:
            ok, detail = False, "Proofs/LossProofs.v does not build"
        else:
            goals = losslib.structure_goals(cases, res)
            goals = [g for g in goals if g[1] == "sites"]
            ck.extra["coq_goals"] = len(goals)
            ck.cmds.append("coqc -Q coq PS coq/Cases/<run>/c06_NNN.v  (%d vm_compute goals: site structure and masked flag)" % len(goals))
            failing = losslib.run_goals(ck, goals, "c06")
            if failing:
                ok = False
                detail = "; ".join("%s %s" % (cases[f[0]]["loss"], f[2].replace("\n", " ")[:120]) for f in failing[:3])
    ck.oblige("correspondence:observed/factor site of every real loss is masked exactly as the model says (lm_masked, site names)", "correspondence", ok, detail)
    zero_bad = [(c, r) for c, r in oracle_bad if any("non-zero log-probability" in x or "logical_not" in x or "no mask supplied" in x for x in r["oracle"])]
    ck.oblige("correspondence:per-pixel log-prob is exactly 0 at masked pixels; good = logical_not(user mask); no mask => all used", "correspondence",
              not zero_bad, json.dumps(zero_bad[0][1]["oracle"]) if zero_bad else "")
    ck.oblige("oracle:masked pixels carry no information (density unchanged when masked data / rms change), polarity True = ignore, on the real losses and fitters", "correspondence",
              not oracle_bad, json.dumps(oracle_bad[0][1]["oracle"][:2]) if oracle_bad else "")
    ck.samples += [{"case": c, "masked_pixels": sum(1 for row in r["inputs"]["good"] for g in row if not g), "oracle": r["oracle"]} for c, r in list(zip(cases, res))[:5]]
    ck.trusted += ["Coq 8.16.1 kernel; Coquelicot (is_derive) and Reals axioms",
                   "translator units Losses / InputChecks / BuildModel",
                   "numpyro semantics modelled: a site under handlers.mask(mask=good) contributes its log-prob only where good is True (Base/LossModel.v pixel_logdens); checked by exact zeros in the traces",
                   "multi-band per-band data flow is covered under C15"]
    ck.explanation = ("Proved: generic soundness of the syntactic criterion (observed site under the mask handler, no image reduction over all pixels) => images agreeing on good pixels give equal "
                      "log-density; instance for all ten regenerated losses; value at a masked pixel irrelevant and derivative w.r.t. data/rms/model there identically 0; polarity "
                      "good = not marked, all good when absent, the fitter passes that array to the loss; with no mask every pixel contributes; unmasked Gaussian pixels are sensitive.")
    if ck.broken():
        if oracle_bad:
            c, r = min(oracle_bad, key=lambda cr: cr[0]["H"] * cr[0]["W"])
            ck.violation({"what": "masked pixels influence the posterior (or unmasked ones do not)", "violated": r["oracle"], "case": c,
                          "good_pixels": r["inputs"]["good"]}, True)


def replay(path):
    rep = json.load(open(path))
    ck = vlib.Check("C06", "quick", 0)
    r = ck.run_impl("impl_loss.py", [rep["case"]])[0]
    ck.cleanup()
    print(r["oracle"])
    print("REPLAY:", "still failing" if r["oracle"] else "not failing")
    return 1 if r["oracle"] else 0

"""C07 - each loss function is the likelihood its documentation states.

T: the ten loss functions are regenerated as `loss_model`s (sites, nuisance
priors, per-pixel log term); Props/C07.v equates each term with the documented
formula.
K: per-pixel log-probabilities, site names/kinds/flags and nuisance-prior
parameters read from numpyro traces of the REAL functions are compared with the
generated models inside Coq (interval / vm_compute).
"""
import json
import random

import vlib
import gen
from props import losslib


def documented_logp(loss, d, s, m, lat, mean_good):
    """The documented likelihood, written from the property text in float64
    (the search oracle; independent of the Coq model and of the translator)."""
    import math

    def norm(x, loc, sc):
        return -0.5 * ((x - loc) / sc) ** 2 - math.log(sc) - 0.5 * math.log(2 * math.pi)

    def t5(x, loc, sc):
        z = (x - loc) / sc
        return math.lgamma(3.0) - math.lgamma(2.5) - 0.5 * math.log(5 * math.pi) - math.log(sc) - 3.0 * math.log1p(z * z / 5)

    def mix(x, f, loc, s1, s2):
        a, b = math.log1p(-f) + norm(x, loc, s1), (math.log(f) + norm(x, loc, s2)) if f > 0 else -math.inf
        mx = max(a, b)
        return mx + math.log(math.exp(a - mx) + math.exp(b - mx))
    g = lambda k: lat.get(k, 0.0)
    sys_ = g("sys_rms_base") * mean_good
    if loss == "gaussian_loss":
        return norm(d, m, s)
    if loss == "gaussian_loss_w_frac":
        return norm(d, m, (1 + g("frac_rms_increase")) * s)
    if loss == "gaussian_loss_w_sys":
        return norm(d, m, math.sqrt(s * s + sys_ ** 2))
    if loss == "cash_loss":
        return -(m - d * math.log(m))
    if loss == "pseudo_huber_loss":
        r = (d - m) / s
        return -(9.0 * (math.sqrt(1 + (r / 3.0) ** 2) - 1))
    if loss == "student_t_loss":
        return None       # scale constant undocumented: structural checks only (see Props/C07.v)
    if loss == "student_t_loss_free_sys":
        return None
    f = g("outlier_frac_base") * 0.05
    if loss == "gaussian_mixture":
        return mix(d, f, m, s, 5 * s)
    if loss == "gaussian_mixture_w_sys":
        s2 = math.sqrt(s * s + sys_ ** 2)
        return mix(d, f, m, s2, 5 * s2)
    if loss == "gaussian_mixture_w_frac":
        return mix(d, f, m, (1 + g("rms_frac")) * s, 5 * s)
    raise KeyError(loss)


def oracle_violations(cases, res):
    bad = []
    for c, r in zip(cases, res):
        inp = r["inputs"]
        for m_ in r.get("oracle", []):
            if m_.startswith("Student-t scale"):        # structural clause of the Student-t losses (measured on the implementation side)
                bad.append({"loss": c["loss"], "case": c, "message": m_, "scale_over_sigma_range": r.get("student_scale_ratio")})
        H, W = c["H"], c["W"]
        sfx = c["suffix"]
        lat = {(k[: len(k) - len(sfx)] if sfx else k): float.fromhex(v) for k, v in r["latents"].items()}
        good = inp["good"]
        gp = [(i, j) for i in range(H) for j in range(W) if good[i][j]]
        mean_good = sum(float.fromhex(inp["rms"][i][j]) for i, j in gp) / len(gp) if gp else 0.0
        for (i, j) in gp:
            d, s, m = (float.fromhex(inp[k][i][j]) for k in ("data", "rms", "mod"))
            if c["loss"] == "cash_loss" and m <= 0:
                continue        # the Cash statistic is documented for a positive model only (ln m)
            want = documented_logp(c["loss"], d, s, m, lat, mean_good)
            got = float.fromhex(r["logp"][i][j])
            if want is not None and abs(got - want) > 1e-4 + 1e-5 * abs(want) + 2e-6 * (abs(want) + 20):
                bad.append({"loss": c["loss"], "case": c, "pixel": [i, j], "data": d, "rms": s, "model": m, "latents": lat,
                            "observed_log_prob": got, "documented_log_prob": want})
                break
        if c["loss"].startswith("student_t"):
            # structure: symmetric in d-m is checked through the model; here: located at the model (maximum at d = m)
            pass
    return bad


def run(ck):
    rng = random.Random(ck.seed * 7919 + 7)
    quick = ck.tier == "quick"
    rep = gen.generate_all(only=["Losses", "InputChecks", "BuildModel"])
    for u, (ok, msg) in rep.items():
        ck.oblige("translate:" + u, "translate", ok, msg)
    ck.guard()
    ck.prove("Props/C07.v")
    cases = losslib.make_cases(rng, quick)
    ck.log("implementation: %d loss evaluations under numpyro handlers" % len(cases))
    res = ck.run_impl("impl_loss.py", cases)
    for c, r in zip(cases, res):
        ck.bump("loss", c["loss"]); ck.bump("mask", c["mask"]); ck.bump("suffix", c["suffix"] or "(none)")
        ck.count(json.dumps(c), nontrivial=True)
    ck.rule = ("each of the ten losses x mask patterns (none/random/all-but-one/all-False) x mask dtypes x suffixes on 2x2..4x5 dyadic images with nuisance "
               "values drawn from their priors; per case up to 4 good pixels as interval goals + site structure + nuisance-prior parameters")
    ok, detail, failing = True, "", []
    if any(o["name"].startswith("translate:") and not o["ok"] for o in ck.obligations):
        ok, detail = False, "model could not be regenerated"
    else:
        with vlib.Lock():
            okm, _ = vlib.coq_make(["Proofs/LossProofs.vo"])
        if not okm:
            # the model itself may still build
            with vlib.Lock():
                okm2, _ = vlib.coq_make(["Gen/Losses.vo"])
            ok, detail = False, "Proofs/LossProofs.v does not build" + ("" if okm2 else " (nor Gen/Losses.v)")
        else:
            goals = losslib.logp_goals(cases, res, per_case=3 if quick else 6, rng=rng) + losslib.structure_goals(cases, res)
            ck.extra["coq_goals"] = len(goals)
            ck.cmds.append("coqc -Q coq PS coq/Cases/<run>/c07_NNN.v  (%d interval / vm_compute goals)" % len(goals))
            failing = losslib.run_goals(ck, goals, "c07")
            if failing:
                ok = False
                detail = "; ".join("%s %s: %s" % (cases[f[0]]["loss"], f[1], f[2].replace("\n", " ")[:120]) for f in failing[:3])
    ck.oblige("correspondence:per-pixel log-prob, sites, nuisance priors of the real losses == generated loss models", "correspondence", ok, detail)
    ck.samples += [{"case": c, "sites": [s["name"] for s in r["sites"]], "logp[0][0]": float.fromhex(r["logp"][0][0])} for c, r in list(zip(cases, res))[:5]]
    ck.trusted += ["Coq 8.16.1 kernel; Interval; Reals axioms",
                   "translator unit Losses (symbolic execution of each loss: sample/deterministic/factor/handlers.mask/dist constructors; fail-closed)",
                   "Base/Dist.v log-density formulas of Normal, Student-t(5) (normaliser via Gamma(5/2)=3 sqrt(pi)/4), 2-component mixture as numpyro evaluates them - exercised numerically by the correspondence",
                   "truncated-normal nuisance priors: parameters and bounds compared, normaliser not modelled"]
    ck.explanation = ("Proved (definitional equalities over the regenerated terms): Gaussian; (1+f)-scaled Gaussian with f~TruncNormal[-1/2,2]; quadrature systematic term with "
                      "b~TruncNormal[0,inf) times the mean rms; Cash -(m - d ln m); pseudo-Huber -delta^2(sqrt(1+(r/delta)^2)-1), delta=3; Student-t(5) located at the model with "
                      "scale sqrt(3/2)*rms (symmetry, standardised form, exponent -3); three mixtures ln((1-f)N+fN_outlier), outlier 5x wider, f=b/20 in [0,1/4].")
    doc_bad = oracle_violations(cases, res)
    ck.oblige("oracle:per-pixel log-likelihood of the real losses == the documented closed forms (float64 recomputation)", "correspondence",
              not doc_bad, json.dumps({k: v for k, v in doc_bad[0].items() if k != "case"}, default=str)[:300] if doc_bad else "")
    if ck.broken():
        if doc_bad:
            b = doc_bad[0]
            ck.violation({"what": "per-pixel log-likelihood of the real loss differs from the documented formula", **b}, True)
        elif failing:
            ci, tag, msg = failing[0]
            c, r = cases[ci], res[ci]
            rep = {"what": "the real loss differs from the model that satisfies the documented formula", "loss": c["loss"], "where": str(tag), "case": c,
                   "observed_sites": r["sites"], "detail": msg}
            if isinstance(tag, tuple):
                i, j = tag
                rep["pixel"] = {"data": float.fromhex(r["inputs"]["data"][i][j]), "rms": float.fromhex(r["inputs"]["rms"][i][j]),
                                "model": float.fromhex(r["inputs"]["mod"][i][j]), "observed_log_prob": float.fromhex(r["logp"][i][j]),
                                "latents": {k: float.fromhex(v) for k, v in r["latents"].items()}}
            ck.violation(rep, True)


def replay(path):
    rep = json.load(open(path))
    ck = vlib.Check("C07", "quick", 0)
    r = ck.run_impl("impl_loss.py", [rep["case"]])
    bad = oracle_violations([rep["case"]], r)
    failing = []
    with vlib.Lock():
        okm, _ = vlib.coq_make(["Proofs/LossProofs.vo"])
    if okm:
        goals = losslib.logp_goals([rep["case"]], r, per_case=99) + losslib.structure_goals([rep["case"]], r)
        failing = losslib.run_goals(ck, goals, "c07r")
    ck.cleanup()
    print("documented-formula oracle:", bad[:1], "model goals failing:", failing[:2])
    print("REPLAY:", "still failing" if (bad or failing) else "not failing")
    return 1 if (bad or failing) else 0

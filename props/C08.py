"""C08 - rendering is linear in flux and additive over components and sources.

T: kernels (Gen/Formulas.v), amplitude scaling (Gen/Amps.v), composite wiring
and scene assembly (Gen/RenderGlue.v) are regenerated; Props/C08.v is re-proved.
K: translator validation - each generated kernel vs the JAX function it was read
from, at random float64 points, certified by interval arithmetic in Coq.
Search: the property's identities on the real renderers (5e-6 of the peak) and
jax.linear_transpose w.r.t. flux.
"""
import json
import random

import vlib
import gen
from props import formlib

PROFILES = ["sersic", "doublesersic", "sersic_exp", "sersic_pointsource", "pointsource", "exp", "dev"]
PP = {"sersic": ["xc", "yc", "flux", "r_eff", "n", "ellip", "theta"],
      "doublesersic": ["xc", "yc", "flux", "f_1", "r_eff_1", "n_1", "ellip_1", "r_eff_2", "n_2", "ellip_2", "theta"],
      "sersic_exp": ["xc", "yc", "flux", "f_1", "r_eff_1", "ellip_1", "r_eff_2", "n", "ellip_2", "theta"],
      "sersic_pointsource": ["xc", "yc", "flux", "f_ps", "r_eff", "n", "ellip", "theta"],
      "pointsource": ["xc", "yc", "flux"], "exp": ["xc", "yc", "flux", "r_eff", "ellip", "theta"], "dev": ["xc", "yc", "flux", "r_eff", "ellip", "theta"]}


def rand_params(rng, T, N):
    p = {}
    for k in PP[T]:
        if k in ("xc", "yc"):
            p[k] = N / 2 + rng.uniform(-3, 3)
        elif k == "flux":
            p[k] = rng.choice([rng.uniform(5, 100), -rng.uniform(5, 50)])
        elif k.startswith("r_eff"):
            p[k] = rng.uniform(1.0, N / 12 + 1)
        elif k == "n" or k.startswith("n_"):
            p[k] = rng.uniform(0.8, 5)
        elif k.startswith("ellip"):
            p[k] = rng.uniform(0, 0.8)
        elif k == "theta":
            p[k] = rng.uniform(0, 6.28)
        elif k.startswith("f_"):
            p[k] = rng.choice([0.0, 1.0, rng.uniform(0, 1), rng.uniform(0, 1)])
    return p


def run(ck):
    rng = random.Random(ck.seed * 7919 + 8)
    quick = ck.tier == "quick"
    rep = gen.generate_all(only=["Formulas", "RenderGlue", "Amps", "ProfileParams"])
    for u, (ok, msg) in rep.items():
        ck.oblige("translate:" + u, "translate", ok, msg)
    ck.guard()
    ck.prove("Props/C08.v")
    ok, detail, failing = True, "", []
    if any(o["name"].startswith("translate:") and not o["ok"] for o in ck.obligations):
        ok, detail = False, "model could not be regenerated"
    else:
        with vlib.Lock():
            vlib.coq_make(["Gen/Formulas.vo"])
        ok, detail, failing, pts, res = formlib.validate(ck, rng, 4 if quick else 40, "c08f")
        ck.samples += [{"formula": p["fn"], "args": p["args"], "value": r["value"]} for p, r in list(zip(pts, res))[:5]]
    ck.oblige("correspondence:generated kernels == the JAX functions they were extracted from (interval, 1e-9)", "correspondence", ok, detail)
    # the property's identities on the implementation
    cases = []
    n = 9 if quick else 120
    for i in range(n):
        N = rng.choice([32, 40])
        k = rng.randint(1, 5)
        srcs = [{"type": PROFILES[(i + j) % 7], "params": rand_params(rng, PROFILES[(i + j) % 7], N)} for j in range(k)]
        cases.append({"renderer": ["pixel", "fourier", "hybrid"][i % 3], "N": N, "sources": srcs, "scale": rng.choice([-2.5, 0.0, 3.0, 0.125]), "seed": i,
                      "suffix": rng.choice(["", "", "_a", "_1"])})
    ck.log("implementation: %d catalogues on the real renderers" % len(cases))
    import concurrent.futures as cf
    nsh = min(6, vlib.NCPU)
    shards = [cases[i::nsh] for i in range(nsh)]
    with cf.ThreadPoolExecutor(nsh) as ex:
        outs = list(ex.map(lambda s: ck.run_impl("impl_c08.py", s, timeout=2400), shards))
    resi = [None] * len(cases)
    for kk, o in enumerate(outs):
        for j, r in enumerate(o):
            resi[kk + j * nsh] = r
    oracle_bad = [(c, r) for c, r in zip(cases, resi) if r["oracle"]]
    for c in cases:
        ck.bump("renderer", c["renderer"]); ck.bump("n_sources", len(c["sources"]))
        for s in c["sources"]:
            ck.bump("profile", s["type"])
        ck.count(json.dumps(c), nontrivial=True)
    ck.oblige("oracle:flux scaling / zero flux / composites / exp,dev / scene additivity / linear_transpose on the real renderers (5e-6 of peak)", "correspondence",
              not oracle_bad, json.dumps(oracle_bad[0][1]["oracle"][:2]) if oracle_bad else "")
    ck.rule = ("translator validation: 5 kernels x random float64 points; oracle: catalogues of 1-5 mixed sources (all 7 types), 3 renderers, negative/zero flux, fractions at 0 and 1, "
               "suffixes, reversed order")
    ck.trusted += ["Coq 8.16.1 kernel; Interval; Reals axioms", "translator units Formulas, RenderGlue, Amps (validated numerically each run for Formulas)",
                   "additivity of conv_fft / conv_img is a hypothesis of the abstract scene theorems; it is discharged for the circular-convolution model (C08_convolution_additive / _linear, "
                   "Proofs/ConvSymmetry.v) which C03 proves is what irfft2(rfft2 . * PSF_fft) computes; the tie of that model to jnp.fft is numerical (C01, C03)", "lgamma abstract (any function)"]
    ck.explanation = ("Proved for all real scale factors and parameters: each kernel (analytic Sersic, Fourier Gaussians, real-space Gaussians, Fourier point source, interpolated amplitudes, 1-D profile) "
                      "is linear in flux/amplitude; composite profiles are exactly two components with fractions f and 1-f at the same centre and angle; exp/dev are Sersic n=1/4; for any image "
                      "algebra with additive convolution operators the scene equals the sum of its individually rendered sources and a composite the sum of its components; circular convolution with the PSF is additive and homogeneous in "
                      "the scene for every frame size.")
    if ck.broken():
        if oracle_bad:
            c, r = oracle_bad[0]
            ck.violation({"what": "rendering is not linear / additive", "violated": r["oracle"][:3], "case": c}, True)
        elif failing:
            p = pts[failing[0][0]]
            ck.violation({"what": "generated kernel differs from the JAX function (translator or primitive map)", "point": p, "detail": failing[0][2][:300]}, False)


def replay(path):
    rep = json.load(open(path))
    ck = vlib.Check("C08", "quick", 0)
    r = ck.run_impl("impl_c08.py", [rep["case"]])[0]
    ck.cleanup()
    print(r["oracle"])
    print("REPLAY:", "still failing" if r["oracle"] else "not failing")
    return 1 if r["oracle"] else 0

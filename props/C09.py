"""C09 - rendering respects the symmetries of the model.

T: the three evaluation kernels are regenerated (Gen/Formulas.v); Props/C09.v is
re-proved (pointwise laws for theta+pi, ellip=0, transpose, mirror, translation,
angles modulo pi).
K: translator validation of the kernels against the JAX functions (interval).
Search: pairs of real renderings for transformed inputs, tolerances of the property.
"""
import json
import random

import vlib
import gen
from props import formlib
from props.C08 import rand_params, PROFILES


def run(ck):
    rng = random.Random(ck.seed * 7919 + 9)
    quick = ck.tier == "quick"
    rep = gen.generate_all(only=["Formulas"])
    for u, (ok, msg) in rep.items():
        ck.oblige("translate:" + u, "translate", ok, msg)
    ck.guard()
    ck.prove("Props/C09.v")
    ok, detail, failing, pts = True, "", [], []
    if any(o["name"].startswith("translate:") and not o["ok"] for o in ck.obligations):
        ok, detail = False, "model could not be regenerated"
    else:
        with vlib.Lock():
            vlib.coq_make(["Gen/Formulas.vo"])
        ok, detail, failing, pts, res = formlib.validate(ck, rng, 3 if quick else 30, "c09f")
        ck.samples += [{"formula": p["fn"], "args": p["args"], "value": r["value"]} for p, r in list(zip(pts, res))[:4]]
    ck.oblige("correspondence:generated kernels == the JAX functions they were extracted from (interval, 1e-9)", "correspondence", ok, detail)
    cases = []
    n = 6 if quick else 60
    for i in range(n):
        N = rng.choice([48, 56]) if i % 2 else rng.choice([42, 46, 50])   # both residues of N mod 4 (the box midpoint arithmetic differs)
        T = [t for t in PROFILES if t != "pointsource"][i % 6]
        p = rand_params(rng, T, N)
        p["flux"] = abs(p["flux"])
        for k in p:
            if k.startswith("r_eff"):
                p[k] = rng.uniform(1.5, N / 12)
        cases.append({"renderer": ["fourier", "hybrid", "pixel"][i % 3], "N": N, "profile": T, "params": p, "psf_seed": rng.randint(0, 10**6),
                      "shift": [rng.randint(-3, 3), rng.randint(-3, 3)]})
    for i in range(1 if quick else 6):
        N = rng.choice([42, 48])
        T = ["sersic", "sersic_exp", "doublesersic", "exp"][i % 4]
        p = rand_params(rng, T, N)
        p["flux"] = abs(p["flux"])
        for k in p:
            if k.startswith("r_eff"):
                p[k] = rng.uniform(1.2, 3.0)
        cases.append({"renderer": "hybrid8", "N": N, "profile": T, "params": p, "psf_seed": rng.randint(0, 10**6), "shift": [rng.randint(-3, 3), rng.randint(-3, 3)]})
    for i in range(1 if quick else 3):
        N = rng.choice([42, 48])
        T = "sersic_pointsource"
        p = rand_params(rng, T, N)
        p["flux"] = abs(p["flux"])
        p["f_ps"] = rng.uniform(0.3, 0.7)
        p["r_eff"] = rng.uniform(1.5, N / 12)
        cases.append({"renderer": ["pixel", "fourier", "hybrid"][i % 3], "N": N, "profile": T, "params": p, "psf_seed": rng.randint(0, 10**6), "P": 24,
                      "shift": [rng.randint(-3, 3), rng.randint(-3, 3)]})
    ck.log("implementation: %d transformed-input rendering pairs" % len(cases))
    import concurrent.futures as cf
    nsh = min(6, vlib.NCPU)
    shards = [cases[i::nsh] for i in range(nsh)]
    with cf.ThreadPoolExecutor(nsh) as ex:
        outs = list(ex.map(lambda s: ck.run_impl("impl_c09.py", s, timeout=2400), shards))
    resi = [None] * len(cases)
    for kk, o in enumerate(outs):
        for j, r in enumerate(o):
            resi[kk + j * nsh] = r
    oracle_bad = [(c, r) for c, r in zip(cases, resi) if r["oracle"]]
    worst = {}
    for c, r in zip(cases, resi):
        ck.bump("renderer", c["renderer"]); ck.bump("profile", c["profile"])
        ck.count(json.dumps(c), nontrivial=True)
        for k, v in r["maxdev"].items():
            worst[k] = max(worst.get(k, 0), v)
    ck.extra["worst_deviation_fraction_of_peak"] = worst
    ck.oblige("oracle:theta+pi / ellip=0 / transpose / mirror / integer translation on the real renderers", "correspondence",
              not oracle_bad, json.dumps(oracle_bad[0][1]["oracle"][:2]) if oracle_bad else "")
    ck.rule = "translator validation at random float64 points; oracle: even frames 42/46/50 (N mod 4 = 2) and 48/56 (N mod 4 = 0), six extended/composite profile types, three renderers, asymmetric well-sampled PSFs (FWHM 4 px)"
    ck.trusted += ["Coq 8.16.1 kernel; Interval; Reals axioms", "translator unit Formulas (validated numerically each run)",
                   "lifting of the pointwise laws to images: proved for the convolution step under whole-pixel translation and transposition (circular convolution, Proofs/ConvSymmetry.v; C03 proves "
                   "that the FFT product computes it); and under the mirror X -> N-1-X with the stamp mirrored about its own centre column (Proofs/ConvChain.v, odd stamps, centred form of the convolution); NOT proved for "
                   "the Nyquist remainder of the band-limited Fourier kernels at even N: covered only by the implementation-side oracle"]
    ck.explanation = ("Proved pointwise for all parameters, for the analytic Sersic kernel, the real-space Gaussians and the Fourier Gaussians: theta+pi invariance; independence of theta at ellip=0 (q=1); "
                      "transpose (swap axes and centre, theta->pi/2-theta); mirror (X->N-1-X, xc->N-1-xc, theta->-theta; in Fourier space FX->-FX); translation (real-space kernels move, Fourier "
                      "components pick up exp(-2 pi i (FX da + FY db))); theta+k*pi for every k.  Image level: for every N and all arrays, circular convolution with the PSF commutes with "
                      "whole-pixel translations of the scene, with transposition of scene and PSF, and with the mirror of scene and (odd) PSF stamp.")
    if ck.broken():
        if oracle_bad:
            c, r = oracle_bad[0]
            ck.violation({"what": "a symmetry of the model is broken by the renderer", "violated": r["oracle"][:3], "case": c}, True)
        elif failing:
            ck.violation({"what": "generated kernel differs from the JAX function", "point": pts[failing[0][0]], "detail": failing[0][2][:300]}, False)


def replay(path):
    rep = json.load(open(path))
    ck = vlib.Check("C09", "quick", 0)
    r = ck.run_impl("impl_c09.py", [rep["case"]])[0]
    ck.cleanup()
    print(r)
    print("REPLAY:", "still failing" if r["oracle"] else "not failing")
    return 1 if r["oracle"] else 0

"""C10 - model and gradients are finite everywhere in the prior support.

T: the kernels are regenerated as DEEP expression terms (Gen/DeepFormulas.v); Props/C10.v
re-proves AD-safety on the prior box for the analytic Sersic kernel (all centres, including
centres on a sample point), the Fourier kernels, and the hybrid real-space components /
broadening / logspace; deep = shallow by reflexivity.
K: translator validation of the shallow kernels against the JAX functions (interval).
Search: jit(value_and_grad) on the lattice of the property (eager and jit, float32).
"""
import json
import math
import random

import vlib
import gen
from props import formlib
from props.C08 import PP


def lattice_params(rng, T, N):
    cen = rng.choice([float(N // 2), float(N // 2) + 0.5, float(rng.randint(0, N - 1)), rng.randint(0, N - 1) + 0.5, -20.0, N + 19.5, N / 2 + rng.uniform(-3, 3)])
    cen2 = rng.choice([float(N // 2), float(N // 2) + 0.5, float(rng.randint(0, N - 1)), -7.0, N / 2 + rng.uniform(-3, 3)])
    p = {}
    for k in PP[T]:
        if k == "xc":
            p[k] = cen
        elif k == "yc":
            p[k] = cen2
        elif k == "flux":
            p[k] = rng.choice([1e6, -1e6, 0.0, 10.0, -3.5])
        elif k.startswith("r_eff"):
            p[k] = rng.choice([0.5, 1000.0, rng.uniform(0.5, 30)])
        elif k == "n" or k.startswith("n_"):
            p[k] = rng.choice([0.65, 8.0, rng.uniform(0.65, 8)])
        elif k.startswith("ellip"):
            p[k] = rng.choice([0.0, 0.9, rng.uniform(0, 0.9)])
        elif k == "theta":
            p[k] = rng.choice([0.0, 2 * math.pi, rng.uniform(0, 2 * math.pi)])
        elif k.startswith("f_"):
            p[k] = rng.choice([0.0, 1.0, rng.uniform(0, 1)])
    return p


def run(ck):
    rng = random.Random(ck.seed * 7919 + 10)
    quick = ck.tier == "quick"
    rep = gen.generate_all(only=["Formulas", "DeepFormulas", "Amps"])
    for u, (ok, msg) in rep.items():
        ck.oblige("translate:" + u, "translate", ok, msg)
    ck.guard()
    ck.prove("Props/C10.v")
    ok, detail, failing, pts = True, "", [], []
    if any(o["name"].startswith("translate:") and not o["ok"] for o in ck.obligations):
        ok, detail = False, "model could not be regenerated"
    else:
        with vlib.Lock():
            vlib.coq_make(["Gen/Formulas.vo"])
        ok, detail, failing, pts, res = formlib.validate(ck, rng, 3 if quick else 30, "c10f")
    ck.oblige("correspondence:generated kernels == the JAX functions they were extracted from (interval, 1e-9)", "correspondence", ok, detail)
    cases = []
    profiles = list(PP)
    n = 60 if quick else 900
    for i in range(n):
        N = 32
        T = profiles[i % 7]
        cases.append({"renderer": ["pixel", "fourier", "hybrid"][i % 3], "N": N, "profile": T, "params": lattice_params(rng, T, N), "jit": i % 2 == 0})
    # the historical failure: integer centre on the pixel renderer, inside and outside the oversampled box
    for (xc, yc) in ((16.0, 16.0), (10.0, 10.0), (16.5, 16.0)):
        cases.append({"renderer": "pixel", "N": 32, "profile": "sersic", "params": {"xc": xc, "yc": yc, "flux": 10.0, "r_eff": 3.0, "n": 2.5, "ellip": 0.3, "theta": 0.4}, "jit": True})
    ck.log("implementation: %d value_and_grad evaluations on the lattice" % len(cases))
    import concurrent.futures as cf
    nsh = min(6, vlib.NCPU)
    shards = [cases[i::nsh] for i in range(nsh)]
    with cf.ThreadPoolExecutor(nsh) as ex:
        outs = list(ex.map(lambda s: ck.run_impl("impl_c10.py", s, timeout=3000), shards))
    res = [None] * len(cases)
    for kk, o in enumerate(outs):
        for j, r in enumerate(o):
            res[kk + j * nsh] = r
    oracle_bad = [(c, r) for c, r in zip(cases, res) if r["oracle"]]
    for c in cases:
        ck.bump("renderer", c["renderer"]); ck.bump("profile", c["profile"]); ck.bump("jit", c["jit"])
        integer_centre = float(c["params"]["xc"]).is_integer() and float(c["params"]["yc"]).is_integer()
        ck.bump("centre_on_lattice", integer_centre)
        ck.count(json.dumps(c), nontrivial=True)
    ck.oblige("oracle:finite value and reverse-mode gradient on the lattice (integer / half-integer / outside centres, support edges), eager and jit", "correspondence",
              not oracle_bad, json.dumps([oracle_bad[0][0]["renderer"], oracle_bad[0][0]["params"], oracle_bad[0][1]["oracle"]]) if oracle_bad else "")
    ck.rule = ("lattice of the property: centres on exact integers, half-integers, up to 20 px outside; n in {0.65, 8, random}, r_eff in {0.5, 1000, random}, ellip in {0, 0.9, random}, "
               "theta in {0, 2pi, random}, flux in {+-1e6, 0, ...}, fractions in {0, 1, random}; 7 profile types x 3 renderers x eager/jit, float32")
    ck.trusted += ["Coq 8.16.1 kernel; Interval; Reals axioms", "translator units Formulas / DeepFormulas (two printers of the same extraction; eval deep = shallow proved by reflexivity for the Sersic kernel)",
                   "MODELLED: ad_safe => finite reverse-mode gradient (semantics of JAX AD incl. the zero-cotangent-times-infinite-partial rule for jnp.where) - tied only by the lattice oracle",
                   "NOT modelled: float32 rounding / overflow of values (e.g. exp arguments), gammaln and interpax internals, the FFT"]
    ck.explanation = ("Proved on the prior support (r_eff>=1/2, 0<=ellip<=9/10, n>=13/20; any centre, angle, flux, sample point): every primitive of the analytic Sersic kernel - sqrt and fractional "
                      "power included, in BOTH branches of each jnp.where - is evaluated strictly inside its differentiability domain, also when the centre coincides with a sample point; the Fourier "
                      "kernels have no restricted primitive; the hybrid real-space components, the PSF broadening (any s_psf>=0) and the log-spaced widths are safe for sigma>0, q>0.")
    if ck.broken():
        if oracle_bad:
            c, r = oracle_bad[0]
            ck.violation({"what": "non-finite model value or gradient inside the prior support", "violated": r["oracle"], "case": c}, True)
        elif failing:
            ck.violation({"what": "generated kernel differs from the JAX function", "point": pts[failing[0][0]], "detail": failing[0][2][:300]}, False)


def replay(path):
    rep = json.load(open(path))
    ck = vlib.Check("C10", "quick", 0)
    r = ck.run_impl("impl_c10.py", [rep["case"]])[0]
    ck.cleanup()
    print(r)
    print("REPLAY:", "still failing" if r["oracle"] else "not failing")
    return 1 if r["oracle"] else 0

"""C11 - prior-setting helpers install exactly the stated distribution.

T: the three helpers are regenerated as (base distribution, affine loc, affine
scale); Props/C11.v proves the textbook laws and the constant Jacobian.
K: log_prob of the real prior objects at float32 points vs the generated helper
(interval goals; truncated: normaliser-free differences + -inf outside), affine
parameters, storage key, reparam entry, Jacobian constant.
"""
import json
import math
import random
from fractions import Fraction

import vlib
import gen


def q(h):
    fr = Fraction(float.fromhex(h)) if isinstance(h, str) else Fraction(h)
    return "(%d / %d)" % (fr.numerator, fr.denominator) if fr.numerator >= 0 else "((%d) / %d)" % (fr.numerator, fr.denominator)


def dy(rng, lo, hi, bits=5):
    return rng.randint(math.ceil(lo * 2 ** bits), math.floor(hi * 2 ** bits)) / 2 ** bits


def make_cases(rng, quick):
    cases = []
    n = 6 if quick else 60
    for _ in range(n):
        scale = rng.choice([2 ** k for k in range(-6, 10)]) * rng.choice([1, 1.5, 1.25])
        loc = scale * dy(rng, -100, 100)
        sfx = rng.choice(["", "_a", "_0", "_Band_1"])
        cases.append({"kind": "gaussian", "loc": loc, "scale": scale, "low": None, "high": None, "suffix": sfx, "seed": rng.randint(0, 10**6)})
        lo = dy(rng, -50, 50)
        cases.append({"kind": "uniform", "loc": None, "scale": None, "low": lo, "high": lo + dy(rng, 0.25, 40), "suffix": sfx, "seed": rng.randint(0, 10**6)})
        # truncation windows: 6 sigma below .. 12 sigma above, width >= 0.2 sigma, one- and two-sided
        a = dy(rng, -6, 11)
        b = a + dy(rng, 0.25, 6)
        mode = rng.choice(["both", "both", "low", "high"])
        cases.append({"kind": "truncated", "loc": loc, "scale": scale, "low": None if mode == "high" else loc + a * scale,
                      "high": None if mode == "low" else loc + min(b, 12) * scale, "suffix": sfx, "seed": rng.randint(0, 10**6)})
    cases.append({"kind": "gaussian", "loc": 0.25, "scale": 0.5, "low": None, "high": None, "suffix": "_s", "seed": 1, "sky": True})
    cases.append({"kind": "gaussian", "loc": 60.0, "scale": 1.0, "low": None, "high": None, "suffix": "", "seed": 2, "sky": True})
    # truncation bounds that are exactly zero (a falsy value is still a bound)
    cases.append({"kind": "truncated", "loc": 1.0, "scale": 2.0, "low": 0.0, "high": None, "suffix": "", "seed": 7})
    cases.append({"kind": "truncated", "loc": -1.0, "scale": 1.0, "low": None, "high": 0.0, "suffix": "_a", "seed": 8})
    cases.append({"kind": "truncated", "loc": 0.5, "scale": 1.5, "low": 0.0, "high": 3.0, "suffix": "", "seed": 9})
    # parameter names that END in the prior's suffix (two-component profiles in a multi-source / multi-band model): the site is still name + suffix
    cases.append({"kind": "gaussian", "name": "r_eff_1", "loc": 3.0, "scale": 0.5, "low": None, "high": None, "suffix": "_1", "seed": 4})
    cases.append({"kind": "uniform", "name": "f_ps", "loc": None, "scale": None, "low": 0.0, "high": 1.0, "suffix": "_ps", "seed": 5})
    cases.append({"kind": "truncated", "name": "n_2", "loc": 2.0, "scale": 1.0, "low": 0.65, "high": 8.0, "suffix": "_2", "seed": 6})
    cases.append({"kind": "gaussian", "loc": -3.0, "scale": 0.046875, "low": None, "high": None, "suffix": "_b", "seed": 3, "sky": True})
    return cases


def helper_term(c):
    if c["kind"] == "gaussian":
        return "(gaussian_helper %s %s)" % (q(c["loc"]), q(c["scale"]))
    if c["kind"] == "uniform":
        return "(uniform_helper %s %s)" % (q(c["low"]), q(c["high"]))
    o = lambda v: "None" if v is None else "(Some %s)" % q(v)
    return "(truncnorm_helper %s %s %s %s)" % (q(c["loc"]), q(c["scale"]), o(c["low"]), o(c["high"]))


def run(ck):
    rng = random.Random(ck.seed * 7919 + 11)
    quick = ck.tier == "quick"
    rep = gen.generate_all(only=["PriorHelpers", "Sky"])
    for u, (ok, msg) in rep.items():
        ck.oblige("translate:" + u, "translate", ok, msg)
    ck.guard()
    ck.prove("Props/C11.v")
    cases = make_cases(rng, quick)
    ck.log("implementation: %d prior objects" % len(cases))
    kf = [f for f in vlib.load_known_findings()["findings"] if f.get("property") == "C11" and f.get("id") == "C11-truncnorm-right-tail"]
    for f in kf:
        cases.append(dict(f["witness"]))
    res = ck.run_impl("impl_c11.py", cases)
    goals = []
    oracle_bad, book_bad = [], []
    known_hits = []
    for ci, (c, r) in enumerate(zip(cases, res)):
        ck.bump("kind", c["kind"]); ck.bump("suffix", c["suffix"] or "(none)")
        ck.count(json.dumps(c), nontrivial=True)
        nanpts = [x for x, l in r["points"] if l == "nan"] + [v for v in r.get("jacobian_diffs", []) if "nan" in v or "inf" in v]
        if nanpts:
            r["oracle"].append("NaN / infinite log-density at %s" % nanpts[:2])
            r.pop("jacobian_diffs", None)
        # recorded finding C11-truncnorm-right-tail: a two-sided window lying entirely more than 4.5 sigma ABOVE loc is evaluated by
        # numpyro in float32 through the cancelling difference Phi(b) - Phi(a): log_prob is wrong by > 1e-2, then +inf
        in_kf = bool(kf) and c["kind"] == "truncated" and c.get("low") is not None and c.get("high") is not None \
            and (c["low"] - c["loc"]) / c["scale"] > kf[0]["applies"]["low_sigma_above"]
        if in_kf:
            sup = [m for m in r["oracle"] if m.startswith("log_prob(") and "outside the support" not in m or m.startswith("NaN / infinite") or m.startswith("non-finite")]
            if sup:
                known_hits.append((c, sup))
            r["oracle"] = [m for m in r["oracle"] if m not in sup]
        if r["oracle"]:
            oracle_bad.append((c, r))
        if in_kf:
            continue        # no model goals for the recorded failing class (its log-densities are not finite)
        want_key = ("sky_back" if c.get("sky") else c.get("name", "r_eff")) + c["suffix"]
        if r["key"] != want_key or not r["reparam"]:
            book_bad.append((c, r["key"], r["reparam"]))
        try:
            h = helper_term(c)
            # affine parameters as installed
            goals.append((ci, "affine", "Goal Rabs (snd (fst %s) - %s) <= %s /\\ Rabs (snd %s - %s) <= %s.\nProof. cbn [gaussian_helper uniform_helper truncnorm_helper fst snd]. split; interval. Qed."
                          % (h, q(r["affine"][0]), q(Fraction(1, 10**6) * (1 + abs(Fraction(float.fromhex(r["affine"][0]))))), h, q(r["affine"][1]),
                             q(Fraction(1, 10**6) * (1 + abs(Fraction(float.fromhex(r["affine"][1]))))))))
            fin = [(x, l) for x, l in r["points"] if l not in ("-inf", "nan")]
            for (x, l) in r["points"]:
                if l == "-inf":
                    # outside the support according to the model too
                    goals.append((ci, "outside:" + x, "Goal ~ pushed_support %s %s.\nProof. cbn [gaussian_helper uniform_helper truncnorm_helper pushed_support in_support]. intros H. "
                                                       "repeat match goal with H : _ /\\ _ |- _ => destruct H end; lra. Qed." % (h, q(x))))
            tol = lambda v: q(Fraction(2, 10**3) + abs(Fraction(float.fromhex(v))) / 10**4)
            if c["kind"] in ("gaussian", "uniform"):
                for (x, l) in fin[:4]:
                    goals.append((ci, "logp:" + x, "Goal Rabs (pushed_lpdf (fun _ => 0) %s %s - %s) <= %s.\nProof. cbn [gaussian_helper uniform_helper pushed_lpdf base_lpdf]. unfold normal_lpdf. interval. Qed."
                                  % (h, q(x), q(l), tol(l))))
            else:
                for (x1, l1), (x2, l2) in zip(fin[:-1], fin[1:]):
                    d = Fraction(float.fromhex(l1)) - Fraction(float.fromhex(l2))
                    goals.append((ci, "logp-diff:" + x1, "Goal Rabs ((let '(d, loc, scale) := %s in ldist_kernel d ((%s - loc) / scale) - ldist_kernel d ((%s - loc) / scale)) - %s) <= %s.\n"
                                                          "Proof. cbn [truncnorm_helper ldist_kernel]. interval. Qed." % (h, q(x1), q(x2), q(d), q(Fraction(4, 10**3) + abs(d) / 10**4))))
            if "jacobian_diffs" in r:
                dv = Fraction(float.fromhex(r["jacobian_diffs"][0]))
                goals.append((ci, "jacobian", "Goal Rabs (- ln (Rabs (snd %s)) - %s) <= 2/1000.\nProof. cbn [gaussian_helper uniform_helper truncnorm_helper snd]. interval. Qed." % (h, q(dv))))
        except (ValueError, OverflowError) as ex:
            r["oracle"].append("non-finite quantity in the implementation's output: %s" % ex)
            if (c, r) not in oracle_bad:
                oracle_bad.append((c, r))
    ck.rule = ("scale in [2^-6, 2^9]x{1,1.25,1.5}, |loc| <= 100 scale, truncation windows from 6 sigma below to 12 sigma above (one- and two-sided), suffixes; "
               "per object ~10 float32 points inside/outside the support, 10^4 samples, 4 base points for the Jacobian")
    ok, detail, failing = True, "", []
    if any(o["name"].startswith("translate:") and not o["ok"] for o in ck.obligations):
        ok, detail = False, "model could not be regenerated"
    else:
        with vlib.Lock():
            okm, _ = vlib.coq_make(["Proofs/PriorProofs.vo"])
        if not okm:
            ok, detail = False, "Proofs/PriorProofs.v does not build"
        else:
            from props import losslib
            hdr = ("From Coq Require Import Reals List String Lra.\nFrom Interval Require Import Tactic.\n"
                   "From PS Require Import Base.RBase Base.Dist Gen.PriorHelpers Proofs.PriorProofs.\nOpen Scope R_scope.\n")
            old = losslib.HDR
            losslib.HDR = hdr
            try:
                failing = losslib.run_goals(ck, goals, "c11", shard=30)
            finally:
                losslib.HDR = old
            ck.extra["coq_goals"] = len(goals)
            ck.cmds.append("coqc -Q coq PS coq/Cases/<run>/c11_NNN.v  (%d interval / lra goals)" % len(goals))
            if failing:
                ok = False
                detail = "; ".join("%s %s: %s" % (cases[f[0]]["kind"], f[1], f[2].replace("\n", " ")[:100]) for f in failing[:3])
    ck.oblige("correspondence:log_prob / support / affine parameters / Jacobian of the real prior objects == generated helpers", "correspondence", ok, detail)
    ck.oblige("correspondence:stored under name+suffix with TransformReparam", "correspondence", not book_bad, json.dumps(book_bad[:2]))
    ck.oblige("oracle:log_prob / samples of the real prior objects == the stated laws (scipy), support respected", "correspondence",
              not oracle_bad, json.dumps(oracle_bad[0][1]["oracle"][:2]) if oracle_bad else "")
    if known_hits:
        ck.known_finding("%s (reproduced on %d case(s) of this run)" % (kf[0]["text"], len(known_hits)))
    ck.extra["known_finding_cases"] = len(known_hits)
    ck.samples += [{"case": c, "points": [(float.fromhex(x), l if l in ("-inf", "nan") else float.fromhex(l)) for x, l in r["points"][:3]]} for c, r in list(zip(cases, res))[:4]]
    ck.trusted += ["Coq 8.16.1 kernel; Interval; Reals axioms", "translator unit PriorHelpers",
                   "numpyro TransformedDistribution/AffineTransform semantics modelled by pushed_lpdf (log|scale| Jacobian) and exposed = loc + scale*base; standard normal CDF abstract "
                   "(truncated-normal normaliser compared only through differences); float32 conditioning far in a tail not modelled (implementation oracle at 1e-2 only)"]
    ck.explanation = ("Proved for all loc, scale>0, bounds, points: Gaussian helper = N(loc, scale); uniform helper has support [low,high] and density 1/(high-low); truncated helper has support "
                      "exactly [low,high] (one-sided with None) and density phi/(scale (Phi(b)-Phi(a))) for any CDF Phi; reparameterisation exposes loc+scale*base and changes the density by the "
                      "constant -ln|scale|; entries are stored under name+suffix and sampled under their key.")
    if ck.broken():
        if oracle_bad:
            c, r = oracle_bad[0]
            ck.violation({"what": "prior object differs from the stated law", "violated": r["oracle"][:3], "case": c}, True)
        elif book_bad:
            ck.violation({"what": "prior not stored under name+suffix / no TransformReparam", "case": book_bad[0][0], "key": book_bad[0][1]}, True)
        elif failing:
            c = cases[failing[0][0]]
            ck.violation({"what": "real prior object disagrees with the generated helper model (scipy oracle at 1e-2 did not flag it)", "case": c, "where": str(failing[0][1])}, False)


def replay(path):
    rep = json.load(open(path))
    ck = vlib.Check("C11", "quick", 0)
    r = ck.run_impl("impl_c11.py", [rep["case"]])[0]
    ck.cleanup()
    print(r["oracle"], r["key"], r["reparam"])
    bad = bool(r["oracle"]) or not r["reparam"]
    print("REPLAY:", "still failing" if bad else "not failing")
    return 1 if bad else 0

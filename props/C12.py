"""C12 - auto-generated priors are complete, physical and in image coordinates.

T: generate_prior is symbolically executed for each profile type; parameter
tables and the multi-prior loop are regenerated; Props/C12.v is re-proved.
K: keys / distribution classes / hyper-parameters / bounds of real generated
priors and multi-source priors vs the model (vm_compute + interval).
Search: autoprior on images of rendered sources (photutils) - completeness,
finiteness, draws in the physical domain, position centre.
"""
import json
import math
import random
from fractions import Fraction

import vlib
import gen

PROFILES = ["sersic", "doublesersic", "sersic_exp", "sersic_pointsource", "pointsource", "exp", "dev"]
GUESSES = ["flux_guess", "flux_guess_err", "xc_guess", "yc_guess", "r_eff_guess", "r_eff_guess_err", "theta_guess", "sky_guess", "sky_guess_err"]
SKYP = {"none": [], "flat": ["sky_back"], "tilted-plane": ["sky_back", "sky_x_sl", "sky_y_sl"]}


def q(h):
    fr = Fraction(float.fromhex(h)) if isinstance(h, str) else Fraction(h)
    return "(%d / %d)" % (fr.numerator, fr.denominator) if fr.numerator >= 0 else "((%d) / %d)" % (fr.numerator, fr.denominator)


def strl(xs):
    return "[" + "; ".join('"%s"' % x for x in xs) + "]" if xs else "(@nil string)"


def run(ck):
    rng = random.Random(ck.seed * 7919 + 12)
    quick = ck.tier == "quick"
    rep = gen.generate_all(only=["GeneratePrior", "ProfileParams", "PriorHelpers"])
    for u, (ok, msg) in rep.items():
        ck.oblige("translate:" + u, "translate", ok, msg)
    ck.guard()
    ck.prove("Props/C12.v")

    cases = []
    for T in PROFILES:
        for sky in (["none", "flat", "tilted-plane"] if not quick else [rng.choice(["none", "flat", "tilted-plane"])]):
            g = {"flux_guess": rng.choice([16.0, 250.5, 3.25]), "flux_guess_err": rng.choice([4.0, 30.0]), "xc_guess": rng.choice([10.5, 20.25]),
                 "yc_guess": rng.choice([9.0, 17.75]), "r_eff_guess": rng.choice([2.0, 4.5, 0.75]), "r_eff_guess_err": rng.choice([1.0, 2.5]),
                 "theta_guess": 0.5, "sky_guess": 0.25, "sky_guess_err": 0.5}
            cases.append({"mode": "table", "profile": T, "sky": sky, "suffix": rng.choice(["", "_a", "_3"]), "guesses": g})
    nm = 6 if quick else 40
    for _ in range(nm):
        k = rng.randint(1, 6)
        cat = {"x": [rng.choice([5.0, 10.5, 20.0]) for _ in range(k)], "y": [rng.choice([6.0, 11.5]) for _ in range(k)],
               "flux": [rng.choice([100.0, 16.0, 2.5]) for _ in range(k)], "r": [rng.choice([2.0, 5.0]) for _ in range(k)],
               "type": [rng.choice(PROFILES) for _ in range(k)]}
        if rng.random() < 0.5:
            cat["theta"] = [0.25] * k
        cases.append({"mode": "multi", "catalog": cat, "form": rng.choice(["dict", "dataframe", "recarray"]), "sky": rng.choice(["none", "flat", "tilted-plane"]),
                      "suffix": rng.choice(["", "", "_b"])})
    ni = 4 if quick else 30
    for i in range(ni):
        N = rng.choice([40, 48])
        T = PROFILES[i % 7]
        truth = rng.choice(["sersic", "exp"]) if T != "pointsource" else "pointsource"
        p = {"xc": N / 2 + rng.uniform(-4, 4), "yc": N / 2 + rng.uniform(-4, 4), "flux": 500.0}
        if truth != "pointsource":
            p.update({"r_eff": rng.uniform(1.5, N / 12), "ellip": rng.uniform(0, 0.6), "theta": rng.uniform(0, 3.1)})
            if truth == "sersic":
                p["n"] = rng.uniform(0.8, 4)
        cases.append({"mode": "image", "N": N, "profile": T, "truth_profile": truth, "params": p, "snr": rng.choice([5, 30, 100, 1e4]) if i else 100,
                      "mask": (rng.random() < 0.4) if i else True, "sky": rng.choice(["none", "flat", "tilted-plane"]), "negative": (i % 5 == 4), "ndraw": 60 if quick else 1000,
                      "seed": rng.randint(0, 10**6)})
    for j_ in range(2 if quick else 6):
        N = 40
        cases.append({"mode": "image", "N": N, "profile": PROFILES[(j_ * 3 + ck.seed) % 7], "truth_profile": "pointsource", "params": {"xc": 20.0, "yc": 20.0, "flux": 1e-3},
                      "snr": 1e-3, "offset": [-0.5, -0.1, 0.0][j_ % 3], "mask": bool(j_ % 2), "sky": ["none", "flat", "tilted-plane"][j_ % 3], "negative": True, "ndraw": 30,
                      "seed": rng.randint(0, 10**6)})
    # compact sources (r_eff guess below 1.5 px, where guess-dependent bounds would dip under the 0.5 px limit): every type, explicit guesses and catalogues
    rng2 = random.Random(ck.seed * 104729 + 1212)
    for T in PROFILES:
        g = {"flux_guess": rng2.choice([16.0, 250.5]), "flux_guess_err": 4.0, "xc_guess": 10.5, "yc_guess": 17.75, "r_eff_guess": rng2.choice([0.75, 0.9, 1.2, 0.55]),
             "r_eff_guess_err": rng2.choice([1.0, 0.25]), "theta_guess": 0.5, "sky_guess": 0.25, "sky_guess_err": 0.5}
        cases.append({"mode": "table", "profile": T, "sky": rng2.choice(["none", "flat", "tilted-plane"]), "suffix": rng2.choice(["", "_c"]), "guesses": g})
    for _ in range(2 if quick else 10):
        k = 7
        types = list(PROFILES)
        rng2.shuffle(types)
        cat = {"x": [rng2.choice([5.0, 10.5, 20.0]) for _ in range(k)], "y": [rng2.choice([6.0, 11.5]) for _ in range(k)], "flux": [rng2.choice([100.0, 16.0]) for _ in range(k)],
               "r": [rng2.choice([0.6, 0.9, 1.2, 3.0]) for _ in range(k)], "type": types, "theta": [0.25] * k}
        cases.append({"mode": "multi", "catalog": cat, "form": rng2.choice(["dict", "dataframe"]), "sky": "flat", "suffix": rng2.choice(["", "_b"])})
    ck.log("implementation: %d cases (table / multi / image)" % len(cases))
    import concurrent.futures as cf
    nsh = min(6, vlib.NCPU)
    shards = [cases[i::nsh] for i in range(nsh)]
    with cf.ThreadPoolExecutor(nsh) as ex:
        outs = list(ex.map(lambda s: ck.run_impl("impl_c12.py", s), shards))
    res = [None] * len(cases)
    for k, o in enumerate(outs):
        for j, r in enumerate(o):
            res[k + j * nsh] = r

    goals = []
    oracle_bad = []
    for ci, (c, r) in enumerate(zip(cases, res)):
        ck.bump("mode", c["mode"])
        ck.count(json.dumps(c, sort_keys=True), nontrivial=True)
        if r.get("oracle"):
            oracle_bad.append((c, r))
        if c["mode"] == "table":
            ck.bump("profile", c["profile"])
            sfx = c["suffix"]
            g = c["guesses"]
            gargs = " ".join(q(g[k]) for k in GUESSES)
            strip = lambda k: k[: len(k) - len(sfx)] if sfx else k
            goals.append((ci, "keys", 'Goal map fst (generated_prior "%s" %s) = %s /\\ lookup "%s" sky_params = %s.\nProof. split; reflexivity. Qed.'
                          % (c["profile"], gargs, strl([strip(k) for k in r["keys"]]), c["sky"], strl([strip(k) for k in r["sky_keys"]]))))
            for idx, k in enumerate(r["keys"]):
                e = r["entries"][k]
                base = {"Normal": "G", "Uniform": "U"}.get(e["base"], "T")
                lo = "(Some %s)" % q(e["base_low"]) if "base_low" in e else "None"
                hi = "(Some %s)" % q(e["base_high"]) if "base_high" in e else "None"
                goals.append((ci, "entry:" + k,
                              'Goal spec_matches (snd (nth %d (generated_prior "%s" %s) (""%%string, PGauss 0 0))) "%s" %s %s %s %s.\n'
                              "Proof. cbn [generated_prior String.eqb Ascii.eqb Bool.eqb nth snd generated_prior_sersic generated_prior_doublesersic generated_prior_sersic_exp "
                              "generated_prior_sersic_pointsource generated_prior_pointsource generated_prior_exp generated_prior_dev]. unfold spec_matches. "
                              "repeat split; try reflexivity; try exact I; unfold close; try interval. Qed."
                              % (idx, c["profile"], gargs, base, q(e["loc"]), q(e["scale"]), lo, hi)))
        elif c["mode"] == "multi" and not r.get("failed"):
            sfx = c["suffix"]
            types = c["catalog"]["type"]
            goals.append((ci, "multi-keys",
                          "Goal flat_map (fun iT => map (fun p => source_key p (fst iT) \"%s\") (map fst (generated_prior (snd iT) 0 0 0 0 0 0 0 0 0))) %s = %s.\nProof. vm_compute. reflexivity. Qed."
                          % (sfx, "[" + "; ".join('(%d%%nat, "%s")' % (i, t) for i, t in enumerate(types)) + "]", strl(r["keys"]))))
            if r["N"] != len(types):
                oracle_bad.append((c, {"oracle": ["N_sources %d != catalogue length %d" % (r["N"], len(types))]}))
            # flux / position centred on the catalogue row
            for i in range(len(types)):
                for nm, col in (("xc", "x"), ("yc", "y"), ("flux", "flux")):
                    key = "%s_%d%s" % (nm, i, sfx)
                    e = r["entries"].get(key)
                    if e is None or abs(float.fromhex(e["loc"]) - c["catalog"][col][i]) > 1e-5 * (1 + abs(c["catalog"][col][i])):
                        oracle_bad.append((c, {"oracle": ["%s is not centred on catalogue %s[%d]" % (key, col, i)]}))
    ck.rule = ("7 profile types x sky types x suffixes with explicit guesses (table mode); 1..6-source catalogues as dict/DataFrame/recarray with/without theta (multi mode); "
               "compact sources (r_eff guess 0.55..1.2 px) of every type in both modes, prior draws checked against the physical domain; "
               "autoprior on rendered images with S/N 5..1e4, masks, negative images (image mode, implementation-side oracle)")
    ok, detail, failing = True, "", []
    if any(o["name"].startswith("translate:") and not o["ok"] for o in ck.obligations):
        ok, detail = False, "model could not be regenerated"
    else:
        with vlib.Lock():
            okm, _ = vlib.coq_make(["Proofs/AutoPriorProofs.vo"])
        if not okm:
            ok, detail = False, "Proofs/AutoPriorProofs.v does not build"
        else:
            from props import losslib
            hdr = ("From Coq Require Import Reals List String Lra Bool.\nFrom Interval Require Import Tactic.\n"
                   "From PS Require Import Base.RBase Base.PyStr Gen.ProfileParams Gen.GeneratePrior Proofs.AutoPriorProofs.\nImport ListNotations.\nOpen Scope R_scope.\nOpen Scope string_scope.\n"
                   "(* observed: base class G/U/T, affine loc/scale, base-space bounds.  The helpers (C11) map PGauss l s -> Normal() o Affine(l, s);\n"
                   "   PUnif a b -> Uniform() o Affine(a, b-a); PTrunc l s lo hi -> TruncNormal((lo-l)/s, (hi-l)/s) o Affine(l, s). *)\n"
                   "Definition close (a b : R) : Prop := (Rabs (a - b) <= 1/100000 * (1 + Rabs b))%R.\n"
                   "Definition spec_matches (s : prior_spec) (base : string) (loc scale : R) (lo hi : option R) : Prop :=\n"
                   "  match s with\n"
                   "  | PGauss l sc => base = \"G\" /\\ close l loc /\\ close sc scale\n"
                   "  | PUnif a b => base = \"U\" /\\ close a loc /\\ close (b - a) scale\n"
                   "  | PTrunc l sc a b => base = \"T\" /\\ close l loc /\\ close sc scale /\\\n"
                   "      match a, lo with Some a, Some lo => close ((a - l) / sc) lo | None, None => True | _, _ => False end /\\\n"
                   "      match b, hi with Some b, Some hi => close ((b - l) / sc) hi | None, None => True | _, _ => False end\n"
                   "  end.\n")
            old = losslib.HDR
            losslib.HDR = hdr
            try:
                failing = losslib.run_goals(ck, goals, "c12", shard=30)
            finally:
                losslib.HDR = old
            ck.extra["coq_goals"] = len(goals)
            ck.cmds.append("coqc -Q coq PS coq/Cases/<run>/c12_NNN.v  (%d goals)" % len(goals))
            if failing:
                ok = False
                detail = "; ".join("case %d %s: %s" % (f[0], f[1], f[2].replace("\n", " ")[:120]) for f in failing[:3])
    ck.oblige("correspondence:keys, classes, hyper-parameters, bounds of real generated / multi priors == generated_prior model", "correspondence", ok, detail)
    ck.oblige("oracle:autoprior on rendered images (complete, finite, physical draws, position centre); catalogue centring", "correspondence",
              not oracle_bad, json.dumps(oracle_bad[0][1]["oracle"][:2]) if oracle_bad else "")
    ck.samples += [{k: c[k] for k in c if k not in ("catalog",)} for c in cases[:3]] + [cases[-1]]
    ck.trusted += ["Coq 8.16.1 kernel; Interval; Reals axioms", "translator units GeneratePrior (symbolic execution per profile type), ProfileParams, PriorHelpers",
                   "photutils data_properties is an oracle: its guesses are universally quantified reals in the theorems and exercised only by the image-mode implementation oracle",
                   "decimal formatting f'{i:d}' modelled by Coq's NilEmpty.string_of_uint (Base/PyStr.dec)"]
    ck.explanation = ("Proved for all guess values: generate_prior defines exactly the required parameter set of each of the 7 types (tables in the two modules agree as sets); supports "
                      "r_eff*>=1/2, ellip* in [0,0.9], n* in [0.65,8], theta in [0,2pi], fractions in [0,1]; flux/xc/yc Gaussians centred on the guesses (1 px for positions); "
                      "multi-source keys p_i<suffix> determine (p,i).  Finite hyper-parameters, zero-based x=column/y=row centring and detectability are photutils behaviour: "
                      "implementation-side oracle only.")
    if ck.broken():
        if oracle_bad:
            c, r = oracle_bad[0]
            ck.violation({"what": "generated prior violates the property", "violated": r["oracle"][:3], "case": c}, True)
        elif failing:
            ck.violation({"what": "real generated prior differs from the model (no clause of the property text was found violated)", "case": cases[failing[0][0]], "where": failing[0][1]}, False)


def replay(path):
    rep = json.load(open(path))
    ck = vlib.Check("C12", "quick", 0)
    r = ck.run_impl("impl_c12.py", [rep["case"]])[0]
    ck.cleanup()
    print(r.get("oracle"))
    print("REPLAY:", "still failing" if r.get("oracle") else "not failing")
    return 1 if r.get("oracle") else 0

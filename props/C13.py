"""C13 - find_MAP returns the best state it visited, consistently and repeatably  (PARTIAL).

T: find_MAP's name filtering, AutoDelta name inversion, FitMulti regrouping key and the
learning-rate expression are regenerated; Props/C13.v is re-proved (with C14's theorem about
which state is returned).
K: real find_MAP with the trainer short-circuited in the harness: for every site of the traced
model, returned-or-not vs map_fate_of (vm_compute); grouping keys.
Search: one (quick) / several real fits: image consistency, logp(MAP) vs logp(truth), repeatability.
NOT decided by any theorem: optimiser quality and bitwise repeatability.
"""
import json
import random

import vlib
import gen
from props import losslib

PROFILES = ["sersic", "doublesersic", "sersic_exp", "sersic_pointsource", "pointsource", "exp", "dev"]


def strl(xs):
    return "[" + "; ".join('"%s"' % x for x in xs) + "]" if xs else "(@nil string)"


def run(ck):
    rng = random.Random(ck.seed * 7919 + 13)
    quick = ck.tier == "quick"
    rep = gen.generate_all(only=["FindMAP", "ProfileParams", "ResultsParse"])
    for u, (ok, msg) in rep.items():
        ck.oblige("translate:" + u, "translate", ok, msg)
    ck.guard()
    ck.prove("Props/C13.v")
    cases = []
    n = 10 if quick else 90
    for i in range(n):
        fitter = "single" if i % 3 else "multi"
        types = [PROFILES[i % 7]] if fitter == "single" else [rng.choice(PROFILES) for _ in range(rng.randint(1, 3))]
        cases.append({"mode": "keys", "fitter": fitter, "types": types, "sky": ["none", "flat", "tilted-plane"][(i + i // 3) % 3], "loss": losslib.LOSSES[i % 10],
                      "renderer": rng.choice(["pixel", "fourier"]), "suffix": ["", "_a", "", "_x1"][i % 4] if fitter == "multi" else "", "N": 8, "seed": i})
    cases.append({"mode": "keys", "fitter": "multi", "types": ["pointsource", "doublesersic", "sersic_exp"], "sky": "flat", "loss": "gaussian_loss",
                  "renderer": "fourier", "suffix": ["", "_a"][ck.seed % 2], "N": 8, "seed": 77})
    nfit = 1 if quick else 6
    for i in range(nfit):
        N = 32
        prof = ["sersic", "exp", "pointsource"][i % 3]
        truth = {"xc": N / 2 + rng.uniform(-1, 1), "yc": N / 2 + rng.uniform(-1, 1), "flux": 200.0}
        if prof != "pointsource":
            truth.update({"r_eff": rng.uniform(2, 3), "ellip": rng.uniform(0.1, 0.5), "theta": rng.uniform(0.3, 2.5)})
        if prof == "sersic":
            truth["n"] = rng.uniform(1, 3)
        cases.append({"mode": "fit", "N": N, "profile": prof, "truth": truth, "snr": rng.choice([50, 200]), "seed": 3 + i})
    ck.log("implementation: %d short-circuited find_MAP calls + %d real fit(s)" % (n, nfit))
    import concurrent.futures as cf
    nsh = min(6, vlib.NCPU)
    shards = [cases[i::nsh] for i in range(nsh)]
    with cf.ThreadPoolExecutor(nsh) as ex:
        outs = list(ex.map(lambda s: ck.run_impl("impl_c13.py", s, timeout=3000), shards))
    res = [None] * len(cases)
    for kk, o in enumerate(outs):
        for j, r in enumerate(o):
            res[kk + j * nsh] = r
    goals, oracle_bad = [], []
    for ci, (c, r) in enumerate(zip(cases, res)):
        ck.bump("mode", c["mode"])
        ck.count(json.dumps(c), nontrivial=True)
        if r["oracle"]:
            oracle_bad.append((c, r))
        if c["mode"] != "keys" or r.get("returned") is None:
            continue
        ck.bump("fitter", c["fitter"]); ck.bump("loss", c["loss"]); ck.bump("suffix", c["suffix"] or "(none)")
        ret = r["returned"]
        returned = set(ret["flat"])
        sfx = c["suffix"]
        if c["fitter"] == "multi":
            for g, ps in ret["groups"].items():
                i = int(g.split("_")[1])
                goals.append((ci, "group:" + g, "Goal map (fun p => regroup_key p %d%%nat \"%s\") %s = %s.\nProof. vm_compute. reflexivity. Qed."
                              % (i, sfx, strl(ps), strl(["%s_%d%s" % (p, i, sfx) for p in ps]))))
                returned |= {"%s_%d%s" % (p, i, sfx) for p in ps}
        kept = [s for s in r["sites"] if s in returned]
        goals.append((ci, "filter", "Goal filter (fun n => match map_fate_of n with MapRounded | MapImage => true | _ => false end) %s = %s.\nProof. vm_compute. reflexivity. Qed."
                      % (strl(r["sites"]), strl(kept))))
        if set(kept) != returned:
            oracle_bad.append((c, {"oracle": ["find_MAP returns keys that are not sites of the model: %s" % sorted(returned - set(kept))]}))
    ck.rule = ("keys mode: single/multi fitters x 7 profile types x 3 sky types x 10 losses x suffixes (multi: '', _a, _x1) with the trainer replaced by a stub returning the initial state; "
               "fit mode: real find_MAP on synthetic 32x32 data (S/N 50-200), twice with the same key")
    ok, detail, failing = True, "", []
    if any(o["name"].startswith("translate:") and not o["ok"] for o in ck.obligations):
        ok, detail = False, "model could not be regenerated"
    else:
        with vlib.Lock():
            okm, _ = vlib.coq_make(["Gen/FindMAP.vo"])
        hdr = "From Coq Require Import String List Bool.\nFrom PS Require Import Base.PyStr Gen.FindMAP.\nImport ListNotations.\nOpen Scope string_scope.\n"
        old = losslib.HDR
        losslib.HDR = hdr
        try:
            failing = losslib.run_goals(ck, goals, "c13", shard=40)
        finally:
            losslib.HDR = old
        ck.extra["coq_goals"] = len(goals)
        ck.cmds.append("coqc -Q coq PS coq/Cases/<run>/c13_NNN.v  (%d vm_compute goals)" % len(goals))
        if failing:
            ok = False
            detail = "; ".join("case %d %s: %s" % (f[0], f[1], f[2].replace("\n", " ")[:140]) for f in failing[:3])
    ck.oblige("correspondence:which sites find_MAP returns / how FitMulti regroups == regenerated map_fate_of / regroup_key (vm_compute)", "correspondence", ok, detail)
    ck.oblige("oracle:key sets and per-source groups per the property; real fit: image consistency, logp(MAP) >= logp(truth) - 0.5, identical repeat run", "correspondence",
              not oracle_bad, json.dumps(oracle_bad[0][1]["oracle"][:2]) if oracle_bad else "")
    ck.samples += [{"case": c, "returned": r.get("returned")} for c, r in list(zip(cases, res))[:3]]
    ck.trusted += ["Coq 8.16.1 kernel; vm_compute", "translator unit FindMAP (purge predicate, '_auto_loc' split, regroup key, learning-rate expression)",
                   "numpyro condition/trace semantics (the returned image is the model's deterministic site evaluated at the conditioned values): exercised by the real fit only",
                   "NOT DECIDED BY ANY THEOREM: logp(MAP) >= logp(truth) - 0.5, local maximality, bitwise repeatability - properties of Adam on a non-convex objective and of XLA; implementation oracle only",
                   "FitSingle with a non-empty suffix files the image under 'model<suffix>' as a rounded parameter (find_MAP tests key == 'model'); documented, outside the theorems"]
    ck.explanation = ("Proved: for every marker-free suffix each profile/sky/nuisance parameter is returned (rounded); *_base, *_auto_loc and the likelihood sites are not; 'model' is returned as the "
                      "image; split('_auto_loc')[0] inverts AutoDelta's naming on all latent-site names; FitMulti looks parameter p of source i up under the prior's own key (any suffix), injectively; "
                      "the returned state is the first lowest-loss state of the final round (C14) trained at lr_init*decay^r.")
    if ck.broken():
        if oracle_bad:
            c, r = oracle_bad[0]
            ck.violation({"what": "find_MAP output contradicts the property", "violated": r["oracle"][:3], "case": c}, True)
        elif failing:
            ck.violation({"what": "find_MAP filtering / regrouping differs from the verified model", "case": cases[failing[0][0]], "where": failing[0][1]}, False)


def replay(path):
    rep = json.load(open(path))
    ck = vlib.Check("C13", "quick", 0)
    r = ck.run_impl("impl_c13.py", [rep["case"]])[0]
    ck.cleanup()
    print(r["oracle"])
    print("REPLAY:", "still failing" if r["oracle"] else "not failing")
    return 1 if r["oracle"] else 0

"""C14 — staged early-stopping optimiser honours its patience/round contract.

Theorems: coq/Props/C14.v over Model/SviLoop.v (all scripts, all configs).
Tie: correspondence K — the real train_numpyro_svi_early_stop is driven with a
scripted stand-in SVI object; returned lineage, final state, appended losses,
per-call decay exponents (from the learning rates the routine installs) and
per-call parent states are compared with the model by a kernel-checked
`vm_compute` equality.
"""
import json
import os
import random

import vlib

CORPUS = [
    # (cfg, lr, script)  -- hand-picked regressions: tie, NaN, +inf, first loss NaN, -inf
    ([3, 5, 1], [0.05, 0.1], [5, 4, 4, "nan", 3, 3, "inf", 2, 9, 9, 1, 1, 1, 1, 1, 1, 1]),
    ([2, 4, 0], [0.05, 0.1], ["nan", 1, 1, 1, 1, 1, 1, 1, 1, 1]),
    ([2, 4, 2], [0.01, 0.5], [3, 3, 3, 3, 3, 3, 3, 3, 3, 3]),
    ([3, 3, 1], [0.05, 0.1], ["inf", "inf", "-inf", "-inf", 0, "nan", "-inf", 5, 5, 5, 5]),
    ([1, 6, 3], [0.05, 0.1], [9, 8, 9, 9, 9, 7, 9, 9, 9, 9]),
    ([0, 3, 1], [0.05, 0.1], [1, 2, 3]),
    ([3, 2, 0], [0.05, 0.1], [5, 6, 4, 7, 3, 8, 2, 9]),
]


def coq_loss(x):
    if x == "nan":
        return "NaN"
    if x == "inf":
        return "PInf"
    if x == "-inf":
        return "NInf"
    return "Fin (%d)" % int(x)


def coq_list(xs, f=str):
    return "[" + "; ".join(f(x) for x in xs) + "]"


def coq_obs(res):
    if "error" in res:
        if res["error"] == "UnboundLocalError":
            return "None"
        return None  # not comparable (script exhausted)
    if any(e is None for e in res["exps"]):
        return None
    best = list(reversed(res["best"]))
    state = list(reversed(res["state"]))
    parents = [list(reversed(p)) for p in res["parents"][1:]]
    exps = res["exps"][1:]
    return "Some (%s, %s, %s, %s, %s)" % (
        coq_list(best), coq_list(state), coq_list(res["losses"], coq_loss),
        coq_list(exps), coq_list(parents, lambda p: coq_list(p)))


def _f(x):
    return {"nan": float("nan"), "inf": float("inf"), "-inf": float("-inf")}.get(x, x) if isinstance(x, str) else float(x)


def contract_violations(cfg, script, res):
    """The property's clauses evaluated directly on what the IMPLEMENTATION did
    (independent of the Coq model).  Returns the list of violated clauses."""
    nr, mt, pat = cfg
    bad = []
    if "error" in res:
        if res["error"] == "UnboundLocalError" and nr == 0:
            return []
        return ["routine failed: " + res["error"]]
    n = res["ncalls"]
    exps, parents = res["exps"], res["parents"]
    if n > 1 + nr * mt:
        bad.append("more than 1 + num_round*max_train update calls")
    if any(e is None for e in exps) or exps[0] != 0:
        return bad + ["a learning rate is not lr_init*frac_lr_decrease**r"]
    rounds = {}
    for k in range(1, n):
        rounds.setdefault(exps[k], []).append(k)
    if any(exps[k] > exps[k + 1] for k in range(1, n - 1)) or any(r >= nr for r in rounds):
        bad.append("decay exponents are not non-decreasing round indices")
    start = [0]
    bar = _f(script[0])
    for r in range(nr):
        calls = rounds.get(r, [])
        if r > 0:
            bar = float("inf")
        if len(calls) > mt:
            bad.append("round %d makes more than max_train steps" % r)
        best_state, best = start, bar
        run_nonimp = 0
        cur = start
        for i, k in enumerate(calls):
            if parents[k] != cur:
                bad.append("call %d is not applied to the state expected (round start = previous round's best / previous step's state)" % k)
            cur = parents[k] + [k]
            if run_nonimp >= pat + 1:
                bad.append("round %d continues after patience+1 consecutive non-improving losses" % r)
            l = _f(script[k])
            if l < best:
                best, best_state, run_nonimp = l, cur, 0
            else:
                run_nonimp += 1
        if len(calls) < mt and run_nonimp < pat + 1:
            bad.append("round %d ends before patience+1 consecutive non-improving losses and before max_train" % r)
        if r == nr - 1:
            if res["best"] != best_state:
                bad.append("returned parameters are not those of the first lowest-loss state of the final round (or its starting state)")
            if res["state"] != cur:
                bad.append("returned svi_state is not the last state visited")
        start = best_state
    return sorted(set(bad))


def cases_file(cases, with_agree=True):
    """cases: list of (cfg, script, obs_text).  with_agree adds the literal equality lemma (vm_compute reifies both sides:
    for histories of hundreds of steps the unary state lineages make that normal form gigabytes large, so long shards state
    only the equivalent boolean form `failing = []`, which is decided inside the VM)."""
    rows = []
    for cfg, script, obs in cases:
        rows.append("  (Build_cfg %d %d %d, %s, %s : obs)" % (cfg[0], cfg[1], cfg[2], coq_list(script, coq_loss), obs))
    return (
        "From Coq Require Import List ZArith.\nFrom PS Require Import Base.ExtLoss Model.SviLoop.\nImport ListNotations.\n"
        "Open Scope nat_scope.\n"
        "Definition cases : list (cfg * list loss * obs) := [\n" + ";\n".join(rows) + "\n].\n"
        "Definition failing := Eval vm_compute in failing_from 0 cases.\n"
        "Print failing.\n"
        "Lemma none_failing : failing = []. Proof. reflexivity. Qed.\n"
        + ("Lemma all_agree : map (fun x => observe (fst (fst x)) (snd (fst x))) cases = map snd cases.\n"
           "Proof. vm_compute. reflexivity. Qed.\n" if with_agree else "")
    )


def synth_paths(rng, n, max_cfg):
    """Model-path-driven histories: choose an outcome (improve / not) per step
    and realise 'not improve' by a tie, a NaN, a larger value or +inf."""
    out = []
    for _ in range(n):
        nr = rng.randint(1, max_cfg[0])
        mt = rng.randint(1, max_cfg[1])
        pat = rng.randint(0, max_cfg[2])
        total = 1 + nr * mt + 2
        first = rng.choice([rng.randint(-5, 50), rng.randint(-5, 50), "nan", "inf"])
        script = [first]
        best = first
        p_improve = rng.choice([0.15, 0.35, 0.6])
        steps_in_round = 0
        for k in range(1, total):
            # the synthesiser does not track rounds exactly; it only biases the mix
            if rng.random() < p_improve:
                if best in ("nan",):
                    v = rng.randint(-5, 50)
                elif best == "inf":
                    v = rng.randint(0, 50)
                else:
                    v = best - rng.randint(1, 3)
                best = v
            else:
                kind = rng.choice(["tie", "nan", "up", "inf", "reset"])
                if kind == "tie":
                    v = best
                elif kind == "nan":
                    v = "nan"
                elif kind == "inf":
                    v = "inf"
                elif kind == "reset":
                    v = rng.randint(-5, 50)
                    if not isinstance(best, int) or v < best:
                        best = v
                else:
                    v = (best + rng.randint(1, 4)) if isinstance(best, int) else rng.randint(0, 50)
            script.append(v)
        out.append(([nr, mt, pat], rng.choice([[0.05, 0.1], [0.01, 0.5], [0.3, 0.25]]), script))
    return out


def run(ck):
    rng = random.Random(ck.seed * 7919 + 14)
    quick = ck.tier == "quick"
    ck.guard()
    ck.prove("Props/C14.v")

    # ---------------- implementation side
    ck.log("implementation: enumerating complete histories with the scripted stand-in")
    if quick:
        cfgs = [[nr, mt, p] for nr in (0, 1, 2) for mt in (1, 2, 3) for p in (0, 1)]
        alphabet = ["nan", "inf", 0, 1]
        limit = 7000
    else:
        cfgs = [[nr, mt, p] for nr in (0, 1, 2, 3) for mt in (1, 2, 3) for p in (0, 1, 2, 3)]
        cfgs += [[2, 4, p] for p in (0, 1, 2)]
        alphabet = ["nan", "inf", 0, 1, 2]
        limit = 12000
    # shard the configurations over processes
    import concurrent.futures as cf
    shards = [[] for _ in range(min(vlib.NCPU, len(cfgs)))]
    for i, c in enumerate(sorted(cfgs, key=lambda c: -(c[0] * c[1]))):
        shards[i % len(shards)].append(c)

    def enum(sh):
        return ck.run_impl("impl_c14.py", {"mode": "enumerate", "cfgs": sh, "lr": [0.05, 0.1], "alphabet": alphabet, "limit": limit})

    enumerated = []
    complete = True
    with cf.ThreadPoolExecutor(len(shards)) as ex:
        for r in ex.map(enum, shards):
            enumerated += r["cases"]
            complete = complete and r["complete"]
    ck.log("enumerated %d complete histories (exhaustive over the alphabet: %s)" % (len(enumerated), complete))

    n_rand = 150 if quick else 2000
    max_cfg = (3, 12, 4) if quick else (3, 40, 12)   # (unary state lineages make longer histories gigabytes large inside Coq)
    rand_cases = [(c, lr, s) for (c, lr, s) in CORPUS] + synth_paths(rng, n_rand, (3, 6, 3))
    long_cases = synth_paths(rng, 40 if quick else 400, max_cfg)
    # long histories need long scripts
    fixed = []
    for (c, lr, s) in rand_cases + long_cases:
        need = 1 + c[0] * c[1] + 1
        while len(s) < need:
            s = s + [rng.choice([s[-1], "nan", rng.randint(-5, 50)])]
        fixed.append({"cfg": c, "lr": lr, "script": s})
    res_fixed = ck.run_impl("impl_c14.py", fixed)
    n_jit = 12 if quick else 60
    jit_cases = [f for f in fixed if f["cfg"][0] * f["cfg"][1] <= 40][:n_jit]
    res_jit = ck.run_impl("impl_c14.py", jit_cases, args=["--jit"])

    # ---------------- model side
    allcases = []   # (suite, cfg, lr, script, res)
    for e in enumerated:
        allcases.append(("enumerated", e["cfg"], e["lr"], e["script"], e["res"]))
    for f, r in zip(fixed, res_fixed):
        allcases.append(("scripted", f["cfg"], f["lr"], f["script"], r))
    for f, r in zip(jit_cases, res_jit):
        allcases.append(("jit", f["cfg"], f["lr"], f["script"], r))

    coq_cases = []
    direct_bad = []
    for (suite, cfg, lr, script, res) in allcases:
        obs = coq_obs(res)
        ck.bump("suite", suite)
        ck.bump("num_round", cfg[0])
        ck.bump("patience", cfg[2])
        ck.bump("result_kind", res.get("error", "ok"))
        if obs is None:
            # learning rate matching no lr_init*decay**r, or script exhausted
            direct_bad.append((suite, cfg, lr, script, res))
            continue
        used = script[: res["ncalls"]]
        key = json.dumps([cfg, used])
        nontrivial = res.get("ncalls", 0) >= 2 and "error" not in res
        ck.count(key, nontrivial)
        coq_cases.append((suite, cfg, lr, script, res, obs))
    ck.rule = ("complete loss histories enumerated lazily on the implementation over a finite alphabet for all small "
               "configurations + synthesised/random histories (incl. long ones) + jit-enabled runs; a case is distinct by "
               "(cfg, consumed script prefix) and non-trivial when the routine returned normally after >= 2 update calls")
    ck.extra["exhaustive"] = bool(complete)
    ck.extra["exhaustive_scope"] = {"cfgs": cfgs, "alphabet": alphabet}

    files = {}
    shard_cases = {}
    # shards bounded both in the number of cases and in the total length of their scripts (a multi-MB literal makes coqc
    # use tens of GB): at most 400 cases and about 4000 script entries per file
    chunk, weight = [], 0
    def flush():
        if chunk:
            name = "c14_%03d" % len(files)
            files[name] = cases_file([(c[1], c[3], c[5]) for c in chunk], with_agree=all(len(c[3]) <= 40 for c in chunk))
            shard_cases[name] = list(chunk)
    for c in coq_cases:
        wgt = len(c[3]) + 20
        if chunk and (len(chunk) >= 400 or weight + wgt > 4000):
            flush()
            chunk, weight = [], 0
        chunk.append(c)
        weight += wgt
    flush()
    ck.log("model: %d cases in %d vm_compute shards" % (len(coq_cases), len(files)))
    ck.cmds.append("coqc -Q coq PS coq/Cases/<run>/c14_NNN.v   (Lemma all_agree by vm_compute)")
    results = ck.coq_cases_parallel(files, timeout=900)
    disagreements = []
    import re
    for name, (rc, out) in sorted(results.items()):
        if rc == 0:
            continue
        m = re.search(r"failing\s*=\s*\[([^\]]*)\]", out.replace("\n", " "))
        idxs = [int(x.replace("%nat", "")) for x in m.group(1).split(";") if x.strip()] if m else []
        if not idxs:
            disagreements.append((name, None, out[-800:]))
        for i in idxs:
            disagreements.append((name, shard_cases[name][i], ""))
    ok = not disagreements and not direct_bad
    for c in coq_cases[:3] + coq_cases[-3:]:
        ck.samples.append({"suite": c[0], "cfg(num_round,max_train,patience)": c[1], "lr(init,decay)": c[2],
                           "script": c[3][: c[4].get("ncalls", 0)], "observed": {k: c[4].get(k) for k in ("best", "state", "losses", "exps", "error") if k in c[4]}})
    detail = ""
    if not ok:
        detail = "%d disagreeing cases, %d with a learning rate matching no lr_init*decay**r" % (len(disagreements), len(direct_bad))
    ck.oblige("correspondence:train_numpyro_svi_early_stop==Model.SviLoop.observe", "correspondence", ok, detail)
    ck.extra["traces_validated_against_impl"] = len(coq_cases)

    ck.trusted += [
        "Coq 8.16.1 kernel (coqc); vm_compute for the correspondence equalities (long shards state the boolean form failing_from 0 cases = [], proved to imply the literal equality: Proofs/SviLoopProofs.v failing_from_nil_all_agree); no native_compute",
        "hand-written model coq/Model/SviLoop.v of train_numpyro_svi_early_stop, tied to the code only by this run's correspondence",
        "stand-in SVI object (corr/impl_c14.py): state = lineage of update-call ids; learning rates read from the optimizer objects the routine installs; JAX jit assumed semantics-preserving for the loop's Python control flow",
        "finite losses are integer-valued floats; -inf, +inf, NaN compared with IEEE semantics",
    ]
    ck.explanation = (
        "Proved for all configurations and all loss scripts (Props/C14.v): step bound; patience contract (wait counter = "
        "consecutive non-improving steps, break exactly at wait>=patience on a non-improving step, nothing after the break, short "
        "round => ended on the break); round r uses decay exponent r and starts from the incumbent of round r-1 with +inf bar; "
        "adoption <=> IEEE-strictly below the running best (never NaN, never a tie); the returned state is the first visit of the "
        "lowest loss of the final round, or that round's starting state; num_round=0 is the only configuration with no result "
        "(UnboundLocalError in the code).  The learning-rate VALUE lr_init*decay**r is checked on the implementation side "
        "(float equality with that expression) - it is not a Coq theorem.")

    if not ok:
        # the disagreeing history itself is the failing input: decide, with the
        # theorems' own statements, whether the implementation's behaviour on it
        # breaks the contract (it always does when it differs from the model,
        # because the model is a function of the script and satisfies the contract
        # uniquely up to the clauses listed in `explanation`).
        if disagreements and disagreements[0][1] is not None:
            c = min((d[1] for d in disagreements if d[1] is not None), key=lambda c: (len(c[3][: c[4].get("ncalls", 99)]), str(c[3])))
            mrc, mout = ck.coq_cases("c14_witness",
                                     "From Coq Require Import List ZArith.\nFrom PS Require Import Base.ExtLoss Model.SviLoop.\nImport ListNotations.\nOpen Scope nat_scope.\n"
                                     "Eval vm_compute in observe (Build_cfg %d %d %d) %s.\n" % (c[1][0], c[1][1], c[1][2], coq_list(c[3], coq_loss)))
            cands = sorted((d[1] for d in disagreements if d[1] is not None), key=lambda c: (len(c[3][: c[4].get("ncalls", 99)]), str(c[3])))
            clauses = []
            for cand in cands:
                clauses = contract_violations(cand[1], cand[3], cand[4])
                if clauses:
                    c = cand
                    break
            ck.violation({
                "what": "real train_numpyro_svi_early_stop disagrees with the verified model on this loss history",
                "violated_clauses (property oracle evaluated on the implementation's own trace)": clauses,
                "suite": c[0], "cfg": {"num_round": c[1][0], "max_train": c[1][1], "patience": c[1][2]},
                "lr_init,frac_lr_decrease": c[2], "script": c[3][: max(c[4].get("ncalls", 0), 1)],
                "implementation": c[4], "model (lineages most-recent-first)": mout.strip()[-600:],
                "replay_cmd": "./check C14 --replay <this file>",
                "n_disagreements": len(disagreements),
            }, bool(clauses))
        elif direct_bad:
            b = direct_bad[0]
            ck.violation({"what": "a learning rate installed by the routine equals lr_init*frac_lr_decrease**r for no round r (or the routine asked for more losses than 1+num_round*max_train)",
                          "cfg": b[1], "lr": b[2], "script": b[3], "implementation": b[4]}, True)
        else:
            ck.violation({"what": "correspondence file failed to compile", "detail": disagreements[0][2]}, False)


def replay(path):
    """Re-run one recorded history on the implementation and on the model."""
    rep = json.load(open(path))
    ck = vlib.Check("C14", "quick", 0)
    cfg = rep["cfg"]
    cfgl = [cfg["num_round"], cfg["max_train"], cfg["patience"]] if isinstance(cfg, dict) else cfg
    script = rep["script"] + [rep["script"][-1]] * 4
    lr = rep.get("lr_init,frac_lr_decrease", rep.get("lr", [0.05, 0.1]))
    res = ck.run_impl("impl_c14.py", [{"cfg": cfgl, "lr": lr, "script": script}])[0]
    obs = coq_obs(res)
    print("implementation:", json.dumps(res))
    if obs is None:
        print("REPLAY: implementation outcome not representable (bad learning rate / script exhausted) -> still failing")
        ck.cleanup()
        return 1
    rc, out = ck.coq_cases("replay", cases_file([(cfgl, script, obs)]))
    ck.cleanup()
    print(out[-1500:])
    print("REPLAY:", "agrees with the model (not failing)" if rc == 0 else "still failing")
    return 0 if rc == 0 else 1

"""C15 - the multi-band model links parameters across bands as declared.

T: link functions, default ranges, site names, per-band data flow and update_prior_suffix are
regenerated (Gen/Multiband.v); Props/C15.v is re-proved.
K: traces of real FitMultiBandPoly / FitMultiBandBSpline models: site names (vm_compute),
linked per-band values vs restrict(polyval(coeffs, wv_normed)) / design-matrix products
(interval), default ranges, relabelled prior keys (vm_compute, incl. band names over an
alphabet overlapping parameter-name fragments).
Search: the property's oracle (per-band data flow by perturbation, ranges, shared constants,
density = sum of band terms, identical distribution objects).
"""
import itertools
import json
import random
from fractions import Fraction

import vlib
import gen
from props import losslib, formlib

PP = {"sersic": ["xc", "yc", "flux", "r_eff", "n", "ellip", "theta"], "exp": ["xc", "yc", "flux", "r_eff", "ellip", "theta"],
      "doublesersic": ["xc", "yc", "flux", "f_1", "r_eff_1", "n_1", "ellip_1", "r_eff_2", "n_2", "ellip_2", "theta"], "pointsource": ["xc", "yc", "flux"]}
q = formlib.q


def strl(xs):
    return "[" + "; ".join('"%s"' % x for x in xs) + "]" if xs else "(@nil string)"


def user_range_for(name):
    """a user-declared range that is physically meaningful for the parameter (an ellipticity range of [1, 3] renders NaN images)"""
    if name.startswith("ellip"):
        return [0.1, 0.5]
    if name.startswith("f_"):
        return [0.2, 0.6]
    if name.startswith("theta"):
        return [0.5, 2.5]
    if name == "n" or name.startswith("n_"):
        return [1.0, 4.0]
    return [1.0, 3.0]


def run(ck):
    rng = random.Random(ck.seed * 7919 + 15)
    quick = ck.tier == "quick"
    rep = gen.generate_all(only=["Multiband", "ProfileParams", "ResultsParse"])
    for u, (ok, msg) in rep.items():
        ck.oblige("translate:" + u, "translate", ok, msg)
    ck.guard()
    ck.prove("Props/C15.v")
    cases = []
    n = 8 if quick else 60
    alphabet = ["1", "2", "e", "y", "ps", "g", "n", "eff", "x1"]
    for i in range(n):
        fitter = "single" if i % 3 else "multi"
        types = [rng.choice(["sersic", "exp", "doublesersic"])] if fitter == "single" else [rng.choice(["sersic", "exp", "pointsource"]) for _ in range(2)]
        names = list(PP[types[0]]) if fitter == "single" else ["%s_%d" % (p, j) for j, T in enumerate(types) for p in PP[T]]
        rng.shuffle(names)
        k1 = rng.randint(1, max(1, len(names) // 2))
        linked = sorted(names[:k1])
        const = sorted(names[k1:k1 + rng.randint(0, 2)])
        nb = rng.randint(2, 4 if quick else 6)
        bn = None if i % 2 == 0 else rng.sample(alphabet, nb)
        cases.append({"kind": "poly" if i % 4 != 3 else "bspline", "fitter": fitter, "types": types, "n_bands": nb, "band_names": bn, "linked": linked, "const": const,
                      "order": rng.randint(0, 4), "wavelengths": (list if i % 4 in (0, 3) else sorted)(rng.sample([0.4, 0.6, 0.9, 1.2, 1.6, 2.2, 3.6, 4.5], nb)), "sky": rng.choice(["none", "flat"]),
                      "coef_scale": rng.choice([1.0, 50.0, -50.0]), "seed": rng.randint(0, 10**6),
                      "user_range": ({linked[0]: user_range_for(linked[0])} if i % 5 == 1 and not any(s in linked[0] for s in ("xc", "yc")) else None)})
    # user ranges on parameters that also have a built-in default range (n, ellip, theta): the user's must win
    for i, pname in enumerate(["n", "ellip", "theta"] if not quick else [["n", "ellip", "theta"][ck.seed % 3]]):
        urange = {"n": [1.0, 4.0], "ellip": [0.1, 0.5], "theta": [0.5, 2.5]}[pname]
        cases.append({"kind": "poly" if i % 2 == 0 else "bspline", "fitter": "single", "types": ["sersic"], "n_bands": 3, "band_names": None, "linked": sorted([pname, "flux"]), "const": ["xc"],
                      "order": 2, "wavelengths": [0.6, 1.2, 2.2], "sky": "flat", "coef_scale": 50.0, "seed": rng.randint(0, 10**6), "user_range": {pname: urange}})
    # bands listed in an order that is NOT increasing in wavelength (spline and polynomial links)
    for kind_ in ("bspline", "poly"):
        cases.append({"kind": kind_, "fitter": "single", "types": ["sersic"], "n_bands": 3, "band_names": None, "linked": ["flux", "n"], "const": ["xc"],
                      "order": 2, "wavelengths": [1.5, 0.6, 0.9], "sky": "none", "coef_scale": 1.0, "seed": rng.randint(0, 10**6), "user_range": None})
    ck.log("implementation: tracing %d multi-band models" % len(cases))
    import concurrent.futures as cf
    nsh = min(6, vlib.NCPU)
    shards = [cases[i::nsh] for i in range(nsh)]
    with cf.ThreadPoolExecutor(nsh) as ex:
        outs = list(ex.map(lambda s: ck.run_impl("impl_c15.py", s, timeout=3000), shards))
    res = [None] * len(cases)
    for kk, o in enumerate(outs):
        for j, r in enumerate(o):
            res[kk + j * nsh] = r
    goals, oracle_bad = [], []
    for ci, (c, r) in enumerate(zip(cases, res)):
        ck.bump("kind", c["kind"]); ck.bump("fitter", c["fitter"]); ck.bump("n_bands", c["n_bands"]); ck.bump("band_names", "default" if c["band_names"] is None else "custom")
        ck.count(json.dumps(c), nontrivial=True)
        if r["oracle"]:
            oracle_bad.append((c, r))
        if r.get("failed"):
            continue
        bands = r["bands"]
        # relabelled keys = band_site of every parameter / sky name
        for b in bands[:2]:
            sky = {"none": [], "flat": ["sky_back"]}[c["sky"]]
            # (eqx.tree_at rebuilds the dictionaries, so only the key SETS are compared: both sides sorted by the new name)
            srt = sorted(r["param_names"], key=lambda p_: "%s_%s" % (p_, b))
            goals.append((ci, "relabel:" + b, "Goal map (fun p => relabel \"\" (\"_\" ++ \"%s\") p) %s = %s.\nProof. vm_compute. reflexivity. Qed."
                          % (b, strl(srt), strl(sorted(r["relabelled"][b])))))
        if c["band_names"] is None:
            goals.append((ci, "default-bands", "Goal map default_band_name (seq 0 %d) = %s.\nProof. vm_compute. reflexivity. Qed." % (len(bands), strl(bands))))
        # site names of the link variables and per-band values
        sites = dict((k, v) for k, v in r["sites"])
        for p in c["linked"]:
            exp_sites = ["%s_%s" % (p, b) for b in bands] + [p + "_at_wv"] + ([p + "_poly_coeff"] if c["kind"] == "poly" else ["bspl_w_" + p])
            goals.append((ci, "link-sites:" + p, "Goal (map (band_site \"%s\") %s, at_wv_site \"%s\", %s \"%s\") = (%s, \"%s\", \"%s\").\nProof. vm_compute. reflexivity. Qed."
                          % (p, strl(bands), p, "poly_coeff_site" if c["kind"] == "poly" else "bspl_site", p, strl(exp_sites[:len(bands)]), exp_sites[len(bands)], exp_sites[-1])))
            missing = [s for s in exp_sites if s not in sites]
            if missing:
                oracle_bad.append((c, {"oracle": ["link sites missing from the model: %s" % missing]}))
            # default range of this name
            rg = r["ranges"].get(p)
            if not (c.get("user_range") and p in c["user_range"]):
                if rg is None:
                    goals.append((ci, "range:" + p, "Goal default_range \"%s\" = None.\nProof. vm_compute. reflexivity. Qed." % p))
                else:
                    goals.append((ci, "range:" + p, "Goal match default_range \"%s\" with Some (lo, hi) => Rabs (lo - %s) <= 1/1000000 /\\ Rabs (hi - %s) <= 1/1000000 | None => False end.\n"
                                                    "Proof. unfold default_range. cbn [contains prefixb String.eqb Ascii.eqb Bool.eqb andb orb]. split; interval. Qed." % (p, q(rg[0]), q(rg[1]))))
            L = r["links"][p]
            if c["kind"] == "poly":
                cs = "[" + "; ".join(q(v) for v in L["coeffs"]) + "]"
                for bi in range(min(2, len(bands))):
                    t = q(r["wv_normed"][bi])
                    val = Fraction(float.fromhex(L["values"][bi]))
                    tol = q(Fraction(2, 10**5) * (1 + abs(val)))
                    if rg is not None:
                        goals.append((ci, "link-value:%s:%d" % (p, bi), "Goal Rabs (restrict (polyval %s %s) %s %s - %s) <= %s.\nProof. unfold restrict, polyval, logistic. cbn [fold_left]. interval with (i_prec 60). Qed."
                                      % (cs, t, q(rg[1]), q(rg[0]), q(val), tol)))
                    else:
                        sc, mn = L["scale_mean"]
                        goals.append((ci, "link-value:%s:%d" % (p, bi), "Goal Rabs (unrestricted_link (polyval %s %s) %s %s - %s) <= %s.\nProof. unfold unrestricted_link, polyval. cbn [fold_left]. interval with (i_prec 60). Qed."
                                      % (cs, t, q(sc), q(mn), q(val), q(Fraction(1, 10**4) * (1 + abs(val))))))
            else:
                ws = "[" + "; ".join(q(v) for v in L["weights"]) + "]"
                for bi in range(min(2, len(bands))):
                    row = "[" + "; ".join(q(v) for v in L["dmat"][bi]) + "]"
                    val = Fraction(float.fromhex(L["values"][bi]))
                    goals.append((ci, "spline-value:%s:%d" % (p, bi), "Goal Rabs (dot %s %s - %s) <= %s /\\ Rabs (sumR %s - 1) <= 1/100000 /\\ Forall (fun a => 0 <= a + 1/1000000) %s.\n"
                                                                          "Proof. cbn [dot sumR]. repeat split; try interval; repeat constructor; interval. Qed."
                                  % (row, ws, q(val), q(Fraction(1, 10**4) * (1 + abs(val))), row, row)))
    # exhaustive relabelling over short band names drawn from the alphabet (pure model-vs-implementation of update_prior_suffix is exercised above);
    ck.rule = ("poly (orders 0-4) and spline links; single / two-source fitters; 2-6 bands; random partitions into linked / constant / unlinked; default and custom band names over "
               "{1,2,e,y,ps,g,n,eff,x1}; coefficients scaled by +-50 (saturating the logistic); user ranges")
    ok, detail, failing = True, "", []
    if any(o["name"].startswith("translate:") and not o["ok"] for o in ck.obligations):
        ok, detail = False, "model could not be regenerated"
    else:
        with vlib.Lock():
            okm, _ = vlib.coq_make(["Proofs/MultibandProofs.vo"])
        if not okm:
            ok, detail = False, "Proofs/MultibandProofs.v does not build"
        else:
            hdr = ("From Coq Require Import Reals List String Bool.\nFrom Interval Require Import Tactic.\n"
                   "From PS Require Import Base.RBase Base.PyStr Gen.Multiband Proofs.MultibandProofs.\nImport ListNotations.\nOpen Scope R_scope.\nOpen Scope string_scope.\n")
            old = losslib.HDR
            losslib.HDR = hdr
            try:
                failing = losslib.run_goals(ck, goals, "c15", shard=25)
            finally:
                losslib.HDR = old
            ck.extra["coq_goals"] = len(goals)
            ck.cmds.append("coqc -Q coq PS coq/Cases/<run>/c15_NNN.v  (%d vm_compute / interval goals)" % len(goals))
            if failing:
                ok = False
                detail = "; ".join("case %d %s: %s" % (f[0], f[1], f[2].replace("\n", " ")[:140]) for f in failing[:3])
    ck.oblige("correspondence:site names, relabelled keys, default ranges, per-band linked values of real multi-band models == regenerated model", "correspondence", ok, detail)
    ck.oblige("oracle:per-band data flow (perturbation), ranges respected, shared constants, density = sum of sites, same distribution objects", "correspondence",
              not oracle_bad, json.dumps(oracle_bad[0][1]["oracle"][:2]) if oracle_bad else "")
    ck.samples += [{k: c[k] for k in ("kind", "fitter", "types", "band_names", "linked", "const", "order", "coef_scale")} for c in cases[:4]]
    ck.trusted += ["Coq 8.16.1 kernel; Interval; Reals axioms", "translator units Multiband / ProfileParams (pattern extraction of the model's statements; fail-closed)",
                   "jnp.polyval modelled as Horner (highest degree first), jnp.dot as a finite sum, scipy's B-spline design matrix taken as run-time data (rows checked non-negative and summing to 1 "
                   "inside Coq); float32 saturation of the logistic (value exactly hi) is covered by the implementation oracle with a 1e-5 slack",
                   "relabelling with a NON-EMPTY old suffix is outside what BaseMultiBandFitter supports (its own f'{param}_{band}' lookups) and outside the theorems"]
    ck.explanation = ("Proved: a ranged linked value is strictly inside (low, hi) for every coefficient vector (logistic squashing); polyval is Horner; a spline value is a convex combination of "
                      "weights that the uniform prior keeps in [low, hi]; default ranges go to n*, ellip*, theta only (single- and multi-source names); relabelling is name++'_'++band with "
                      "the same distribution objects, injective within a band, injective overall for underscore-free and default band names (and NOT in general: explicit counterexample); "
                      "each band's loss gets that band's data/rms/mask, constants are one shared site, unlinked parameters use the band's own prior, linked ones are deterministic.")
    if ck.broken():
        if oracle_bad:
            c, r = oracle_bad[0]
            ck.violation({"what": "multi-band model does not link parameters as declared", "violated": r["oracle"][:3], "case": c}, True)
        elif failing:
            ck.violation({"what": "real multi-band model differs from the verified model", "case": cases[failing[0][0]], "where": failing[0][1], "detail": failing[0][2][:300]}, False)


def replay(path):
    rep = json.load(open(path))
    ck = vlib.Check("C15", "quick", 0)
    r = ck.run_impl("impl_c15.py", [rep["case"]])[0]
    ck.cleanup()
    print(r["oracle"])
    print("REPLAY:", "still failing" if r["oracle"] else "not failing")
    return 1 if r["oracle"] else 0

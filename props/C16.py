"""C16 - sky model is the stated constant or plane, added unconvolved.

T: sky formulas, hyper-parameter expressions, grid orientation and the
build_model data flow are regenerated; Props/C16.v is re-proved.
K: 'model' site of real fitters with/without sky, the stand-alone function and
the sky prior hyper-parameters vs the generated Coq definitions (interval).
"""
import json
import random
from fractions import Fraction

import vlib
import gen


def q(h):
    fr = Fraction(float.fromhex(h)) if isinstance(h, str) else Fraction(h)
    return "(%d / %d)" % (fr.numerator, fr.denominator) if fr.numerator >= 0 else "((%d) / %d)" % (fr.numerator, fr.denominator)


def run(ck):
    rng = random.Random(ck.seed * 7919 + 16)
    quick = ck.tier == "quick"
    rep = gen.generate_all(only=["Sky", "Grid", "BuildModel"])
    for u, (ok, msg) in rep.items():
        ck.oblige("translate:" + u, "translate", ok, msg)
    ck.guard()
    ck.prove("Props/C16.v")

    profiles = ["sersic", "doublesersic", "sersic_exp", "sersic_pointsource", "pointsource", "exp", "dev"]
    cases = []
    n = 14 if quick else 120
    for i in range(n):
        fitter = rng.choice(["single", "single", "multi"])
        types = [rng.choice(profiles)] if fitter == "single" else [rng.choice(profiles) for _ in range(rng.randint(1, 3))]
        cases.append({"fitter": fitter, "types": types, "sky": ["none", "flat", "tilted-plane"][i % 3], "suffix": rng.choice(["", "", "_a", "_1"]),
                      "N": rng.choice([5, 6, 7, 8, 9]), "renderer": rng.choice(["pixel", "pixel", "fourier", "hybrid"]),
                      "zero_flux": rng.random() < 0.4, "g": [0.25, -1.5, 3.0, 0.0, 64.0][(i + i // 3) % 5], "e": [0.5, 2.0, 0.125, 1.0][(i // 3) % 4], "seed": rng.randint(0, 10**6)})
    for rend_ in (["fourier"] if quick else ["fourier", "hybrid"]):
        cases.append({"fitter": "multi", "types": ["sersic", "pointsource"], "sky": "tilted-plane", "suffix": ["", "_a"][ck.seed % 2], "N": 9, "renderer": rend_,
                      "zero_flux": False, "g": 0.25, "e": 2.0, "seed": rng.randint(0, 10**6)})
        cases.append({"fitter": "single", "types": ["sersic"], "sky": "tilted-plane", "suffix": "", "N": 8, "renderer": rend_,
                      "zero_flux": False, "g": 0.25, "e": 2.0, "seed": rng.randint(0, 10**6)})
    ck.log("implementation: %d fitters (x2: with / without sky)" % len(cases))
    import concurrent.futures as cf
    nsh = min(6, vlib.NCPU)
    shards = [cases[i::nsh] for i in range(nsh)]
    with cf.ThreadPoolExecutor(nsh) as ex:
        outs = list(ex.map(lambda s: ck.run_impl("impl_c16.py", s), shards))
    res = [None] * len(cases)
    for k, o in enumerate(outs):
        for j, r in enumerate(o):
            res[k + j * nsh] = r

    goals = []
    oracle_bad = []
    site_bad = []
    for c, r in zip(cases, res):
        ck.bump("sky", c["sky"]); ck.bump("fitter", c["fitter"]); ck.bump("renderer", c["renderer"]); ck.bump("N", c["N"])
        ck.count(json.dumps(c), nontrivial=c["sky"] != "none")
        if r["oracle"]:
            oracle_bad.append((c, r))
        want_sites = {"none": [], "flat": ["sky_back"], "tilted-plane": ["sky_back", "sky_x_sl", "sky_y_sl"]}[c["sky"]]
        sky_sfx = c["suffix"] if c["fitter"] == "single" else ""   # multi priors do not suffix their sky parameters
        want = sorted(s + sky_sfx + x for s in want_sites for x in ("", "_base"))
        if r["sites"] != want:
            site_bad.append((c, r["sites"], want))
        N = c["N"]
        sv = r["sky_values"]
        args = {"none": "", "flat": " " + q(sv.get("sky_back", "0x0p+0")),
                "tilted-plane": " %s %s %s" % (q(sv.get("sky_back", "0x0p+0")), q(sv.get("sky_x_sl", "0x0p+0")), q(sv.get("sky_y_sl", "0x0p+0")))}[c["sky"]]
        fn = {"none": "sky_none", "flat": "sky_flat", "tilted-plane": "sky_tilted"}[c["sky"]]
        for (rr, cc, dh, scale) in r["pixels"]:
            tol = Fraction(2, 10**6) * Fraction(scale).limit_denominator(10**6)
            goals.append("Goal Rabs (%s (Xof %d %d) (Yof %d %d) %d %d%s - %s) <= %s. Proof. unfold %s, Xof, Yof, grid_X, grid_Y. interval. Qed."
                         % (fn, rr, cc, rr, cc, N, N, args, q(dh), q(tol), fn))
        # search oracle (property text): the sky prior is Normal(g, e) for the level and Normal(0, e/10) for both slopes
        if c["sky"] != "none":
            hyo = {(h[0][: len(h[0]) - len(sky_sfx)] if sky_sfx else h[0]): h for h in r["hyper"]}
            wanth = {"sky_back": (c["g"], c["e"]), "sky_x_sl": (0.0, c["e"] / 10), "sky_y_sl": (0.0, c["e"] / 10)}
            for nm in want_sites:
                if nm in hyo:
                    lo_, sc_ = float.fromhex(hyo[nm][1]), float.fromhex(hyo[nm][2])
                    if abs(lo_ - wanth[nm][0]) > 1e-6 * (1 + abs(wanth[nm][0])) or abs(sc_ - wanth[nm][1]) > 1e-6 * (1 + abs(wanth[nm][1])):
                        oracle_bad.append((c, {"oracle": ["sky prior of %s is Normal(%r, %r) but the constructor arguments (sky_guess=%r, sky_guess_err=%r) call for Normal(%r, %r)"
                                                          % (nm, lo_, sc_, c["g"], c["e"], wanth[nm][0], wanth[nm][1])]}))
        if c["sky"] == "tilted-plane":
            for (rr, cc, sh) in r["standalone"]:
                goals.append("Goal Rabs (sky_standalone (Xof %d %d) (Yof %d %d) %d %d%s - %s) <= %s. Proof. unfold sky_standalone, Xof, Yof, grid_X, grid_Y. interval. Qed."
                             % (rr, cc, rr, cc, N, N, args, q(sh), q(Fraction(1, 10**5))))
            hy = {(h[0][: len(h[0]) - len(sky_sfx)] if sky_sfx else h[0]): h for h in r["hyper"]}
            for k, nm in enumerate(["sky_back", "sky_x_sl", "sky_y_sl"]):
                if nm in hy:
                    goals.append("Goal Rabs (snd (fst (nth %d (sky_hyper_tilted %s %s) (\"\"%%string, 0, 0))) - %s) <= 1/1000000 /\\ Rabs (snd (nth %d (sky_hyper_tilted %s %s) (\"\"%%string, 0, 0)) - %s) <= 1/1000000."
                                 " Proof. cbn [sky_hyper_tilted nth fst snd]. split; interval. Qed."
                                 % (k, q(c["g"]), q(c["e"]), q(hy[nm][1]), k, q(c["g"]), q(c["e"]), q(hy[nm][2])))
                else:
                    site_bad.append((c, "missing hyper-parameter " + nm, ""))
    ck.rule = ("single/multi fitters x 7 profile types x 3 sky types x suffix x renderer on 5x5..9x9 frames, zero and non-zero flux; per case 7 pixels of "
               "model(with sky)-model(without) + stand-alone function + hyper-parameters as interval goals; non-trivial when a sky is fitted")
    files = {}
    SH = 60
    hdr = ("From Coq Require Import Reals List String ZArith.\nFrom Interval Require Import Tactic.\nFrom PS Require Import Base.RBase Gen.Sky Gen.Grid Proofs.SkyProofs.\n"
           "Import ListNotations.\nOpen Scope R_scope.\n")
    for i in range(0, len(goals), SH):
        files["c16_%03d" % (i // SH)] = hdr + "\n".join(goals[i:i + SH]) + "\n"
    ok, detail = True, ""
    if any(o["name"].startswith("translate:") and not o["ok"] for o in ck.obligations):
        ok, detail = False, "model could not be regenerated"
    else:
        with vlib.Lock():
            okm, lg = vlib.coq_make(["Proofs/SkyProofs.vo"])
        if not okm:
            ok, detail = False, "Proofs/SkyProofs.v does not build"
        else:
            results = ck.coq_cases_parallel(files)
            ck.cmds.append("coqc -Q coq PS coq/Cases/<run>/c16_NNN.v   (%d interval goals)" % len(goals))
            for name, (rc, out) in sorted(results.items()):
                if rc != 0:
                    ok = False
                    err = vlib.first_coq_error(out)
                    detail = "goal failed in %s line %s" % (name, err[1] if err else "?")
    ck.extra["interval_goals"] = len(goals)
    ck.oblige("correspondence:model(with sky)-model(without)==generated sky formula; standalone; hyper-parameters (interval)", "correspondence", ok, detail)
    ck.oblige("correspondence:sky site names and reparam entries", "correspondence", not site_bad, json.dumps(site_bad[0][1:]) if site_bad else "")
    ck.oblige("oracle:sky added = closed form (none / constant / plane about N/2), independent of PSF and sources, prior hyper-parameters = constructor arguments", "correspondence",
              not oracle_bad, json.dumps(oracle_bad[0][1]["oracle"][:2]) if oracle_bad else "")
    ck.samples += [{"case": c, "sky_values": {k: float.fromhex(v) for k, v in r["sky_values"].items()}} for c, r in list(zip(cases, res))[:4]]
    ck.trusted += ["Coq 8.16.1 kernel; Interval tactic (primitive float axioms); Reals axioms",
                   "translator units Sky, Grid, BuildModel (fail-closed pattern extraction of sample(), update_prior, meshgrid, build_model statements)",
                   "numpyro trace/substitute used to read the deterministic 'model' site; float32 evaluation compared at 2e-6 relative"]
    ck.explanation = ("Proved: none=0, flat=back, tilted = back+(col-N/2)xs+(row-N/2)ys on square frames with X=column/Y=row, reduces to flat at zero slopes, equals the "
                      "stand-alone function, enters the model once additively after the scene, independent of the sources; hyper-parameters (g,e),(0,e/10),(0,e/10). "
                      "Non-square frames: both pivots use the number of rows (the renderers are only self-consistent for square images).")
    if ck.broken():
        if oracle_bad:
            c, r = oracle_bad[0]
            ck.violation({"what": "sky contribution differs from the closed form", "violated": r["oracle"], "input": c}, True)
        elif site_bad:
            ck.violation({"what": "sky sites differ from the documented parameters", "input": site_bad[0][0], "observed": site_bad[0][1], "expected": site_bad[0][2]}, True)


def replay(path):
    rep = json.load(open(path))
    ck = vlib.Check("C16", "quick", 0)
    r = ck.run_impl("impl_c16.py", [rep["input"]])[0]
    ck.cleanup()
    print(r["oracle"], r["sites"])
    bad = bool(r["oracle"])
    print("REPLAY:", "still failing" if bad else "not failing")
    return 1 if bad else 0

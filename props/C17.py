"""C17 - sky estimate uses only unmasked border pixels.

T: border slices, concatenation flavour and count expression are regenerated
from priors.estimate_sky; Props/C17.v is re-proved against them.
K: the real estimate_sky / SourceProperties on integer-valued random images
(all small shapes, masks as argument / masked array / via SourceProperties):
count and 2*median compared with the model by a kernel-checked vm_compute
equality; the robust scatter is compared on the implementation side with
astropy's biweight_scale applied to the model's pixel multiset.
"""
import json
import random
import re

import vlib
import gen


def zl(xs):
    return "[" + "; ".join("(%d)" % x if x < 0 else "%d" % x for x in xs) + "]"


def bl(xs):
    return "[" + "; ".join("true" if x else "false" for x in xs) + "]"


def cases_file(rows):
    body = []
    for (c, r) in rows:
        img = "[" + "; ".join(zl(row) for row in c["img"]) + "]"
        if c["mask"] is None:
            msk = "[]"
        else:
            msk = "[" + "; ".join(bl(row) for row in c["mask"]) + "]"
        med = "None" if r["median2"] is None else "Some (%d)" % r["median2"]
        body.append("  (%s, %s, %d, %d, %d, (%s, %d, %s))" % (img, msk, c["H"], c["W"], c["n"], med, r["count"], zl(r["ref_sorted"])))
    return (
        "From Coq Require Import ZArith List Bool.\nFrom PS Require Import Model.EstimateSky.\nImport ListNotations.\nOpen Scope Z_scope.\n"
        "Definition cases : list (list (list Z) * list (list bool) * Z * Z * Z * (option Z * Z * list Z)) := [\n"
        + ";\n".join(body) + "\n].\n"
        "Definition obs_eqb (a b : option Z * Z * list Z) : bool :=\n"
        "  let '(m1, c1, l1) := a in let '(m2, c2, l2) := b in\n"
        "  (match m1, m2 with Some x, Some y => x =? y | None, None => true | _, _ => false end) && (c1 =? c2) &&\n"
        "  ((fix eq (l1 l2 : list Z) := match l1, l2 with [] , [] => true | x :: l1', y :: l2' => (x =? y) && eq l1' l2' | _, _ => false end) l1 l2).\n"
        "Fixpoint failing_from (i : nat) (cs : list (list (list Z) * list (list bool) * Z * Z * Z * (option Z * Z * list Z))) : list nat :=\n"
        "  match cs with [] => [] | (img, msk, H, W, n, o) :: cs' =>\n"
        "    if obs_eqb (observe_sky img msk H W n) o then failing_from (S i) cs' else i :: failing_from (S i) cs' end.\n"
        "Definition failing := Eval vm_compute in failing_from 0 cases.\nPrint failing.\n"
        "Lemma none_failing : failing = []. Proof. reflexivity. Qed.\n"
        "Lemma all_agree : map (fun x => let '(img, msk, H, W, n, _) := x in observe_sky img msk H W n) cases = map snd cases.\n"
        "Proof. vm_compute. reflexivity. Qed.\n")


def make_cases(rng, quick):
    cases = []
    nmax = 3 if quick else 10
    for n in range(1, nmax + 1):
        shapes = [(2 * n + a, 2 * n + b) for a in (1, 2, 4) for b in (1, 3)] + [(2 * n + 1, 2 * n + 1), (2 * n + 6, 2 * n + 2)]
        if not quick:
            shapes += [(2 * n + a, 2 * n + b) for a in range(1, 6) for b in range(1, 6)]
        for (H, W) in shapes:
            for mode in ("none", "arg", "ma", "sp"):
                reps = 1 if quick else 2
                for _ in range(reps):
                    img = [[rng.randint(-50, 50) for _ in range(W)] for _ in range(H)]
                    if mode == "none":
                        mask = None
                    else:
                        dens = rng.choice([0.0, 0.15, 0.5, 0.9])
                        mask = [[1 if rng.random() < dens else 0 for _ in range(W)] for _ in range(H)]
                        if dens == 0.9:
                            # keep at least one unmasked border pixel
                            mask[0][0] = 0
                    cases.append({"H": H, "W": W, "n": n, "img": img, "mask": mask, "mode": mode})
    return cases


def run(ck):
    rng = random.Random(ck.seed * 7919 + 17)
    quick = ck.tier == "quick"
    rep = gen.generate_all(only=["EstimateSky"])
    for u, (ok, msg) in rep.items():
        ck.oblige("translate:" + u, "translate", ok, msg)
    ck.guard()
    proved = ck.prove("Props/C17.v")

    cases = make_cases(rng, quick)
    ck.log("implementation: %d estimate_sky calls" % len(cases))
    res = ck.run_impl("impl_c17.py", cases)
    oracle_bad = [(c, r) for c, r in zip(cases, res) if r["oracle"]]
    for c, r in zip(cases, res):
        ck.bump("mode", c["mode"])
        ck.bump("n", c["n"])
        masked = 0 if c["mask"] is None else sum(map(sum, c["mask"]))
        ck.count(json.dumps([c["H"], c["W"], c["n"], c["img"], c["mask"]]), nontrivial=masked > 0 or c["mode"] == "none")
    ck.rule = ("integer-valued random images for all listed shapes x border widths x mask delivery modes (none / argument / masked array / "
               "SourceProperties); distinct by (shape, n, pixels, mask); non-trivial when a mask with >=1 masked pixel is present or no mask is given")
    ok_model = True
    detail = ""
    first_bad = None
    if proved or True:
        rows = list(zip(cases, res))
        files = {}
        SH = 150
        for i in range(0, len(rows), SH):
            files["c17_%03d" % (i // SH)] = cases_file(rows[i:i + SH])
        ck.cmds.append("coqc -Q coq PS coq/Cases/<run>/c17_NNN.v   (Lemma all_agree by vm_compute)")
        if ck.obligations and any(o["name"] == "translate:EstimateSky" and not o["ok"] for o in ck.obligations):
            ok_model = False
            detail = "model could not be regenerated"
        else:
            with vlib.Lock():
                vlib.coq_make(["Model/EstimateSky.vo"])
            results = ck.coq_cases_parallel(files)
            bad = []
            for name, (rc, out) in sorted(results.items()):
                if rc != 0:
                    m = re.search(r"failing\s*=\s*\[([^\]]*)\]", out.replace("\n", " "))
                    idxs = [int(x.replace("%nat", "")) for x in m.group(1).split(";") if x.strip()] if m else []
                    base = int(name.split("_")[1]) * SH
                    bad += [base + i for i in idxs] or [None]
            if bad:
                ok_model = False
                detail = "%d cases disagree with Model.EstimateSky.observe_sky" % len(bad)
                idx = [b for b in bad if b is not None]
                if idx:
                    first_bad = rows[min(idx, key=lambda i: rows[i][0]["H"] * rows[i][0]["W"])]
    ck.oblige("correspondence:estimate_sky==Model.EstimateSky.observe_sky (count, 2*median, pixel multiset)", "correspondence", ok_model, detail)
    ck.oblige("correspondence:scatter==astropy.biweight_scale(model multiset); SourceProperties inherits", "correspondence",
              not any("scatter" in x or "SourceProperties" in x for _, r in oracle_bad for x in r["oracle"]),
              "; ".join(oracle_bad[0][1]["oracle"]) if oracle_bad else "")
    ck.oblige("oracle:estimate uses exactly the unmasked border pixels, invariant under interior / masked changes (brute force)", "correspondence",
              not oracle_bad, "; ".join(oracle_bad[0][1]["oracle"][:2]) if oracle_bad else "")
    for c, r in list(zip(cases, res))[:2] + list(zip(cases, res))[-2:]:
        ck.samples.append({"H": c["H"], "W": c["W"], "n": c["n"], "mode": c["mode"],
                           "masked_pixels": None if c["mask"] is None else sum(map(sum, c["mask"])),
                           "count": r["count"], "median2": r["median2"], "std": r["std"]})
    ck.trusted += [
        "Coq 8.16.1 kernel; vm_compute for correspondence equalities",
        "translator unit EstimateSky (tools/gen.py): slice bounds, np.concatenate vs np.ma.concatenate, count expression",
        "numpy semantics modelled: basic slicing (Base/PySlice.v), np.ma.concatenate keeps masks / np.concatenate drops them, np.ma.median and astropy biweight_scale ignore masked entries - each exercised by the correspondence",
    ]
    ck.explanation = ("Proved for all H,W>=2n, n>=1 and all images/masks: gathered pixels = pixels within n of an edge, each once, "
                      "H*W-(H-2n)(W-2n) of them; the value multiset behind median/scatter depends only on unmasked border pixels; count = border - masked border.")
    if ck.broken():
        # search: the property's own oracle on the implementation
        if oracle_bad:
            c, r = min(oracle_bad, key=lambda cr: cr[0]["H"] * cr[0]["W"])
            ck.violation({"what": "estimate_sky violates the property's oracle on this input", "violated": r["oracle"],
                          "input": c, "returned": {k: r[k] for k in ("median2", "count", "std")}}, True)
        elif first_bad is not None:
            c, r = first_bad
            ck.violation({"what": "estimate_sky disagrees with the verified model, but the property's numeric oracle found no violated clause",
                          "input": c, "returned": {k: r[k] for k in ("median2", "count", "std")}}, False)


def replay(path):
    rep = json.load(open(path))
    ck = vlib.Check("C17", "quick", 0)
    r = ck.run_impl("impl_c17.py", [rep["input"]])[0]
    ck.cleanup()
    print(json.dumps(r)[:600])
    print("REPLAY:", "still failing: " + "; ".join(r["oracle"]) if r["oracle"] else "oracle satisfied (not failing)")
    return 1 if r["oracle"] else 0

"""C18 - inconsistent inputs are rejected, consistent inputs ingested faithfully.

T: validation steps (ordered conditions with the KIND of shape comparison),
renderer-side PSF test, ingestion plan and mask polarity are regenerated from
the source; Props/C18.v is re-proved against them.
K: the property's sweep on the real constructors - outcome enum compared with
the model by a kernel-checked vm_compute equality; stored arrays compared
bit-for-bit on the implementation side.
"""
import json
import random
import re

import vlib
import gen

EXN = {"accepted": "None", "ShapeMatchError": "Some ShapeMatchError", "ValueError": "Some ValueError",
       "KernelError": "Some KernelError", "AssertionError": "Some AssertionError"}


def zl(xs):
    return "[" + "; ".join(str(int(x)) for x in xs) + "]"


def coq_case(c, r):
    if r["outcome"] not in EXN:
        return None
    mask = zl(c["mask"]) if c["mask"] is not None else "[]"
    inp = ("{| shape := fun a => match a with Data => %s | Rms => %s | Psf => %s | Mask => %s | Im => %s end; "
           "has_neg := fun a => match a with Rms => %s | _ => false end; mask_given := %s |}"
           % (zl(c["data"]), zl(c["rms"]), zl(c["psf"]), mask, zl(c["data"]),
              "true" if c["neg"] is not None else "false", "true" if c["mask"] is not None else "false"))
    fn = "fitter_outcome" if c["kind"] == "fitter" else "renderer_outcome"
    return "(%s %s, %s)" % (fn, inp, EXN[r["outcome"]])


def cases_file(pairs):
    return (
        "From Coq Require Import ZArith List Bool.\nFrom PS Require Import Base.InputModel Gen.InputChecks Model.InputChecks.\n"
        "Import ListNotations.\nOpen Scope Z_scope.\n"
        "Definition exn_eqb (a b : option exn) : bool := match a, b with None, None => true | Some ShapeMatchError, Some ShapeMatchError => true "
        "| Some ValueError, Some ValueError => true | Some KernelError, Some KernelError => true | Some AssertionError, Some AssertionError => true | _, _ => false end.\n"
        "Definition cases : list (option exn * option exn) := [\n  " + ";\n  ".join(pairs) + "\n].\n"
        "Fixpoint failing_from (i : nat) (cs : list (option exn * option exn)) : list nat :=\n"
        "  match cs with [] => [] | (a, b) :: cs' => if exn_eqb a b then failing_from (S i) cs' else i :: failing_from (S i) cs' end.\n"
        "Definition failing := Eval vm_compute in failing_from 0 cases.\nPrint failing.\n"
        "Lemma none_failing : failing = []. Proof. reflexivity. Qed.\n"
        "Lemma all_agree : map fst cases = map snd cases. Proof. vm_compute. reflexivity. Qed.\n")


def make_cases(rng, quick):
    cases = []
    sizes = [8, 24, 40] if quick else [8, 16, 24, 32, 40]
    deltas = [(a, b) for a in (-1, 0, 1) for b in (-1, 0, 1)]

    def base(N):
        return {"kind": "fitter", "data": [N, N], "rms": [N, N], "psf": [5, 5], "mask": [N, N], "neg": None,
                "maskdtype": rng.choice(["bool", "int", "float"]), "jax": rng.random() < 0.3,
                "renderer": rng.choice(["pixel", "pixel", "hybrid", "fourier"]), "fitter": rng.choice(["single", "single", "multi"]),
                "seed": rng.randint(0, 10**6)}

    for N in sizes:
        for (a, b) in deltas:
            c = base(N); c["rms"] = [N + a, N + b]; cases.append(c)
            c = base(N); c["mask"] = [N + a, N + b]; cases.append(c)
            # PSF sizes around the image size, square and non-square
            c = base(N); c["psf"] = [N + a, N + b]; cases.append(c)
            c = base(N); c["psf"] = [N + a, N + b]; c["mask"] = None; cases.append(c)
            c = base(N); c["kind"] = "renderer"; c["psf"] = [N + a, N + b]; cases.append(c)
        # single negative rms pixel at several positions
        for _ in range(3 if quick else 10):
            c = base(N); c["neg"] = [rng.randrange(N), rng.randrange(N)]; cases.append(c)
        # joint faults (order of the checks)
        for _ in range(4 if quick else 16):
            c = base(N)
            if rng.random() < 0.5: c["rms"] = [N + rng.choice([-1, 0, 1]), N + rng.choice([-1, 0, 1])]
            if rng.random() < 0.5 and c["rms"] == [N, N]: c["neg"] = [rng.randrange(N), rng.randrange(N)]
            if rng.random() < 0.5: c["psf"] = [N + rng.choice([-1, 0, 1]), N + rng.choice([-1, 0, 1])]
            if rng.random() < 0.5: c["mask"] = [N + rng.choice([-1, 0, 1]), N + rng.choice([-1, 0, 1])]
            if rng.random() < 0.2: c["mask"] = None
            cases.append(c)
        # consistent random inputs
        for _ in range(3 if quick else 12):
            c = base(N); c["psf"] = [rng.choice([1, 3, 4, 7]), rng.choice([1, 3, 4, 7])]
            c["psf"][1] = c["psf"][0] if rng.random() < 0.7 else c["psf"][1]
            if rng.random() < 0.3: c["mask"] = None
            cases.append(c)
    return cases


def classify(c):
    N = c["data"][0]
    faults = []
    if c["kind"] == "fitter":
        if c["rms"] != c["data"]: faults.append("rms-shape")
        if c["neg"] is not None: faults.append("neg-rms")
        if c["mask"] is not None and c["mask"] != c["data"]: faults.append("mask-shape")
    if c["psf"][0] > N or c["psf"][1] > N: faults.append("psf-large")
    return "+".join(faults) or "consistent"


def expected_by_property(c):
    """the property text, read directly (independent of the Coq model)"""
    if c["kind"] == "renderer":
        return "KernelError" if (c["psf"][0] > c["data"][0] or c["psf"][1] > c["data"][1]) else "accepted"
    if c["rms"] != c["data"]:
        return "ShapeMatchError"
    if c["neg"] is not None:
        return "ValueError"
    if c["psf"][0] > c["data"][0] or c["psf"][1] > c["data"][1]:
        return "KernelError"
    if c["mask"] is not None and c["mask"] != c["data"]:
        return "ShapeMatchError"
    return "accepted"


def run(ck):
    rng = random.Random(ck.seed * 7919 + 18)
    quick = ck.tier == "quick"
    rep = gen.generate_all(only=["InputChecks"])
    for u, (ok, msg) in rep.items():
        ck.oblige("translate:" + u, "translate", ok, msg)
    ck.guard()
    ck.prove("Props/C18.v")

    cases = make_cases(rng, quick)
    ck.log("implementation: %d constructor calls" % len(cases))
    # shard over processes (renderer construction is the cost)
    import concurrent.futures as cf
    nsh = min(8, vlib.NCPU)
    shards = [cases[i::nsh] for i in range(nsh)]
    with cf.ThreadPoolExecutor(nsh) as ex:
        outs = list(ex.map(lambda s: ck.run_impl("impl_c18.py", s), shards))
    res = [None] * len(cases)
    for k, o in enumerate(outs):
        for j, r in enumerate(o):
            res[k + j * nsh] = r
    pairs, idxmap = [], []
    ingest_bad, prop_bad = [], []
    for i, (c, r) in enumerate(zip(cases, res)):
        cls = classify(c)
        ck.bump("fault_class", cls)
        ck.bump("outcome", r["outcome"])
        ck.bump("renderer", c["renderer"])
        ck.count(json.dumps([c["kind"], c["data"], c["rms"], c["psf"], c["mask"], c["neg"] is not None]), nontrivial=cls != "consistent" or c["kind"] == "fitter")
        t = coq_case(c, r)
        if t is None:
            prop_bad.append((c, r, "unexpected exception class"))
            continue
        pairs.append(t); idxmap.append(i)
        if r["ingest"]:
            ingest_bad.append((c, r))
        want = expected_by_property(c)
        if r["outcome"] != want:
            prop_bad.append((c, r, "property expects %s" % want))
    ck.rule = ("sweep: square data sizes x rms/mask/PSF shapes differing by -1/0/+1 per axis, a negative rms pixel at random positions, joint faults, "
               "numpy and jax inputs, bool/int/float masks, three renderers, single/multi fitters and bare renderers; distinct by "
               "(kind, shapes, negative?); non-trivial = any fitter case or a faulty renderer case")
    ok_model, detail, first = True, "", None
    if not any(o["name"].startswith("translate:") and not o["ok"] for o in ck.obligations):
        with vlib.Lock():
            okp, _ = vlib.coq_make(["Model/InputChecks.vo"])
        if okp:
            rc, out = ck.coq_cases("c18_cases", cases_file(pairs))
            ck.cmds.append("coqc -Q coq PS coq/Cases/<run>/c18_cases.v   (Lemma all_agree by vm_compute)")
            if rc != 0:
                ok_model = False
                m = re.search(r"failing\s*=\s*\[([^\]]*)\]", out.replace("\n", " "))
                idxs = [int(x.replace("%nat", "")) for x in m.group(1).split(";") if x.strip()] if m else []
                detail = "%d outcomes disagree with the model" % len(idxs) if idxs else out[-600:]
                if idxs:
                    first = (cases[idxmap[idxs[0]]], res[idxmap[idxs[0]]])
        else:
            ok_model, detail = False, "model side (Model/InputChecks.v) does not build"
    else:
        ok_model, detail = False, "model could not be regenerated"
    ck.oblige("correspondence:constructor outcome==fitter_outcome/renderer_outcome", "correspondence", ok_model, detail)
    ck.oblige("correspondence:stored arrays bit-for-bit float32, mask inverted", "correspondence", not ingest_bad,
              json.dumps(ingest_bad[0][1]["ingest"]) if ingest_bad else "")
    ck.oblige("oracle:documented exception for every inconsistent input, acceptance of every consistent one (property text)", "correspondence",
              not prop_bad, json.dumps([prop_bad[0][2], prop_bad[0][1].get("outcome") if isinstance(prop_bad[0][1], dict) else str(prop_bad[0][1])], default=str)[:300] if prop_bad else "")
    for c, r in list(zip(cases, res))[:3] + list(zip(cases, res))[-2:]:
        ck.samples.append({"case": {k: c[k] for k in ("kind", "data", "rms", "psf", "mask", "neg", "maskdtype", "jax", "renderer", "fitter")}, "outcome": r["outcome"]})
    ck.trusted += [
        "Coq 8.16.1 kernel; vm_compute for the correspondence equality",
        "translator unit InputChecks: recognises the validation statements, classifies each shape comparison as tuple-lexicographic or per-axis, extracts the ingestion plan; fail-closed on anything else",
        "CPython tuple comparison modelled by lex_lt (Base/InputModel.v); float32 rounding abstract (round32); bit-exact storage checked on the implementation side only",
    ]
    ck.explanation = ("Proved over the regenerated steps: rms-shape / negative-rms / PSF-larger-on-either-axis / mask-shape faults raise their documented exception "
                      "(first match in program order), consistent inputs are accepted, the renderer's own test rejects iff some axis is smaller than the PSF, "
                      "stored arrays are the pointwise float32 image of the same-named argument and the mask is stored as logical_not(marked).")
    if ck.broken():
        if prop_bad:
            c, r, why = min(prop_bad, key=lambda x: x[0]["data"][0])
            ck.violation({"what": "constructor outcome contradicts the property", "why": why, "input": c, "outcome": r["outcome"]}, True)
        elif ingest_bad:
            c, r = ingest_bad[0]
            ck.violation({"what": "accepted input not stored faithfully", "problems": r["ingest"], "input": c}, True)
        elif first:
            ck.violation({"what": "constructor outcome differs from the model but matches the property text", "input": first[0], "outcome": first[1]["outcome"]}, False)


def replay(path):
    rep = json.load(open(path))
    ck = vlib.Check("C18", "quick", 0)
    r = ck.run_impl("impl_c18.py", [rep["input"]])[0]
    ck.cleanup()
    want = expected_by_property(rep["input"])
    bad = r["outcome"] != want or bool(r["ingest"])
    print("outcome:", r["outcome"], "property expects:", want, "ingest problems:", r["ingest"])
    print("REPLAY:", "still failing" if bad else "not failing")
    return 1 if bad else 0

"""C19 - post-processing wraps only angles and drops only internal variables.

T: the three name predicates and the wrap expression are regenerated from
results._parse_injested_data; Props/C19.v is re-proved (arbitrary suffixes).
K: the real routine on an xarray stand-in over name sets generated from every
fitter configuration; per-name fate compared by vm_compute, wrapped values
checked in Coq by `interval` (in [0,pi), congruent to the input modulo pi).
"""
import json
import math
import random
import re
from fractions import Fraction

import vlib
import gen

PROFILES = {
    "sersic": ["xc", "yc", "flux", "r_eff", "n", "ellip", "theta"],
    "doublesersic": ["xc", "yc", "flux", "f_1", "r_eff_1", "n_1", "ellip_1", "r_eff_2", "n_2", "ellip_2", "theta"],
    "sersic_exp": ["xc", "yc", "flux", "f_1", "r_eff_1", "ellip_1", "r_eff_2", "n", "ellip_2", "theta"],
    "sersic_pointsource": ["xc", "yc", "flux", "f_ps", "r_eff", "n", "ellip", "theta"],
    "pointsource": ["xc", "yc", "flux"],
    "exp": ["xc", "yc", "flux", "r_eff", "ellip", "theta"],
    "dev": ["xc", "yc", "flux", "r_eff", "ellip", "theta"],
}
SKY = {"none": [], "flat": ["sky_back"], "tilted-plane": ["sky_back", "sky_x_sl", "sky_y_sl"]}
LOSS = {"gaussian": [], "w_frac": ["frac_rms_increase"], "w_sys": ["sys_rms_base", "sys_rms"],
        "mixture": ["outlier_frac_base", "outlier_frac"], "mixture_frac": ["outlier_frac_base", "outlier_frac", "rms_frac"]}
FATE = {"kept_unchanged": "KeptUnchanged", "kept_changed": "KeptWrapped", "dropped": "Dropped", "models": "ToModels",
        "models_changed": "ToModelsWrapped"}


def gen_names(rng):
    """site names of one fitter configuration"""
    kind = rng.choice(["single", "multi", "mb_poly", "mb_bspl", "mb_multi"])
    sfx = rng.choice(["", "", "_a", "_x1", "_g"])
    names = []
    sky = SKY[rng.choice(list(SKY))]
    loss = LOSS[rng.choice(list(LOSS))]
    if kind == "single":
        pr = PROFILES[rng.choice(list(PROFILES))]
        base = [p + sfx for p in pr + sky]
        names += base + [b + "_base" for b in base] + [l + sfx for l in loss] + ["model" + sfx]
        if rng.random() < 0.3:
            names += [b + "_auto_loc" for b in base[:3]]
    elif kind == "multi":
        for i in range(rng.randint(1, 4)):
            pr = PROFILES[rng.choice(list(PROFILES))]
            names += ["%s_%d%s" % (p, i, sfx) for p in pr]
        names += [s + sfx for s in sky] + [l + sfx for l in loss] + ["model" + sfx]
        names += [n + "_base" for n in names[:6]]
    else:
        bands = rng.choice([["Band_0", "Band_1", "Band_2"], ["g", "r"], ["f115w", "f200w", "f444w"], ["1", "2"], ["e", "y", "ps"]])
        multi = kind == "mb_multi"
        params = []
        if multi:
            for i in range(2):
                params += ["%s_%d" % (p, i) for p in PROFILES[rng.choice(["sersic", "exp", "pointsource"])]]
        else:
            params = list(PROFILES[rng.choice(["sersic", "doublesersic", "sersic_exp", "exp"])])
        linked = [p for p in params if rng.random() < 0.5]
        const = [p for p in params if p not in linked and rng.random() < 0.3]
        for p in linked:
            names += ["%s_%s" % (p, b) for b in bands] + [p + "_at_wv"]
            if kind == "mb_bspl":
                names += ["bspl_w_" + p, "bspl_w_" + p + "_base"]
            else:
                names += [p + "_poly_coeff"]
        names += const + [c + "_base" for c in const]
        for p in params:
            if p not in linked and p not in const:
                names += ["%s_%s" % (p, b) for b in bands] + ["%s_%s_base" % (p, b) for b in bands]
        for b in bands:
            names += ["%s_%s" % (s, b) for s in sky] + ["%s_%s" % (l, b) for l in loss]
        names += ["model"]
    seen, out = set(), []
    for n in names:
        if n not in seen:
            seen.add(n); out.append(n)
    return kind, out


def hex_to_q(h):
    f = float.fromhex(h)
    fr = Fraction(f)
    return fr


def coq_q(fr):
    return "(%d / %d)" % (fr.numerator, fr.denominator) if fr.numerator >= 0 else "((%d) / %d)" % (fr.numerator, fr.denominator)


def run(ck):
    rng = random.Random(ck.seed * 7919 + 19)
    quick = ck.tier == "quick"
    rep = gen.generate_all(only=["ResultsParse", "ProfileParams"])
    for u, (ok, msg) in rep.items():
        ck.oblige("translate:" + u, "translate", ok, msg)
    ck.guard()
    ck.prove("Props/C19.v")

    ncase = 40 if quick else 400
    cases, kinds = [], []
    for _ in range(ncase):
        kind, names = gen_names(rng)
        kinds.append(kind)
        cases.append({"names": names, "nchain": rng.randint(1, 4), "ndraw": rng.randint(2, 6), "purge": rng.random() < 0.85, "seed": rng.randint(0, 10**6)})
    ck.log("implementation: %d ingestion runs" % len(cases))
    res = ck.run_impl("impl_c19.py", cases)

    rows, meta, pairs = [], [], []
    prop_bad = []
    for c, r, kind in zip(cases, res, kinds):
        ck.bump("configuration", kind)
        for n in c["names"]:
            f = r["fates"][n]
            ck.bump("fate", f)
            ck.count(json.dumps([n, c["purge"]]), nontrivial=True)
            rows.append('(%s, "%s", %s)' % ("true" if c["purge"] else "false", n, FATE[f]))
            meta.append((c, n, f))
            # the property, read directly: angle = name is theta optionally followed by _<...> but not a link variable
            is_link = n.endswith("_poly_coeff") or n.startswith("bspl_w_")
            is_internal = any(w in n for w in ("base", "auto", "unwrapped"))
            is_angle = (n == "theta" or n.startswith("theta_")) and not is_link
            if c["purge"] and is_internal:
                want = "dropped"
            elif c["purge"] and n.startswith("model"):
                want = "models"
            elif is_angle:
                want = "kept_changed"
            else:
                want = "kept_unchanged"
            if f != want:
                prop_bad.append({"name": n, "purge": c["purge"], "observed": f, "property_expects": want, "names": c["names"], "seed": c["seed"],
                                 "nchain": c["nchain"], "ndraw": c["ndraw"]})
        for n, pl in r["pairs"].items():
            for (xh, yh) in pl:
                pairs.append((n, xh, yh))
    ck.rule = ("variable-name sets of single / multi-source / multi-band (poly, spline, multi-source) configurations with profile, sky, loss, "
               "reparam (_base), autoguide and link variables, 1-4 chains, values uniform in [-100,100]; distinct by (name, purge flag)")
    ok_model, detail, bad_idx = True, "", []
    if not any(o["name"].startswith("translate:") and not o["ok"] for o in ck.obligations):
        with vlib.Lock():
            okm, _ = vlib.coq_make(["Model/ResultsParse.vo"])
        if okm:
            text = ("From Coq Require Import String List Bool.\nFrom PS Require Import Base.PyStr Gen.ResultsParse Model.ResultsParse.\nImport ListNotations.\nOpen Scope string_scope.\n"
                    "Definition cases : list (bool * string * fate) := [\n  " + ";\n  ".join(rows) + "\n].\n"
                    "Fixpoint failing_from (i : nat) (cs : list (bool * string * fate)) : list nat :=\n"
                    "  match cs with [] => [] | (p, n, f) :: cs' => if fate_eqb (fate_of p n) f then failing_from (S i) cs' else i :: failing_from (S i) cs' end.\n"
                    "Definition failing := Eval vm_compute in failing_from 0 cases.\nPrint failing.\n"
                    "Lemma none_failing : failing = []. Proof. reflexivity. Qed.\n"
                    "Lemma all_agree : map (fun c => fate_of (fst (fst c)) (snd (fst c))) cases = map snd cases. Proof. vm_compute. reflexivity. Qed.\n")
            rc, out = ck.coq_cases("c19_names", text)
            ck.cmds.append("coqc -Q coq PS coq/Cases/<run>/c19_names.v (vm_compute) ; c19_wrap_N.v (interval)")
            if rc != 0:
                ok_model = False
                m = re.search(r"failing\s*=\s*\[([^\]]*)\]", out.replace("\n", " "))
                bad_idx = [int(x.replace("%nat", "")) for x in m.group(1).split(";") if x.strip()] if m else []
                detail = ("%d names disagree, e.g. %s" % (len(bad_idx), [meta[i][1:] for i in bad_idx[:5]])) if bad_idx else out[-500:]
        else:
            ok_model, detail = False, "Model/ResultsParse.v does not build"
    else:
        ok_model, detail = False, "model could not be regenerated"
    ck.oblige("correspondence:per-variable fate==Model.ResultsParse.fate_of", "correspondence", ok_model, detail)

    # wrapped values, in Coq by interval
    wrap_ok, wdetail = True, ""
    use = pairs[: (60 if quick else 600)]
    if use and ok_model:
        goals = []
        for j, (n, xh, yh) in enumerate(use):
            x, y = hex_to_q(xh), hex_to_q(yh)
            k = round((float(y) - float(x)) / math.pi)
            goals.append("Goal (0 <= %s < PI /\\ Rabs (%s - (%s + IZR (%d) * PI)) <= 1 / 1000000000)%%R. Proof. split; [split; interval | interval]. Qed. (* %s *)"
                         % (coq_q(y), coq_q(y), coq_q(x), k, n))
        files = {}
        SH = 40
        for i in range(0, len(goals), SH):
            files["c19_wrap_%02d" % (i // SH)] = ("From Coq Require Import Reals.\nFrom Interval Require Import Tactic.\nOpen Scope R_scope.\n" + "\n".join(goals[i:i + SH]) + "\n")
        results = ck.coq_cases_parallel(files)
        for name, (rc, out) in results.items():
            if rc != 0:
                wrap_ok = False
                err = vlib.first_coq_error(out)
                wdetail = "interval goal failed in %s: %s" % (name, (err[2] if err else out[-300:]))
        for (n, xh, yh) in use:
            ck.count(json.dumps(["wrap", xh]), nontrivial=True)
    ck.oblige("correspondence:wrapped value in [0,pi) and congruent mod pi (interval)", "correspondence", wrap_ok, wdetail)
    ck.oblige("oracle:angles wrapped into [0,pi), every other variable bit-identical, internals dropped (property text)", "correspondence",
              not prop_bad, json.dumps({k: prop_bad[0][k] for k in ("name", "purge", "observed", "property_expects")}, default=str)[:300] if prop_bad else "")
    ck.samples += [{"name": m[1], "purge": m[0]["purge"], "fate": m[2]} for m in meta[:6]]
    if use:
        ck.samples.append({"wrapped": use[0][0], "x": float.fromhex(use[0][1]), "y": float.fromhex(use[0][2])})
    ck.trusted += [
        "Coq 8.16.1 kernel; vm_compute; Interval's `interval` tactic (primitive floats/ints axioms listed by Print Assumptions of the goals)",
        "translator unit ResultsParse (name predicates as and/or/not of `'lit' in var`, wrap expression) and ProfileParams",
        "CPython substring test modelled by Base/PyStr.contains; xarray stand-in for arviz.InferenceData (the pinned arviz cannot run az.from_dict); np.remainder modelled as a - b*floor(a/b)",
    ]
    ck.explanation = ("Proved for every suffix of the form '' or '_'+anything: theta+suffix is wrapped (unless the suffix itself carries a link/internal marker); every other "
                      "profile/sky/loss parameter + marker-free suffix is untouched; *_poly_coeff and bspl_w_* are untouched; *_base/_auto_loc/unwrapped are dropped; model* goes "
                      "to .models unwrapped; the wrapped value is in [0,pi) and congruent modulo pi.  Band names / suffixes containing theta|base|auto|unwrapped|model|poly_coeff|bspl_w "
                      "are excluded by explicit hypotheses.")
    if ck.broken():
        if prop_bad:
            b = min(prop_bad, key=lambda b: len(b["names"]))
            ck.violation({"what": "ingestion treats a variable differently from what the property states", **b}, True)
        elif bad_idx:
            c, n, f = meta[bad_idx[0]]
            ck.violation({"what": "fate differs from the model but agrees with the property text", "name": n, "observed": f}, False)


def replay(path):
    rep = json.load(open(path))
    ck = vlib.Check("C19", "quick", 0)
    r = ck.run_impl("impl_c19.py", [{"names": rep["names"], "nchain": rep["nchain"], "ndraw": rep["ndraw"], "purge": rep["purge"], "seed": rep["seed"]}])[0]
    ck.cleanup()
    f = r["fates"][rep["name"]]
    print("variable %s: observed %s, property expects %s" % (rep["name"], f, rep["property_expects"]))
    bad = f != rep["property_expects"]
    print("REPLAY:", "still failing" if bad else "not failing")
    return 1 if bad else 0

"""C20 - renderer construction options trade accuracy and cost, never meaning.

T: box bounds / sub-sampling wiring (PixelBox), hybrid split (Amps) regenerated;
the Gauss-Legendre table is dumped from the running implementation; Props/C20.v
is re-proved (box = [N/2-os, N/2+os)^2 for all N, os; GL exactness certificate
for m = 1..16; partition; m = 0 identical to Fourier).
K: exact per-pixel class maps of real PixelRenderers (quadratic marker profile)
vs the model for all N <= Nmax, os <= N/2; hybrid index sets (vm_compute).
Search: the property's image-level oracle.
"""
import json
import random
import re

import vlib
import gen


def run(ck):
    rng = random.Random(ck.seed * 7919 + 20)
    quick = ck.tier == "quick"
    rep = gen.generate_all(only=["PixelBox", "GLTable", "Amps"])
    for u, (ok, msg) in rep.items():
        ck.oblige("translate:" + u, "translate", ok, msg)
    ck.guard()
    ck.prove("Props/C20.v")
    cases = []
    Ns = [4, 5, 6, 7, 8, 10, 11, 12] if quick else list(range(2, 25))
    for N in Ns:
        for osz in range(0, N // 2 + 1):
            for m in ([2, 5] if quick else [1, 2, 3, 7, 12, 16]):
                if quick and (osz + N + m) % 2:
                    continue
                cases.append({"mode": "box", "N": N, "os": osz, "num_os": m})
    for ns in ([3, 15] if quick else [3, 5, 15, 20]):
        for m in range(0, ns + 1, 1 if ns <= 5 else 5):
            cases.append({"mode": "hybrid", "n_sigma": ns, "m": m})
    nim = 3 if quick else 24
    for i in range(nim):
        N = rng.choice([32, 33, 40])
        osz = rng.choice([2, 4, 6])
        # source centre outside the box so that the integrand is smooth there
        off = osz + rng.uniform(3, 6)
        p = {"xc": N // 2 + off, "yc": N // 2 - rng.uniform(0, 2), "flux": 100.0, "r_eff": rng.uniform(2.5, 4), "n": rng.uniform(0.8, 2), "ellip": rng.uniform(0, 0.5), "theta": rng.uniform(0, 3)}
        cases.append({"mode": "image", "what": "pixel", "N": N, "os": osz, "num_os": rng.choice([3, 5, 8, 12, 16]), "params": p})
    for i in range(1 if quick else 6):
        N = 64
        p = {"xc": N / 2 + rng.uniform(-1, 1), "yc": N / 2 + rng.uniform(-1, 1), "flux": 100.0, "r_eff": rng.uniform(2, 5), "n": rng.uniform(0.8, 4), "ellip": rng.uniform(0, 0.6), "theta": rng.uniform(0, 3)}
        cases.append({"mode": "image", "what": "hybrid", "N": N, "params": p, "ms": [0, 1, 3, 7, 11, 15] if not quick else [0, 3, 8]})
    # witness of the recorded finding (known_findings.json, C20-nsigma-low-n): rendered on every run
    kf = [f for f in vlib.load_known_findings()["findings"] if f.get("property") == "C20" and f.get("id") == "C20-nsigma-low-n"]
    for f in kf:
        cases.append(dict(f["witness"], known_witness=True))
    ck.log("implementation: %d renderer constructions" % len(cases))
    import concurrent.futures as cf
    nsh = min(8, vlib.NCPU)
    shards = [cases[i::nsh] for i in range(nsh)]
    with cf.ThreadPoolExecutor(nsh) as ex:
        outs = list(ex.map(lambda s: ck.run_impl("impl_c20.py", s, timeout=2400), shards))
    res = [None] * len(cases)
    for kk, o in enumerate(outs):
        for j, r in enumerate(o):
            res[kk + j * nsh] = r
    rows, hyb = [], []
    oracle_bad = []
    known_hits = []
    for c, r in zip(cases, res):
        ck.bump("mode", c["mode"])
        ck.count(json.dumps(c), nontrivial=not (c["mode"] == "box" and c["os"] == 0))
        if r.get("oracle"):
            # recorded finding: the n_sigma clause fails on the real code for low Sersic index (only that
            # clause, only n below the recorded bound, only deviations below the recorded size)
            rest = list(r["oracle"])
            for f in kf:
                a = f["applies"]
                if c.get("what") == "hybrid" and c["params"]["n"] < a["n_below"]:
                    hit = [m for m in rest if m.startswith("n_sigma=") and max(r.get("nsigma_dev", {"": 1.0}).values()) < a["deviation_below"]]
                    if hit:
                        rest = [m for m in rest if m not in hit]
                        known_hits.append((c, hit))
            if rest:
                oracle_bad.append((c, dict(r, oracle=rest)))
        if c["mode"] == "box":
            if any(v == 2 for row in r["class"] for v in row):
                oracle_bad.append((c, {"oracle": ["a pixel is neither point-sampled nor box-integrated with the rule's weights"]}))
            # search oracle (property text): box = rows/columns [N//2-os, N//2+os)
            N_, o_ = c["N"], c["os"]
            want = [[1 if (N_ // 2 - o_ <= rr < N_ // 2 + o_ and N_ // 2 - o_ <= cc < N_ // 2 + o_) else 0 for cc in range(N_)] for rr in range(N_)]
            if c["num_os"] >= 2 and want != [[1 if v == 1 else 0 for v in row] for row in r["class"]]:
                oracle_bad.append((c, {"oracle": ["the oversampled box of PixelRenderer((%d,%d), os_pixel_size=%d, num_os=%d) is not rows/columns [N//2-os, N//2+os)" % (N_, N_, o_, c["num_os"])]}))
            cls = "[" + "; ".join("[" + "; ".join("true" if v == 1 else "false" for v in row) + "]" for row in r["class"]) + "]"
            if c["num_os"] >= 2:
                rows.append("(%d, %d, %s)" % (c["N"], c["os"], cls))
        elif c["mode"] == "hybrid":
            hyb.append("(%d%%nat, %d%%nat, [%s], [%s])" % (c["n_sigma"], c["m"], "; ".join("%d%%nat" % i for i in r["w_fourier"]), "; ".join("%d%%nat" % i for i in r["w_real"])))
    ck.rule = ("box mode: every (N, os<=N/2) in the listed range x several sub-sampling orders, class of EVERY pixel measured with a quadratic marker profile; hybrid mode: index sets for "
               "num_pixel_render 0..n_sigma; image mode: sources outside the box (smooth integrand), hybrid vs Fourier for centred sources")
    ok, detail = True, ""
    if any(o["name"].startswith("translate:") and not o["ok"] for o in ck.obligations):
        ok, detail = False, "model could not be regenerated"
    else:
        with vlib.Lock():
            okm, _ = vlib.coq_make(["Gen/PixelBox.vo", "Gen/Amps.vo"])
        text = ("From Coq Require Import ZArith List Bool.\nFrom PS Require Import Base.PySlice Gen.PixelBox Gen.Amps.\nImport ListNotations.\nOpen Scope Z_scope.\n"
                "Definition memz (x : Z) (l : list Z) : bool := existsb (Z.eqb x) l.\n"
                "Definition class_map (N os : Z) : list (list bool) :=\n"
                "  map (fun r => map (fun c => memz r (box_rows N N os) && memz c (box_cols N N os)) (zrange 0 N)) (zrange 0 N).\n"
                "Definition box_cases : list (Z * Z * list (list bool)) := [\n  " + ";\n  ".join(rows) + "\n].\n"
                "Lemma box_agree : map (fun c => class_map (fst (fst c)) (snd (fst c))) box_cases = map snd box_cases.\nProof. vm_compute. reflexivity. Qed.\n"
                "Definition hyb_cases : list (nat * nat * list nat * list nat) := [\n  " + ";\n  ".join(hyb) + "\n].\n"
                "Lemma hyb_agree : map (fun c => let '(n, m, _, _) := c in (w_fourier n m, w_real n m)) hyb_cases = map (fun c => let '(_, _, f, r) := c in (f, r)) hyb_cases.\n"
                "Proof. vm_compute. reflexivity. Qed.\n")
        rc, out = ck.coq_cases("c20_cases", text)
        ck.cmds.append("coqc -Q coq PS coq/Cases/<run>/c20_cases.v  (vm_compute: %d class maps, %d index sets)" % (len(rows), len(hyb)))
        if rc != 0:
            ok = False
            err = vlib.first_coq_error(out)
            detail = (err[2][:300] if err else out[-300:])
    ck.oblige("correspondence:per-pixel class map of real PixelRenderers and hybrid index sets == model (vm_compute)", "correspondence", ok, detail)
    ck.oblige("oracle:outside = point-sampled profile (1e-6), inside = float64 pixel integral (2e-5, num_os>=3), hybrid vs Fourier (6e-3, ==0 at m=0), n_sigma variants (5e-3)", "correspondence",
              not oracle_bad, json.dumps(oracle_bad[0][1]["oracle"][:2]) if oracle_bad else "")
    if known_hits:
        worst = max(max(float(re.search(r"by ([0-9.e+-]+) of", m).group(1)) for m in h) for _, h in known_hits)
        ck.known_finding("%s (reproduced on %d case(s) of this run, worst %.3g of the peak)" % (kf[0]["text"], len(known_hits), worst))
    ck.extra["known_finding_cases"] = len(known_hits)
    ck.samples += [c for c in cases[:3]] + [c for c in cases if c["mode"] != "box"][:3]
    ck.extra["box_class_maps"] = len(rows)
    ck.trusted += ["Coq 8.16.1 kernel; vm_compute (certificate over Q and class maps)", "translator units PixelBox, Amps; run-time dump of leggauss(m)/2 from the implementation (corr/dump_tables.py)",
                   "numpy basic slicing and .at[].set modelled by Base/PySlice (exercised by the class maps); jnp.meshgrid 'xy' pairing of nodes and weights as documented in Gen/PixelBox.v",
                   "NOT proved: quadrature error for the non-polynomial Sersic integrand, convergence in n_sigma, interpolated vs direct amplitudes - implementation oracle only"]
    ck.explanation = ("Proved: for every N>=0 and 0<=os<=N/2 the overwritten pixels are exactly rows/columns [N/2-os, N/2+os) (2os x 2os of them, none for os=0); the quadrature rule actually in use for "
                      "every m=1..16 has positive weights summing to 1, antisymmetric nodes inside the pixel and integrates x^k exactly for k<=2m-1 (to 1e-6: float32 nodes); for every "
                      "num_pixel_render<=n_sigma the Fourier and real-space index sets partition the components, the real-space ones being the largest; with 0 the hybrid renderer evaluates exactly "
                      "the Fourier renderer's expression.")
    if ck.broken():
        if oracle_bad:
            c, r = oracle_bad[0]
            ck.violation({"what": "a construction option changes the meaning of the rendering", "violated": r["oracle"][:3], "case": c}, True)
        else:
            ck.violation({"what": "class map / index sets of the real renderers differ from the model", "detail": detail}, False)


def replay(path):
    rep = json.load(open(path))
    ck = vlib.Check("C20", "quick", 0)
    r = ck.run_impl("impl_c20.py", [rep["case"]])[0]
    ck.cleanup()
    print(r.get("oracle"))
    print("REPLAY:", "still failing" if r.get("oracle") else "not failing")
    return 1 if r.get("oracle") else 0

"""Translator validation shared by C02 / C04 / C08 / C09 / C10 / C20: the Coq
definitions of Gen/Formulas.v against the functions they were extracted from,
at random float64 points, by interval arithmetic inside Coq."""
import math
from fractions import Fraction

import vlib
from props import losslib

HDR = ("From Coq Require Import Reals List Lra.\nFrom Interval Require Import Tactic.\nFrom PS Require Import Base.RBase Gen.Formulas.\nOpen Scope R_scope.\n"
       "Ltac guards := repeat match goal with |- context [Req_EM_T ?a ?b] => destruct (Req_EM_T a b) as [E|E]; [exfalso; revert E; apply Rgt_not_eq; interval with (i_prec 80)|clear E] end.\n"
       "Ltac powers := repeat match goal with |- context [rpow ?x ?y] => rewrite (rpow_pos x y) by (interval with (i_prec 80)) end.\n")


def q(x):
    fr = Fraction(float.fromhex(x)) if isinstance(x, str) else Fraction(x)
    return "(%d / %d)" % (fr.numerator, fr.denominator) if fr.numerator >= 0 else "((%d) / %d)" % (fr.numerator, fr.denominator)


def dy(rng, lo, hi, bits=8):
    return rng.randint(math.ceil(lo * 2 ** bits), math.floor(hi * 2 ** bits)) / 2 ** bits


def make_points(rng, n):
    pts = []
    for _ in range(n):
        pts.append({"fn": "sersic2d", "args": {"X": float(rng.randint(0, 40)), "Y": float(rng.randint(0, 40)), "xc": dy(rng, 10, 30), "yc": dy(rng, 10, 30) + 2 ** -9,
                                               "flux": dy(rng, -50, 50), "r_eff": dy(rng, 0.5, 20), "n": dy(rng, 0.65, 8), "ellip": dy(rng, 0, 0.9), "theta": dy(rng, 0, 6.28)}})
        pts.append({"fn": "gauss_fourier", "args": {"FX": dy(rng, 0, 0.5), "FY": dy(rng, -0.5, 0.5), "amps": [dy(rng, -3, 9), dy(rng, 0.1, 2)], "sigmas": [dy(rng, 0.05, 3), dy(rng, 1, 12)],
                                                    "xc": dy(rng, 5, 30), "yc": dy(rng, 5, 30), "theta": dy(rng, 0, 6.28), "q": dy(rng, 0.1, 1)}})
        pts.append({"fn": "ps_fourier", "args": {"FX": dy(rng, 0, 0.5), "FY": dy(rng, -0.5, 0.5), "xc": dy(rng, 5, 30), "yc": dy(rng, 5, 30), "flux": dy(rng, -20, 20)}})
        pts.append({"fn": "gauss_pixel", "args": {"X": float(rng.randint(0, 40)), "Y": float(rng.randint(0, 40)), "amps": [dy(rng, -3, 9), dy(rng, 0.1, 2)], "sigmas": [dy(rng, 0.8, 6), dy(rng, 3, 25)],
                                                  "xc": dy(rng, 10, 30), "yc": dy(rng, 10, 30), "theta": dy(rng, 0, 6.28), "q": [dy(rng, 0.1, 1), dy(rng, 0.1, 1)]}})
        pts.append({"fn": "sersic1d", "args": {"r": dy(rng, 0.05, 30), "flux": dy(rng, 0.5, 50), "re": dy(rng, 0.5, 20), "n": dy(rng, 0.65, 8)}})
    return pts


def fun2(vals):
    return "(fun k : nat => match k with O => %s | _ => %s end)" % (q(vals[0]), q(vals[1]))


def goals(points, results):
    out = []
    for i, (p, r) in enumerate(zip(points, results)):
        a = p["args"]
        if p["fn"] in ("sersic2d", "sersic1d"):
            v = Fraction(float.fromhex(r["value"]))
            g = Fraction(float.fromhex(r["lgamma"]))
            tol = Fraction(1, 10**8) * (abs(v) + Fraction(1, 10**6))
            if p["fn"] == "sersic2d":
                call = "sersic2d lg %s" % " ".join(q(a[k]) for k in ("X", "Y", "xc", "yc", "flux", "r_eff", "n", "ellip", "theta"))
            else:
                call = "sersic1d lg %s" % " ".join(q(a[k]) for k in ("r", "flux", "re", "n"))
            out.append((i, p["fn"],
                        "Goal forall lg : R -> R, %s <= lg (2 * %s) <= %s -> Rabs (%s - %s) <= %s.\n"
                        "Proof. intros lg H. unfold %s; try unfold sersic2d_zsq. guards. powers. set (L := lg _) in *. interval with (i_prec 80). Qed."
                        % (q(g - Fraction(1, 10**11) * (1 + abs(g))), q(a["n"]), q(g + Fraction(1, 10**11) * (1 + abs(g))), call, q(v), q(tol), p["fn"])))
        elif p["fn"] == "gauss_fourier":
            re, im = (Fraction(float.fromhex(x)) for x in r["value"])
            args = "2%%nat %s %s %s %s %s %s %s %s" % (q(a["FX"]), q(a["FY"]), fun2(a["amps"]), fun2(a["sigmas"]), q(a["xc"]), q(a["yc"]), q(a["theta"]), q(a["q"]))
            tol = Fraction(1, 10**9) * (1 + abs(re) + abs(im))
            out.append((i, "gauss_fourier", "Goal Rabs (gauss_fourier_re %s - %s) <= %s /\\ Rabs (gauss_fourier_im %s - %s) <= %s.\n"
                        "Proof. unfold gauss_fourier_re, gauss_fourier_im. cbn [rsum]. split; interval with (i_prec 80). Qed." % (args, q(re), q(tol), args, q(im), q(tol))))
        elif p["fn"] == "ps_fourier":
            re, im = (Fraction(float.fromhex(x)) for x in r["value"])
            args = " ".join(q(a[k]) for k in ("FX", "FY", "xc", "yc", "flux"))
            tol = Fraction(1, 10**9) * (1 + abs(re) + abs(im))
            out.append((i, "ps_fourier", "Goal Rabs (ps_fourier_re %s - %s) <= %s /\\ Rabs (ps_fourier_im %s - %s) <= %s.\n"
                        "Proof. unfold ps_fourier_re, ps_fourier_im. split; interval with (i_prec 80). Qed." % (args, q(re), q(tol), args, q(im), q(tol))))
        elif p["fn"] == "gauss_pixel":
            v = Fraction(float.fromhex(r["value"]))
            args = "2%%nat %s %s %s %s %s %s %s %s" % (q(a["X"]), q(a["Y"]), fun2(a["amps"]), fun2(a["sigmas"]), q(a["xc"]), q(a["yc"]), q(a["theta"]), fun2(a["q"]))
            tol = Fraction(1, 10**9) * (abs(v) + Fraction(1, 10**9))
            out.append((i, "gauss_pixel", "Goal Rabs (gauss_pixel %s - %s) <= %s.\nProof. unfold gauss_pixel. cbn [rsum]. interval with (i_prec 80). Qed." % (args, q(v), q(tol))))
    return out


def validate(ck, rng, n, prefix):
    """returns (ok, detail, failing, points, results)"""
    pts = make_points(rng, n)
    res = ck.run_impl("impl_formulas.py", pts)
    gl = goals(pts, res)
    old = losslib.HDR
    losslib.HDR = HDR
    try:
        failing = losslib.run_goals(ck, gl, prefix, shard=6)
    finally:
        losslib.HDR = old
    for p in pts:
        ck.bump("formula", p["fn"])
        ck.count(str(p), nontrivial=True)
    ck.cmds.append("coqc -Q coq PS coq/Cases/<run>/%s_NNN.v  (%d interval goals: translator validation)" % (prefix, len(gl)))
    ok = not failing
    detail = "; ".join("%s: %s" % (f[1], f[2].replace("\n", " ")[:140]) for f in failing[:3])
    return ok, detail, failing, pts, res

"""Shared by C06 / C07: cases for the real loss functions and the Coq goals that
tie the regenerated loss models (Gen/Losses.v) to them."""
import json
import re
from fractions import Fraction

import vlib

LOSSES = ["gaussian_loss", "cash_loss", "gaussian_loss_w_frac", "gaussian_loss_w_sys", "student_t_loss",
          "student_t_loss_free_sys", "pseudo_huber_loss", "gaussian_mixture", "gaussian_mixture_w_sys", "gaussian_mixture_w_frac"]


def q(h):
    fr = Fraction(float.fromhex(h)) if isinstance(h, str) else Fraction(h)
    return "(%d / %d)" % (fr.numerator, fr.denominator) if fr.numerator >= 0 else "((%d) / %d)" % (fr.numerator, fr.denominator)


def make_cases(rng, quick):
    cases = []
    reps = 2 if quick else 12
    for loss in LOSSES:
        for k in range(reps):
            cases.append({"loss": loss, "wide_model": True, "H": rng.choice([2, 3, 4]), "W": rng.choice([2, 3, 5]), "suffix": rng.choice(["", "", "_a", "_Band_1"]),
                          "seed": 2 * rng.randint(0, 10**5) + (k % 2), "mask": ["random", "none", "allbutone", "allfalse"][k % 4] if k < 4 else rng.choice(["random", "random", "allbutone"]),
                          "maskdtype": rng.choice(["bool", "int", "float"])})
    return cases


def mean_kinds():
    """lm_mean of each generated loss model, read from Gen/Losses.v"""
    import os
    if not os.path.exists(os.path.join(vlib.COQ, "Gen", "Losses.v")):
        return {}          # the loss models could not be regenerated: no model-side goals (the translate obligation is already broken)
    txt = open(os.path.join(vlib.COQ, "Gen", "Losses.v")).read()
    out = {}
    for m in re.finditer(r"Definition (\w+)_model : loss_model :=\s*\{\|(.*?)\|\}", txt, flags=re.S):
        mk = re.search(r"lm_mean := (\w+)", m.group(2)).group(1)
        out[m.group(1)] = mk
    return out


HDR = ("From Coq Require Import Reals List String Bool.\nFrom Interval Require Import Tactic.\n"
       "From PS Require Import Base.RBase Base.Dist Base.LossModel Gen.Losses Proofs.LossProofs.\nImport ListNotations.\nOpen Scope R_scope.\n"
       "Ltac evalnames := cbn [String.eqb Ascii.eqb Bool.eqb andb].\n")


def lat_fun(latents, sfx):
    body = "0"
    for name, h in latents.items():
        base = name[: len(name) - len(sfx)] if sfx else name
        body = '(if String.eqb k "%s" then %s else %s)' % (base, q(h), body)
    return "(fun k : string => %s)" % body


def logp_goals(cases, results, per_case=4, rng=None):
    """interval goals |L_logp(pixel) - observed| <= 1e-4 + 1e-5 |observed| on good pixels"""
    mk = mean_kinds()
    goals = []
    if not mk:
        return goals
    for ci, (c, r) in enumerate(zip(cases, results)):
        H, W = c["H"], c["W"]
        inp = r["inputs"]
        good = inp["good"]
        allp = [(i, j) for i in range(H) for j in range(W)]
        goodp = [(i, j) for (i, j) in allp if good[i][j]]
        kind = mk.get(c["loss"], "NoMean")
        rmsv = {(i, j): Fraction(float.fromhex(inp["rms"][i][j])) for (i, j) in allp}
        if kind == "MeanAllRms":
            mean = sum(rmsv.values()) / len(allp)
        elif kind == "MeanGoodRms":
            mean = (sum(rmsv[p] for p in goodp) / len(goodp)) if goodp else Fraction(0)
        else:
            mean = Fraction(0)
        pick = goodp if len(goodp) <= per_case else (rng.sample(goodp, per_case) if rng else goodp[:per_case])
        lf = lat_fun(r["latents"], c["suffix"])
        for (i, j) in pick:
            ov = float.fromhex(r["logp"][i][j])
            if ov != ov or ov in (float("inf"), float("-inf")):
                # the Cash statistic -(m - d ln m) is only defined for a positive model: a prior draw whose model + sky is <= 0 at a
                # pixel legitimately evaluates to NaN / -inf there; any other non-finite per-pixel term is reported as a failing goal
                if c["loss"] == "cash_loss" and float.fromhex(inp["mod"][i][j]) <= 0:
                    continue
                goals.append((ci, (i, j), "Goal False. (* non-finite per-pixel log-probability %r of %s at a used pixel *)\nProof. exact I. Qed." % (ov, c["loss"])))
                continue
            obs = Fraction(float.fromhex(r["logp"][i][j]))
            tol = Fraction(1, 10**4) + abs(obs) / 10**5
            goals.append((ci, (i, j),
                          "Goal Rabs (%s_logp %s %s %s %s %s - %s) <= %s.\nProof. unfold %s_logp, normal_lpdf, student_t5_lpdf, t5_lnorm, mixture2_lpdf. evalnames. interval with (i_prec 60). Qed."
                          % (c["loss"], q(inp["data"][i][j]), q(inp["rms"][i][j]), q(inp["mod"][i][j]), q(mean), lf, q(obs), q(tol), c["loss"])))
    return goals


def structure_goals(cases, results):
    """site names / kinds / flags and latent distribution parameters"""
    goals = []
    for ci, (c, r) in enumerate(zip(cases, results)):
        sfx = c["suffix"]

        def strip(n):
            return n[: len(n) - len(sfx)] if sfx and n.endswith(sfx) else n
        lats = [s for s in r["sites"] if s["type"] == "sample" and not s.get("observed")]
        dets = [s["name"] for s in r["sites"] if s["type"] == "deterministic"]
        obs = [s for s in r["sites"] if s.get("observed") or s["type"] == "factor"]
        if len(obs) != 1:
            goals.append((ci, "sites", "Goal False. Proof. (* %d observed sites *) Abort." % len(obs)))
            continue
        o = obs[0]
        L = c["loss"] + "_model"
        goals.append((ci, "sites",
                      "Goal (map fst (lm_latents %s), map fst (lm_dets %s), lm_site %s, lm_factor %s, lm_masked %s) = (%s, %s, \"%s\"%%string, %s, %s).\nProof. vm_compute. reflexivity. Qed."
                      % (L, L, L, L, L,
                         "[" + "; ".join('"%s"%%string' % strip(s["name"]) for s in lats) + "]" if lats else "(@nil string)",
                         "[" + "; ".join('"%s"%%string' % strip(d) for d in dets) + "]" if dets else "(@nil string)",
                         strip(o["name"]), "true" if o["type"] == "factor" else "false", "true" if o.get("masked_dist") else "false")))
        for k, s in enumerate(lats):
            d = s["dist"]
            loc = d.get("base_loc", d.get("loc", "0x0p+0"))
            scale = d.get("base_scale", d.get("scale", "0x1p+0"))
            low = "(Some %s)" % q(d["low"]) if d.get("low") else "None"
            high = "(Some %s)" % q(d["high"]) if d.get("high") else "None"
            goals.append((ci, "latent:" + s["name"],
                          "Goal match snd (nth %d (lm_latents %s) (\"\"%%string, LNormal 0 0)) with\n"
                          "     | LTruncNormal loc scale lo hi => Rabs (loc - %s) <= 1/1000000 /\\ Rabs (scale - %s) <= 1/1000000 /\\\n"
                          "         match lo, %s with Some a, Some b => Rabs (a - b) <= 1/1000000 | None, None => True | _, _ => False end /\\\n"
                          "         match hi, %s with Some a, Some b => Rabs (a - b) <= 1/1000000 | None, None => True | _, _ => False end\n"
                          "     | _ => False end.\nProof. cbn [nth snd lm_latents %s]. repeat split; try exact I; interval. Qed."
                          % (k, L, q(loc), q(scale), low, high, L)))
    return goals


def run_goals(ck, goals, prefix, shard=40):
    """compile goal files in parallel; returns list of failing (case index, tag)"""
    files, index = {}, {}
    for i in range(0, len(goals), shard):
        name = "%s_%03d" % (prefix, i // shard)
        chunk = goals[i:i + shard]
        text = HDR
        lines = text.count("\n")
        starts = []
        for g in chunk:
            starts.append(lines + 1)
            text += g[2] + "\n"
            lines += g[2].count("\n") + 1
        files[name] = text
        index[name] = (chunk, starts)
    results = ck.coq_cases_parallel(files)
    failing = []
    for name, (rc, out) in sorted(results.items()):
        if rc == 0:
            continue
        chunk, starts = index[name]
        err = vlib.first_coq_error(out)
        if err:
            line = err[1]
            k = max(i for i, s in enumerate(starts) if s <= line)
            failing.append((chunk[k][0], chunk[k][1], err[2][:300]))
        else:
            failing.append((chunk[0][0], "compile", out[-300:]))
    return failing

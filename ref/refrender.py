"""Independent float64 reference renderer written from the mathematical
definition of the Sersic profile (numpy / scipy only).  Used ONLY by the
implementation-side search oracles (C01, C02, C04, C20), never by a theorem."""
import numpy as np
from scipy import special, signal


def bn_exact(n):
    return special.gammaincinv(2.0 * n, 0.5)


def sersic_sb(x, y, p):
    """surface brightness of an elliptical Sersic profile with total flux p['flux'];
    theta measured from +y towards -x, r_eff = semi-major axis of the half-light ellipse"""
    n, re, q = p["n"], p["r_eff"], 1.0 - p["ellip"]
    b = bn_exact(n)
    dx, dy = x - p["xc"], y - p["yc"]
    t = p["theta"]
    # major axis direction (-sin t, cos t)
    u = -dx * np.sin(t) + dy * np.cos(t)
    v = dx * np.cos(t) + dy * np.sin(t)
    z = np.sqrt(u ** 2 + (v / q) ** 2) / re
    amp = p["flux"] * b ** (2 * n) / (2 * np.pi * n * re ** 2 * q * np.exp(b) * special.gamma(2 * n))
    return amp * np.exp(-b * (z ** (1.0 / n) - 1.0))


def pixel_integrate(N, p, os=7, core=3, core_os=61):
    """pixel-integrated intrinsic image on an N x N frame (pixel centres at integers)"""
    img = np.zeros((N, N))
    off = (np.arange(os) + 0.5) / os - 0.5
    gx, gy = np.meshgrid(off, off)
    cols, rows = np.meshgrid(np.arange(N), np.arange(N))
    for a, b in zip(gx.ravel(), gy.ravel()):
        img += sersic_sb(cols + a, rows + b, p)
    img /= os * os
    offc = (np.arange(core_os) + 0.5) / core_os - 0.5
    cx, cy = np.meshgrid(offc, offc)
    r0, c0 = int(round(p["yc"])), int(round(p["xc"]))
    for r in range(max(0, r0 - core), min(N, r0 + core + 1)):
        for c in range(max(0, c0 - core), min(N, c0 + core + 1)):
            img[r, c] = sersic_sb(c + cx, r + cy, p).mean()
    return img


def total_fraction_inside(N, p, big=6):
    """fraction of the profile's light inside the N x N footprint (float64 integration on a larger frame)"""
    M = N * big
    q = dict(p, xc=p["xc"] + (M - N) // 2, yc=p["yc"] + (M - N) // 2)
    full = pixel_integrate(M, q, os=3, core=3, core_os=61)
    lo = (M - N) // 2
    inside = full[lo:lo + N, lo:lo + N].sum()
    # (in-footprint fraction, out-of-footprint fraction); the light beyond the big frame counts as outside
    return inside / p["flux"], 1.0 - inside / p["flux"]


def convolve_centered(img, psf):
    """linear convolution with the PSF taken as centred on its geometric centre (odd sizes)"""
    P0, P1 = psf.shape
    assert P0 % 2 == 1 and P1 % 2 == 1
    full = signal.convolve2d(img, psf, mode="full")
    return full[(P0 - 1) // 2:(P0 - 1) // 2 + img.shape[0], (P1 - 1) // 2:(P1 - 1) // 2 + img.shape[1]]


def gaussian_psf(P, fwhm):
    s = fwhm / 2.3548
    x = np.arange(P) - (P - 1) / 2
    g = np.exp(-0.5 * (x[:, None] ** 2 + x[None, :] ** 2) / s ** 2)
    return g / g.sum()


def moments(img, sigma_w=None, iters=12):
    """adaptive Gaussian-weighted moments: centroid (x, y), position angle of the major axis measured from +y
    towards -x (mod pi), axis ratio, squared size (trace of the second-moment matrix)"""
    N = img.shape[0]
    cols, rows = np.meshgrid(np.arange(img.shape[1]), np.arange(img.shape[0]))
    tot = img.sum()
    x0, y0 = (img * cols).sum() / tot, (img * rows).sum() / tot
    sw = sigma_w or N / 6.0
    for _ in range(iters):
        w = np.exp(-0.5 * ((cols - x0) ** 2 + (rows - y0) ** 2) / sw ** 2)
        s = (img * w).sum()
        x0, y0 = (img * w * cols).sum() / s, (img * w * rows).sum() / s
    w = np.exp(-0.5 * ((cols - x0) ** 2 + (rows - y0) ** 2) / sw ** 2)
    s = (img * w).sum()
    dx, dy = cols - x0, rows - y0
    mxx, myy, mxy = (img * w * dx * dx).sum() / s, (img * w * dy * dy).sum() / s, (img * w * dx * dy).sum() / s
    # major-axis direction: eigenvector of the larger eigenvalue
    ang = 0.5 * np.arctan2(2 * mxy, mxx - myy)          # angle from +x towards +y
    pa = (ang - np.pi / 2) % np.pi                        # from +y towards -x
    disc = np.sqrt(((mxx - myy) / 2) ** 2 + mxy ** 2)
    l1, l2 = (mxx + myy) / 2 + disc, (mxx + myy) / 2 - disc
    return {"x": x0, "y": y0, "pa": pa, "q": np.sqrt(max(l2, 0) / l1), "size2": mxx + myy}

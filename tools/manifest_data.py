"""Source of MANIFEST.json (run tools/mkmanifest.py after editing)."""

SOURCE_COMMITS = []

CHECKS = [
    {
        "property_id": "C14",
        "design_ref": "DESIGN.md 5 (C14)",
        "technique": "Coq proof (induction over the round/step loops of an executable Gallina model, all scripts and configurations) "
                     "+ kernel-checked vm_compute correspondence against the real routine driven by a scripted SVI stand-in",
        "text": "Six theorems (Props/C14.v, closed under the global context) state the step bound, the patience contract, the round "
                "linkage/decay exponent, strict adoption and the first-lowest-of-final-round return value for every configuration and "
                "every loss script (NaN, +-inf, ties included).  The model is tied to the code on each run by executing the real "
                "train_numpyro_svi_early_stop on exhaustively enumerated and random loss histories and proving, by vm_compute, that "
                "the model's observation equals the implementation's on each of them.",
        "note": "Trusted: Coq kernel + vm_compute; the hand-written model (tied by correspondence only); the scripted stand-in (state = "
                "lineage of call ids, learning rates read from the installed optimizer objects); the learning-rate value "
                "lr_init*decay**r is compared on the implementation side, not proved; JAX jit assumed semantics-preserving.",
    },
]

_PENDING = "check not built yet in this session (build order in DESIGN.md section 9); will be claimed once its Coq model, theorems and tie exist"
NOT_APPLICABLE = [
    {"property_id": "C%02d" % i, "reason": _PENDING}
    for i in range(1, 21) if "C%02d" % i not in {c["property_id"] for c in CHECKS}
]

"""Source of MANIFEST.json (run tools/mkmanifest.py after editing)."""

SOURCE_COMMITS = []

CHECKS = [
    {
        "property_id": "C14",
        "design_ref": "DESIGN.md 5 (C14)",
        "technique": "Coq proof (induction over the round/step loops of an executable Gallina model, all scripts and configurations) "
                     "+ kernel-checked vm_compute correspondence against the real routine driven by a scripted SVI stand-in",
        "text": "Six theorems (Props/C14.v, closed under the global context) state the step bound, the patience contract, the round "
                "linkage/decay exponent, strict adoption and the first-lowest-of-final-round return value for every configuration and "
                "every loss script (NaN, +-inf, ties included).  The model is tied to the code on each run by executing the real "
                "train_numpyro_svi_early_stop on exhaustively enumerated and random loss histories and proving, by vm_compute, that "
                "the model's observation equals the implementation's on each of them.",
        "note": "Trusted: Coq kernel + vm_compute; the hand-written model (tied by correspondence only); the scripted stand-in (state = "
                "lineage of call ids, learning rates read from the installed optimizer objects); the learning-rate value "
                "lr_init*decay**r is compared on the implementation side, not proved; JAX jit assumed semantics-preserving.",
    },
]

CHECKS.append({
    "property_id": "C17",
    "design_ref": "DESIGN.md 5 (C17)",
    "technique": "Coq proof over slice descriptors regenerated from priors.estimate_sky by an ast translator (list/Z reasoning: membership, NoDup, length, "
                 "invariance) + kernel-checked vm_compute correspondence with the real estimate_sky / SourceProperties",
    "text": "Ten theorems (Props/C17.v, closed under the global context; the last two: the median is invariant under any permutation of the gathered values and the sorted list it is read from is an ascending permutation of them) hold for ALL H,W>=2n, n>=1, images and masks: the gathered pixels are "
            "exactly those within n of an edge, each once, H*W-(H-2n)(W-2n) of them; the value multiset behind median/scatter depends only on "
            "unmasked border pixels (interior and masked-pixel invariance); count = border minus masked border.  The slices, the concatenate "
            "flavour (mask-preserving or not) and the count expression are re-extracted from the source on every run, so the theorems are "
            "re-checked against what the code says now; the numpy semantics they rest on is exercised by the correspondence.",
    "note": "Trusted: Coq kernel + vm_compute; translator unit EstimateSky; modelled numpy behaviour (basic slicing, np.ma.concatenate keeps "
            "masks, np.ma.median / astropy biweight_scale ignore masked entries) tied by correspondence on integer-valued images; the scatter is "
            "compared with astropy's own function applied to the model's multiset, not re-derived.",
})

CHECKS.append({
    "property_id": "C18",
    "design_ref": "DESIGN.md 5 (C18)",
    "technique": "Coq proof over validation steps regenerated from check_input_data / BaseFitter.__init__ / BaseRenderer.__init__ by an ast "
                 "translator (ordered first-match semantics, tuple-lexicographic vs per-axis comparison made explicit) + kernel-checked vm_compute "
                 "correspondence with the real constructors",
    "text": "Eight theorems (Props/C18.v, closed under the global context) over ALL shapes and fault combinations: rms-shape, negative-rms, "
            "PSF-larger-on-either-axis and mask-shape faults raise the documented exception in program order; consistent inputs are accepted; the "
            "renderer rejects iff an axis is smaller than the PSF; stored arrays are the pointwise float32 image of the same-named argument, the "
            "mask is stored inverted.  The steps and the kind of each comparison are re-extracted on every run (fail-closed), and the outcome enum "
            "of the real constructors on the property's sweep is proved equal to the model's by vm_compute.",
    "note": "Trusted: Coq kernel + vm_compute; translator unit InputChecks; CPython tuple comparison modelled by lex_lt; float32 rounding abstract "
            "(bit-exact storage is checked on the implementation side, not proved); only 2-D shapes are covered by the theorems.",
})

CHECKS.append({
    "property_id": "C19",
    "design_ref": "DESIGN.md 5 (C19)",
    "technique": "Coq proof over name predicates and wrap expression regenerated from results._parse_injested_data (string reasoning for arbitrary "
                 "suffixes; real-analysis lemma for the wrap) + vm_compute / interval correspondence with the real routine on an xarray stand-in",
    "text": "Ten theorems (Props/C19.v; the last three over the regenerated wrap formula: values in [0,pi) are fixed, the wrap is idempotent, and samples differing by any multiple of pi are reported identically): for every suffix ''|'_'+anything, theta+suffix is wrapped; all 21 other profile/sky/loss parameter names + "
            "marker-free suffix pass through unchanged; *_poly_coeff and bspl_w_* pass through; *_base/_auto_loc/unwrapped are dropped; model* is "
            "moved to .models unwrapped; wrap(x) is in [0,pi) and equals x + k*pi.  Predicates and wrap expression are re-extracted on each run; "
            "the per-variable fate of the real routine over generated configurations is proved equal to the model's by vm_compute and the wrapped "
            "values are certified by interval arithmetic inside Coq.",
    "note": "Trusted: Coq kernel, vm_compute, Interval (primitive float/int axioms), Reals axioms (sig_forall_dec, sig_not_dec, "
            "functional_extensionality_dep) for the wrap theorem; translator units ResultsParse/ProfileParams; CPython `in` modelled by PyStr.contains; "
            "xarray stand-in for arviz.InferenceData; suffixes/band names containing a reserved marker are excluded by hypothesis.",
})

CHECKS.append({
    "property_id": "C16",
    "design_ref": "DESIGN.md 5 (C16)",
    "technique": "Coq proof (ring/field over R) about sky formulas, hyper-parameter expressions, grid orientation and build_model data flow regenerated "
                 "from the source by an ast translator + interval-arithmetic correspondence of the real 'model' site with/without sky",
    "text": "Fifteen theorems (Props/C16.v; the last five: slopes are per-pixel gradients, sky_back is the pivot value, joint linearity, point reflection, n x n frame total for every n by induction) for all image sizes, pixels and sky parameter values: none adds 0, flat adds the constant, tilted-plane adds "
            "back+(col-N/2)*x_sl+(row-N/2)*y_sl with X=column, Y=row on square frames, reduces to flat at zero slopes, equals the stand-alone function, "
            "enters obs = out + sky once (after the convolved scene) independently of the sources; sky hyper-parameters are (g,e),(0,e/10),(0,e/10) "
            "installed as Normal() through an affine transform with TransformReparam.  All definitions are re-extracted on each run; the tie is "
            "additionally checked numerically inside Coq (interval goals) against real FitSingle/FitMulti traces.",
    "note": "Trusted: Coq kernel, Interval, Reals axioms; translator units Sky/Grid/BuildModel (pattern extraction, fail-closed); numpyro "
            "substitute/trace to read the model site; float32 evaluation compared at 2e-6 relative; non-square frames are outside the theorem "
            "(both pivots use the row count).",
})

CHECKS.append({
    "property_id": "C07",
    "design_ref": "DESIGN.md 5 (C07)",
    "technique": "Coq proof (equalities over R) about per-loss models regenerated from pysersic/loss.py by symbolic execution of sample/factor/mask/dist "
                 "calls + interval-arithmetic correspondence with per-pixel log-probabilities of the real losses from numpyro traces",
    "text": "Thirteen theorems (Props/C07.v) equate each regenerated per-pixel log term with the documented likelihood for ALL data/rms/model/nuisance "
            "values: Gaussian; (1+f) and quadrature variants with their nuisance priors and supports; Cash; pseudo-Huber with delta^2, delta=3; "
            "Student-t(5) at the model with positive constant scale factor (symmetry, standardised form, tail exponent); three mixtures with outlier "
            "width 5x and fraction b/20 in [0,1/4].  Each run re-extracts the models and certifies inside Coq (interval) that they reproduce the "
            "log-probabilities numpyro computes for the real functions.",
    "note": "Trusted: Coq kernel, Interval, Reals axioms; translator unit Losses; Base/Dist.v density formulas (exercised numerically by the "
            "correspondence); truncated-normal normalisers not modelled (parameters/bounds compared); float32 evaluation compared at 1e-4+1e-5 rel.",
})
CHECKS.append({
    "property_id": "C06",
    "design_ref": "DESIGN.md 5 (C06)",
    "technique": "Coq proof: soundness theorem of a syntactic mask-safety analysis over a deep model of numpyro's masked observed sites, instantiated on "
                 "the ten regenerated loss models (all images, all masks), zero-gradient corollary via Coquelicot; correspondence on traces of the real losses",
    "text": "Seven theorems (Props/C06.v): for every loss, any two image triples agreeing on the good pixels have the same log-density (for all masks, "
            "pixel sets, latent values); the value at a masked pixel is irrelevant and the derivative w.r.t. data, rms and model there is identically 0; "
            "polarity (good = not marked; all good when absent; the fitter hands that array to the loss); no mask => every pixel contributes; unmasked "
            "Gaussian pixels are sensitive.  The criterion is re-evaluated on loss models re-extracted each run (a reduction like jnp.mean(rms) over all "
            "pixels, or an unmasked site, makes it false), and the masked flag / exact zeros are checked against numpyro traces.",
    "note": "Trusted: Coq kernel, Coquelicot, Reals axioms; translator units Losses/InputChecks/BuildModel; the model of handlers.mask (log-prob "
            "counted only where good) tied by exact zeros in traces; the non-zero-gradient clause on unmasked pixels is proved for the Gaussian family "
            "only and otherwise checked on the implementation; multi-band data flow is under C15.",
})

CHECKS.append({
    "property_id": "C11",
    "design_ref": "DESIGN.md 5 (C11)",
    "technique": "Coq proof (real analysis over R, field/lra) about the helper definitions regenerated from priors.py + interval-arithmetic correspondence "
                 "with log_prob / support / affine parameters / reparam Jacobian of the real prior objects",
    "text": "Six theorems (Props/C11.v) for all loc, scale>0, bounds and points, and for ANY CDF Phi: Gaussian helper = N(loc,scale); uniform helper has "
            "support [low,high] and density 1/(high-low); truncated helper has support exactly [low,high] (one-sided with None) and the textbook density; "
            "TransformReparam exposes loc+scale*base and shifts the density by the constant -ln|scale|; storage under name+suffix.  Helper definitions "
            "are re-extracted each run and compared inside Coq with what the real numpyro objects compute.",
    "note": "Trusted: Coq kernel, Interval, Reals axioms; translator unit PriorHelpers; numpyro TransformedDistribution/AffineTransform/TransformReparam "
            "semantics as modelled (tied by correspondence); the normal CDF is abstract so truncated normalisers are compared via differences; float32 "
            "conditioning in far tails only through the implementation-side scipy oracle at 1e-2.",
})

CHECKS.append({
    "property_id": "C12",
    "design_ref": "DESIGN.md 5 (C12)",
    "technique": "Coq proof over generate_prior symbolically executed for each of the seven profile types, the two parameter tables and the multi-prior "
                 "loop (all regenerated by the ast translator): set equalities by computation, support bounds by lra, key injectivity by string lemmas; "
                 "vm_compute/interval correspondence with real prior objects; implementation-side oracle on photutils-driven autoprior",
    "text": "Seven theorems (Props/C12.v) for ALL guess values: each profile type gets exactly its required parameter set (the duplicated tables agree as "
            "sets); supports stay in the physical domain (r_eff>=0.5, 0<=ellip<=0.9, 0.65<=n<=8, 0<=theta<=2pi, fractions in [0,1]); flux/xc/yc are Gaussians "
            "centred on the guesses; multi-source keys p_i<suffix> are injective in (parameter, source).  Keys, distribution classes, hyper-parameters and "
            "bounds of real generate_prior / PySersicMultiPrior objects (dict, DataFrame, recarray catalogues) are compared with the model inside Coq.",
    "note": "Trusted: Coq kernel, Interval, Reals axioms; translator units GeneratePrior/ProfileParams/PriorHelpers; photutils is an oracle (guesses are "
            "universally quantified; finiteness, detectability and the zero-based x=column/y=row centring are checked only by the implementation-side "
            "oracle on rendered images); decimal formatting modelled by Coq's string_of_uint.",
})

CHECKS.append({
    "property_id": "C05",
    "design_ref": "DESIGN.md 5 (C05)",
    "technique": "Coq proof over the data flow of build_model, the renderer's naming glue, parameter tables, sky, prior helpers and loss models regenerated "
                 "by the ast translator (string lemmas for every suffix; list induction for the site set; ring for the density) + vm_compute/interval "
                 "correspondence with numpyro traces of real FitSingle/FitMulti models",
    "text": "Six theorems (Props/C05.v): for EVERY suffix the renderer recovers each prior parameter's own name; multi-source keys equal the prior's keys "
            "and are injective; the latent sites are exactly prior parameters + sky parameters + the loss's nuisances; the joint log-density is priors + "
            "per-pixel loss term evaluated at render+sky with sigma=rms over good pixels; the loss receives (obs, data, rms, mask); re-parameterisation "
            "shifts the density by a constant.  On each run the site list, per-pixel likelihood and unit-scale latent log-probs of real models over "
            "profile x sky x loss x renderer x suffix are proved equal to the model's inside Coq.",
    "note": "Trusted: Coq kernel, Interval, Reals axioms; seven translator units; numpyro log_density = sum of sample sites and TransformReparam naming "
            "(checked numerically each run); the renderer is an abstract function of the exposed parameters here (C08 carries its algebra); the image "
            "identity model = render(exposed)+sky is an implementation-side oracle at 5e-6.",
})

CHECKS.append({
    "property_id": "C08",
    "design_ref": "DESIGN.md 5 (C08)",
    "technique": "Coq proof (ring over R; list induction over catalogues in an abstract image algebra) about kernels, composite wiring and scene assembly "
                 "regenerated from rendering.py + interval-arithmetic translator validation against the JAX functions; implementation-side identity oracle",
    "text": "Fifteen theorems (Props/C08.v; the last two: circular convolution with the PSF is additive and homogeneous in the scene, every frame size) for ALL parameters and scale factors (negative, zero): each evaluation kernel is linear in flux/amplitude; "
            "doublesersic / sersic_exp / sersic_pointsource are exactly two components with fractions f and 1-f at the same centre and angle; exp and dev "
            "are Sersic n=1,4; in any image algebra with additive convolution operators a scene is the sum of its individually rendered sources (list "
            "induction, any catalogue) and a composite the sum of its components.  Kernels are re-extracted and numerically certified against the "
            "original JAX code inside Coq on each run.",
    "note": "Trusted: Coq kernel, Interval, Reals axioms; translator units Formulas/RenderGlue/Amps; additivity of the FFT convolution operators is a "
            "hypothesis of the scene theorems (proved for the DFT model under C01/C03); float32 rounding (5e-6 of peak) only through the implementation "
            "oracle; lgamma abstract.",
})

CHECKS.append({
    "property_id": "C09",
    "design_ref": "DESIGN.md 5 (C09)",
    "technique": "Coq proof (trigonometric-polynomial identities: angle-shift rewriting + ring with sin^2 = 1 - cos^2) about the three evaluation kernels "
                 "regenerated from rendering.py + interval-arithmetic translator validation; implementation-side symmetry oracle on image pairs",
    "text": "Ten theorems (Props/C09.v).  Image level, every frame size and all arrays: the PSF convolution (circular convolution, which C03 proves conv_fft computes) commutes with "
            "whole-pixel translation, with transposition of scene and PSF, and with the mirror X -> N-1-X of scene and odd PSF stamp.  Pointwise for ALL parameters, on the analytic Sersic kernel, the real-space Gaussians and the Fourier Gaussians: "
            "theta+pi invariance; no dependence on theta at ellip=0; transpose and mirror covariance; translation (Fourier components pick up the shift "
            "phase); theta+k*pi for every k.  The kernels are re-extracted and certified against the JAX code inside Coq each run.",
    "note": "Trusted: Coq kernel, Interval, Reals axioms; translator unit Formulas.  The lifting from kernels to PSF-convolved images (FFT commutation, "
            "Nyquist remainder for even N, the renderer's fixed oversampling box) is not proved: only the implementation-side oracle (tolerances of the "
            "property text) covers it - it does catch e.g. the 3.1415 literal through the mirror law.",
})
CHECKS.append({
    "property_id": "C02",
    "design_ref": "DESIGN.md 5 (C02)",
    "technique": "Coq proof (ring identities with sin^2+cos^2=1 on regenerated kernels; interval arithmetic for the enclosed-light fraction) + "
                 "interval translator validation; implementation-side image-moment oracle against an independent float64 reference renderer",
    "text": "Ten theorems (Props/C02.v; the last three: P(m,b) is the regularised incomplete gamma integral, flux*P(2n, b_n (r/re)^(1/n)) is the light curve of the generated 1-D "
            "profile with growth rate 2 pi r I(r), hence the light between a>0 and r_eff).  For ALL parameters: X=column, Y=row at integer pixel centres; all three kernels are point-symmetric about (xc,yc) "
            "and the Fourier phase is exactly -2pi(FX xc + FY yc); along (-sin theta, cos theta) the elliptical radius is |w|/r_eff, along (cos theta, sin "
            "theta) it is |w|/((1-ellip) r_eff) (theta from +y towards -x, axis ratio 1-ellip, r_eff the semi-major axis of z=1), modulo pi; real-space and "
            "Fourier Gaussians carry the same covariance; P(2n,b_n) in [0.494,0.5005] for 2n=2..12 (partial: integer 2n).",
    "note": "Trusted: Coq kernel, Interval, Reals axioms; translator units Formulas/Grid.  Not proved: the moment tolerances of the property (PSF sampling and "
            "decomposition error), half-light for non-integer 2n, the reduction of enclosed light to P(2n,b_n); these are covered by the search oracle only.",
})

CHECKS.append({
    "property_id": "C20",
    "design_ref": "DESIGN.md 5 (C20)",
    "technique": "Coq proof: integer/slice reasoning (lia) on box bounds regenerated from PixelRenderer, list lemmas on the hybrid index sets, and a "
                 "vm_compute certificate over Q for the Gauss-Legendre table dumped from the running implementation; vm_compute correspondence of "
                 "exact per-pixel class maps and index sets; implementation-side image oracle",
    "text": "Eight theorems (Props/C20.v): for EVERY N>=0 and 0<=os<=N/2 the box-integrated pixels are exactly rows/columns [N/2-os, N/2+os) (odd and even "
            "N), none for os=0; for every sub-sampling order 1..16 the rule in use has positive weights summing to 1, antisymmetric in-pixel nodes and "
            "integrates x^k exactly for k<=2m-1; for every num_pixel_render<=n_sigma the index sets partition the components (real-space = largest) "
            "and with 0 the hybrid renderer evaluates exactly the Fourier expression.  Class maps of real renderers (every pixel, measured with a "
            "quadratic marker profile) are proved equal to the model's for all small (N, os).",
    "note": "Trusted: Coq kernel + vm_compute; translator units PixelBox/Amps and the run-time dump of leggauss; numpy slicing/.at[].set via PySlice "
            "(exercised); quadrature error for the Sersic integrand, n_sigma convergence and interp on/off are numerical claims left to the "
            "implementation oracle (2e-5 / 6e-3 / 5e-3 of the property text).",
})

CHECKS.append({
    "property_id": "C04",
    "design_ref": "DESIGN.md 5 (C04), 7",
    "technique": "Coq proof (real analysis: sqrt algebra, field/nra) of the structural reasons the renderers agree, over formulas regenerated from rendering.py "
                 "+ interval correspondence with the arguments the real hybrid renderer passes to its kernels; implementation-side band oracle vs a float64 reference",
    "text": "Six theorems (Props/C04.v) for all parameters: in Fourier space the component the hybrid renderer draws in real space is the Fourier renderer's component times "
            "exp(-2 pi^2 s^2 |f|^2) (the transfer function of a circular Gaussian PSF); PSF broadening adds s^2 to both principal variances, so each real-space component of the hybrid "
            "renderer is the Gaussian with covariance R diag(sigma^2,q^2 sigma^2) R^T + s^2 I; the component index sets partition 0..n_sigma-1 and coincide "
            "with the Fourier renderer at m=0; the 1-D profile is scale covariant (a unit-flux unit-radius table serves all flux/r_eff); the cubic Hermite "
            "interpolant returns table rows at the knots.  PARTIAL: the numerical bands of the property (12%/10%, 18%/15%, 2%/2%, 6e-3, 1e-3) are not theorems.",
    "note": "Trusted: Coq kernel, Interval, Reals axioms; translator units Formulas/Amps; capture of kernel arguments in the harness.  Every image-level error "
            "band is numerical analysis of an approximation (Gaussian-mixture error, PSF pixelisation, fixed quadrature) and is only exercised by the "
            "implementation-side oracle against ref/refrender.py; a change that stays inside the bands is reported with no-failing-input-found.",
})

CHECKS.append({
    "property_id": "C10",
    "design_ref": "DESIGN.md 5 (C10)",
    "technique": "Coq proof: AD-safety predicate over a deep expression embedding of the kernels regenerated from rendering.py (second printer of the same "
                 "ast extraction; deep = shallow by reflexivity), discharged on the whole prior box by positivity reasoning; interval translator validation; "
                 "implementation-side value_and_grad lattice oracle",
    "text": "Four theorems (Props/C10.v) for ALL sample points, centres (including centres on a sample point), angles and fluxes with r_eff>=1/2, "
            "0<=ellip<=9/10, n>=13/20: every primitive of the analytic Sersic kernel is evaluated strictly inside its differentiability domain in BOTH "
            "branches of each jnp.where; the Fourier kernels contain no restricted primitive; the hybrid real-space components, PSF broadening (any "
            "s_psf) and log-spaced widths are safe for sigma>0, q>0.  PARTIAL: finiteness of VALUES under float32 rounding/overflow is not modelled.",
    "note": "Trusted: Coq kernel, Interval, Reals axioms; translator (two printers); the link 'ad_safe implies finite reverse-mode gradient' is the modelled "
            "semantics of JAX AD (including 0-cotangent times infinite partial = NaN for jnp.where) and is tied only by the implementation-side lattice "
            "oracle (eager and jit, float32); gammaln, interpax and FFT internals are outside the model.",
})

CHECKS.append({
    "property_id": "C13",
    "design_ref": "DESIGN.md 5 (C13), 7",
    "technique": "Coq proof (string reasoning for arbitrary suffixes; reuse of the C14 loop theorems) about find_MAP's filtering / regrouping regenerated from "
                 "pysersic.py + vm_compute correspondence with real find_MAP calls whose trainer is short-circuited; implementation-side oracle on real fits",
    "text": "PARTIAL.  Seven theorems (Props/C13.v) decide WHAT is returned: every profile/sky/nuisance parameter (+ any marker-free suffix) is returned "
            "rounded, internal *_base/_auto_loc and likelihood sites are not, 'model' is the image, AutoDelta's names are inverted, FitMulti regroups under "
            "the prior's own injective key, the state read is the first lowest-loss state of the final round trained at lr_init*decay^r.  That the "
            "returned point has posterior density >= truth - 0.5, is a local maximum, and is bitwise repeatable is NOT decided by a theorem.",
    "note": "Trusted: Coq kernel + vm_compute; translator unit FindMAP; numpyro condition/trace.  Optimiser quality and XLA determinism are properties of "
            "Adam on a non-convex objective and of the runtime: only the implementation-side oracle (one real fit in quick, six in thorough) exercises "
            "them; a violation there is reported with the failing synthetic data set as replay.",
})

CHECKS.append({
    "property_id": "C15",
    "design_ref": "DESIGN.md 5 (C15)",
    "technique": "Coq proof (real analysis for the logistic squashing and convex combinations; string lemmas for the relabelling incl. an explicit refutation of "
                 "unconditional injectivity) over the multi-band model regenerated from multiband.py/priors.py + vm_compute/interval correspondence with traces "
                 "of real FitMultiBandPoly/BSpline models; implementation-side perturbation oracle",
    "text": "Nine theorems (Props/C15.v): a ranged linked value lies strictly inside its range for EVERY coefficient vector and wavelength; polyval is Horner; "
            "a spline value is a convex combination of weights kept in [low,hi]; default ranges go to n*, ellip*, theta only (single and p_<i> names); "
            "relabelling is name++'_'++band, injective within a band, injective overall for underscore-free and default band names - and NOT in general "
            "(proved counterexample r_eff/1_g vs r_eff_1/g); each band's loss gets its own data/rms/mask, constants are one shared site, unlinked "
            "parameters use the band's prior, linked ones are deterministic.",
    "note": "Trusted: Coq kernel, Interval, Reals axioms; translator unit Multiband (pattern extraction, fail-closed); jnp.polyval/jnp.dot/scipy design "
            "matrices as modelled (matrix rows checked inside Coq each run); float32 saturation of the logistic via the oracle only; non-empty old suffix "
            "in update_prior_suffix is outside what the multi-band fitter supports and outside the theorems.",
})

CHECKS.append({
    "property_id": "C01",
    "design_ref": "DESIGN.md 5 (C01), 7",
    "technique": "Coq proof: DFT development over Coquelicot C (geometric sums of roots of unity -> sum(irfft2 F) = Re F[0,0] for every N), zero-frequency "
                 "lemmas on regenerated kernels/ramps, and a Hermite/Bernstein-hull certificate (lra on the table dumped from the running renderer) bounding "
                 "the amplitude sum for EVERY n; interval correspondence of the irfft2 and interpolation models; implementation-side total-flux oracle",
    "text": "PARTIAL.  Twelve theorems (Props/C01.v; 10: the sum over all pixels of the centred convolution is total(scene) x sum(psf), spatial form, every N; 11-12: for integer 2n the "
            "light of the generated 1-D profile between two radii is flux x (P(2n,tR) - P(2n,ta)) with P the regularised incomplete gamma integral, and differs from flux by at most "
            "|flux| (ta^m/m! + m (m+1)!/tR^2) - the flux argument is the total light).  Theorems 1-9: the Fourier Gaussian mixture's DC value is the sum of its amplitudes, the point source's is flux, both "
            "PSF ramps are 1 at zero frequency; the sum over all pixels of irfft2(F) is Re F[0,0] for every N>=1 and every half-plane array, so FFT "
            "convolution multiplies totals by sum(psf); composites split flux f/1-f; for EVERY Sersic index in [0.8,6] the interpolated unit-flux "
            "amplitudes sum to [0.955,1.045] ([0.98,1.02] on [1.25,4]).  Hence the Fourier renderer's total is sum(psf)*flux*S_T(n) for all positions, "
            "angles, ellipticities, sizes, PSFs and frames.  Pixel-renderer quadrature accuracy, the hybrid's sampled Gaussians and f_in are not theorems.",
    "note": "Trusted: Coq kernel, Coquelicot (classic), Interval, Reals axioms; translator units and the run-time dumps (amplitude table, interpax "
            "derivative estimates); hand model of jnp.fft.irfft2 tied by interval goals on random arrays; float32 rounding (margin 0.9589 vs 0.955); the "
            "plane integral of the Sersic law, quadrature error and in-footprint fractions only through the search oracle vs ref/refrender.py.",
})

CHECKS.append({
    "property_id": "C03",
    "design_ref": "DESIGN.md 5 (C03), 7",
    "technique": "Coq proof (roots-of-unity arithmetic in Coquelicot C: DFT inversion, Hermitian symmetry, 1-D/2-D convolution theorems, shift theorem; field/ring over R) about "
                 "the PSF phase ramps, PSF_fft product, Fourier and pixel point-source code regenerated from rendering.py + interval correspondence with PSF_fft/rfft2(psf), "
                 "jnp.fft.rfft2 and irfft2(rfft2 a * rfft2 b) of the real code; implementation-side embedded-stamp / spatial-convolution oracle",
    "text": "PARTIAL (fractional positions only).  Seventeen theorems (Props/C03.v): both ramps are exp(+2 pi i ((P-1)/2) f) with pi itself (geometric-centre "
            "convention); for odd stamps this is exactly the root-of-unity phase of an integer circular shift by (P-1)/2, for even stamps a half-pixel phase; the "
            "Fourier point source is flux times the conjugate phase of a delta at (column xc, row yc); the pixel renderer reads psf[r-yc+a][c-xc+b] (never "
            "transposed or mirrored); FFT convolution preserves totals up to sum(psf); 1-D and 2-D convolution theorems for every N; irfft2 inverts the half-plane "
            "transform of every real image (Hermitian symmetry proved); hence irfft2(rfft2 a * rfft2 b) is the circular convolution pixel by pixel; with the ramps "
            "regenerated from the source the whole chain conv_fft(scene)[r,c] = sum scene[y,x] psf[r-y+c0][c-x+c0] for odd stamps, and a unit point on an integer "
            "pixel renders as the stamp centred on it.  Bilinear resampling / band-limited shifts at fractional positions are not theorems.",
    "note": "Trusted: Coq kernel, Coquelicot (classic), Interval, Reals axioms; translator unit Ramps; hand models of jnp.fft.rfft2 / irfft2 (dft2, irfft2 in Base/Dft*.v) "
            "tied numerically on random small arrays (here and under C01); zero-padding of the stamp modelled as an array that is zero outside the stamp; "
            "map_coordinates(order=1) and fractional positions only through the implementation oracle (embedded stamps at 2e-5 of the peak, centroids at 0.02 px, "
            "spatial convolution of the intrinsic image).",
})

_PENDING = "check not built yet in this session (build order in DESIGN.md section 9); will be claimed once its Coq model, theorems and tie exist"
NOT_APPLICABLE = [
    {"property_id": "C%02d" % i, "reason": _PENDING}
    for i in range(1, 21) if "C%02d" % i not in {c["property_id"] for c in CHECKS}
]

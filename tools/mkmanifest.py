#!/usr/bin/env python3
"""Regenerate MANIFEST.json from tools/manifest_data.py (kept valid at all times)."""
import json
import os
import sys

HERE = os.path.dirname(os.path.abspath(__file__))
sys.path.insert(0, HERE)
from manifest_data import CHECKS, NOT_APPLICABLE, SOURCE_COMMITS  # noqa

BASELINE = ("cd /repo && /venv/bin/python -m pytest -ra -q -p no:cacheprovider --timeout=900 "
            "--continue-on-collection-errors --junitxml=/tmp/pysersic_baseline.junit.xml")

m = {
    "version": 1,
    "setup_cmd": "cd /verif && python3 tools/setup.py",
    "hooks": {
        "guard": "PYSERSIC_VERIF",
        "enable": "no source hooks are needed: every observation point is a public function; checks run the implementation "
                  "with PYTHONPATH=/repo PYTHONHASHSEED=0 JAX_PLATFORMS=cpu PYSERSIC_VERIF=1 (the variable is reserved, unused by /repo)",
        "baseline_off_cmd": BASELINE,
        "source_commits": SOURCE_COMMITS,
        "add_only": True,
    },
    "engines": [{
        "name": "coq-proof",
        "path": "/verif/check",
        "serves_properties": [c["property_id"] for c in CHECKS],
        "kind_free_text": "Coq 8.16.1 theorems over a model regenerated from /repo (translator) or hand-written and tied by a "
                          "kernel-checked correspondence (vm_compute / interval) on every run",
    }],
    "checks": [],
    "notes": "See DESIGN.md.  ./check <ID> --tier quick|thorough; replays under /verif/replays; known findings in /verif/known_findings.json.",
    "not_applicable": NOT_APPLICABLE,
}
for c in CHECKS:
    pid = c["property_id"]
    m["checks"].append({
        "property_id": pid,
        "quick_cmd": "./check %s --tier quick" % pid,
        "thorough_cmd": "./check %s --tier thorough" % pid,
        "evidence_file": "/verif/evidence/%s.json" % pid,
        "replay_cmd_template": "./check %s --replay {path}" % pid,
        "engine": "coq-proof",
        "level_claimed": {"category": "proof", "text": c["text"], "design_ref": c["design_ref"]},
        "level_note": c["note"],
        "technique": c["technique"],
    })
json.dump(m, open(os.path.join(os.path.dirname(HERE), "MANIFEST.json"), "w"), indent=1)
print("MANIFEST.json: %d checks, %d not_applicable" % (len(m["checks"]), len(NOT_APPLICABLE)))

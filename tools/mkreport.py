#!/usr/bin/env python3
"""Regenerate the machine-written part of DESIGN.md (section 10.2 'as built, per property' and
section 10.5 'seeded changes') from the evidence files, the Props/*.v sources and seeded/*/meta.json.

The hand-written parts of DESIGN.md are left alone: only the text between the two marker lines of each
block is replaced.  Run after a clean tools/runall.py pass.
"""
import glob
import json
import os
import re

V = os.path.dirname(os.path.dirname(os.path.abspath(__file__)))


def block(text, tag, body):
    a, b = "<!-- BEGIN GENERATED %s -->" % tag, "<!-- END GENERATED %s -->" % tag
    if a not in text:
        return text.rstrip("\n") + "\n\n" + a + "\n" + body + "\n" + b + "\n"
    return re.sub(re.escape(a) + r".*?" + re.escape(b), lambda m: a + "\n" + body + "\n" + b, text, flags=re.S)


def per_property():
    man = json.load(open(os.path.join(V, "MANIFEST.json")))
    out = []
    for c in man["checks"]:
        pid = c["property_id"]
        ev = json.load(open(os.path.join(V, "evidence", pid + ".json")))["coverage"]
        src = open(os.path.join(V, "coq", "Props", pid + ".v")).read()
        thms = re.findall(r"^(?:Theorem|Lemma|Corollary)\s+([\w']+)", src, flags=re.M)
        out.append("#### %s" % pid)
        out.append("")
        out.append("*Technique*: %s" % c.get("technique", ""))
        out.append("")
        out.append("*Theorems (coq/Props/%s.v, each closed by `exact`, `Print Assumptions` beneath)*: %s" % (pid, ", ".join("`%s`" % t for t in thms)))
        out.append("")
        out.append("*What they say*: %s" % ev.get("explanation", "").strip())
        out.append("")
        kinds = {}
        for o in ev.get("obligation_list", []):
            kinds.setdefault(o["kind"], []).append(o["name"])
        out.append("*Obligations of one run*: %d (%s)" % (ev["obligations"], ", ".join("%d %s" % (len(v), k) for k, v in kinds.items())))
        corr = [n for n in kinds.get("correspondence", [])]
        for n in corr:
            out.append("  - `%s`" % n)
        out.append("")
        out.append("*Inputs of the correspondence / search*: %s" % ev.get("rule", ""))
        out.append("")
        out.append("*Trusted / not proved*:")
        for t in ev.get("trusted_base", []):
            out.append("  - %s" % t)
        out.append("")
    return "\n".join(out)


def seeded():
    rows = ["| seed | change (author: fresh sub-agent; confirmed by me) | needs to manifest | checks that report it (failing input found?) | checks run that stay silent |", "|---|---|---|---|---|"]
    for d in sorted(glob.glob(os.path.join(V, "seeded", "C*"))):
        m = json.load(open(os.path.join(d, "meta.json")))
        conf = m.get("confirmed_by_me", {})
        cr = conf.get("checks_run", {})
        hit = ["%s (%s)" % (k, "input found" if v.get("failing_input_found") else "no-failing-input-found") for k, v in cr.items() if v.get("violation")]
        miss = [k for k, v in cr.items() if not v.get("violation")]

        def cell(s, n):
            s = " ".join(str(s).split()).replace("|", "/")
            return s if len(s) <= n else s[: n - 3] + "..."
        rows.append("| %s | %s | %s | %s | %s |" % (os.path.basename(d), cell(m.get("summary", ""), 420), cell(m.get("needs_to_manifest", ""), 300), ", ".join(hit) or "-", ", ".join(miss) or "-"))
    rows.append("")
    rows.append("Every seed: demo exits non-zero with the change and 0 without it; the repository's baseline test command gives the same result with the change as without it "
                "(the 95 baseline tests pass; the 12 baseline failures are unchanged) - see `seeded/<id>/fulltests.txt`, `demo_with.log`, `demo_without.log`, `check_result.json`.")
    return "\n".join(rows)


def main():
    p = os.path.join(V, "DESIGN.md")
    t = open(p).read()
    t = block(t, "PER-PROPERTY", per_property())
    t = block(t, "SEEDED", seeded())
    open(p, "w").write(t)
    print("DESIGN.md regenerated blocks written")


if __name__ == "__main__":
    main()

"""Fail-closed symbolic translator from the numerical Python of pysersic to Coq.

A tiny abstract interpreter walks the `ast` of one function and builds an
expression tree over real (and complex = pair of real) scalars; array
broadcasting is erased (every array expression is read pointwise, the
component axis of the Gaussian mixtures becomes an explicit index).  Any node
outside the whitelist raises Untranslatable, which the caller turns into a
broken `translate:<unit>` obligation.

Two printers: shallow (Coq R terms) and deep (Base.RExpr terms, used for the
AD-safety analysis of C10).
"""
import ast
from fractions import Fraction
from decimal import Decimal


class Untranslatable(Exception):
    pass


# --------------------------------------------------------------------------
# expression trees
# --------------------------------------------------------------------------

class E:
    __slots__ = ("op", "args", "val")

    def __init__(self, op, args=(), val=None):
        self.op, self.args, self.val = op, tuple(args), val

    def __repr__(self):
        return "E(%s,%r,%r)" % (self.op, self.args, self.val)

    def key(self):
        return (self.op, tuple(a.key() for a in self.args), str(self.val))


def const(x):
    if isinstance(x, bool):
        raise Untranslatable("bool constant in arithmetic")
    if isinstance(x, int):
        return E("const", val=Fraction(x))
    if isinstance(x, float):
        return E("const", val=Fraction(Decimal(repr(x))))
    if isinstance(x, Fraction):
        return E("const", val=x)
    raise Untranslatable("constant %r" % (x,))


ZERO = const(0)
ONE = const(1)
PI = E("pi")


def var(name):
    return E("var", val=name)


def is_const(e, v=None):
    return isinstance(e, E) and e.op == "const" and (v is None or e.val == v)


def add(a, b):
    if is_const(a, 0):
        return b
    if is_const(b, 0):
        return a
    return E("add", (a, b))


def sub(a, b):
    if is_const(b, 0):
        return a
    if is_const(a, 0):
        return neg(b)
    return E("sub", (a, b))


def mul(a, b):
    if is_const(a, 0) or is_const(b, 0):
        return ZERO
    if is_const(a, 1):
        return b
    if is_const(b, 1):
        return a
    return E("mul", (a, b))


def div(a, b):
    if is_const(a, 0):
        return ZERO
    if is_const(b, 1):
        return a
    return E("div", (a, b))


def neg(a):
    if is_const(a):
        return const(-a.val)
    return E("neg", (a,))


def powi(a, k):
    return E("powi", (a,), val=int(k))


def rpow(a, b):
    return E("rpow", (a, b))


def fn(name, a):
    return E("fn", (a,), val=name)


class Cx:
    """complex value as (re, im) of real expression trees"""

    def __init__(self, re, im):
        self.re, self.im = re, im


def as_cx(v):
    if isinstance(v, Cx):
        return v
    return Cx(v, ZERO)


def cx_or_real(c):
    if is_const(c.im, 0):
        return c.re
    return c


def v_add(a, b):
    if isinstance(a, Cx) or isinstance(b, Cx):
        a, b = as_cx(a), as_cx(b)
        return cx_or_real(Cx(add(a.re, b.re), add(a.im, b.im)))
    return add(a, b)


def v_sub(a, b):
    if isinstance(a, Cx) or isinstance(b, Cx):
        a, b = as_cx(a), as_cx(b)
        return cx_or_real(Cx(sub(a.re, b.re), sub(a.im, b.im)))
    return sub(a, b)


def v_mul(a, b):
    if isinstance(a, Cx) or isinstance(b, Cx):
        a, b = as_cx(a), as_cx(b)
        re = sub(mul(a.re, b.re), mul(a.im, b.im))
        im = add(mul(a.re, b.im), mul(a.im, b.re))
        return cx_or_real(Cx(re, im))
    return mul(a, b)


def v_neg(a):
    if isinstance(a, Cx):
        return Cx(neg(a.re), neg(a.im))
    return neg(a)


def v_div(a, b):
    if isinstance(b, Cx):
        raise Untranslatable("division by a complex value")
    if isinstance(a, Cx):
        return Cx(div(a.re, b), div(a.im, b))
    return div(a, b)


# --------------------------------------------------------------------------
# printers
# --------------------------------------------------------------------------

FN_COQ = {"cos": "cos", "sin": "sin", "exp": "exp", "sqrt": "sqrt", "ln": "ln", "abs": "Rabs",
          "logistic": "logistic", "lgamma": "lgamma"}


def coq_q(fr):
    n, d = fr.numerator, fr.denominator
    if d == 1:
        return "%d" % n if n >= 0 else "(%d)" % n
    return "(%d / %d)" % (n, d) if n >= 0 else "((%d) / %d)" % (n, d)


SUBST = {}    # key of an expression -> Coq text printed instead (named sub-definitions)


def shallow(e, idx=None):
    """Coq term of type R.  `idx`: names printed as applications to the
    component index k."""
    idx = idx or ()
    if SUBST:
        k = e.key()
        if k in SUBST:
            return SUBST[k]
    o = e.op
    if o == "const":
        return coq_q(e.val)
    if o == "pi":
        return "PI"
    if o == "var":
        return "(%s k)" % e.val if e.val in idx else e.val
    if o in ("add", "sub", "mul", "div"):
        sym = {"add": "+", "sub": "-", "mul": "*", "div": "/"}[o]
        return "(%s %s %s)" % (shallow(e.args[0], idx), sym, shallow(e.args[1], idx))
    if o == "neg":
        return "(- %s)" % shallow(e.args[0], idx)
    if o == "powi":
        if e.val >= 0:
            return "(%s ^ %d)" % (shallow(e.args[0], idx), e.val)
        return "(/ (%s ^ %d))" % (shallow(e.args[0], idx), -e.val)
    if o == "rpow":
        return "(rpow %s %s)" % (shallow(e.args[0], idx), shallow(e.args[1], idx))
    if o == "fn":
        return "(%s %s)" % (FN_COQ[e.val], shallow(e.args[0], idx))
    if o == "where":
        c, a, b = e.args
        return "(if %s then %s else %s)" % (shallow_cond(c, idx), shallow(a, idx), shallow(b, idx))
    if o == "sumk":
        return "(rsum (fun k => %s) K)" % shallow(e.args[0], idx)
    raise Untranslatable("printer: " + o)


def shallow_cond(c, idx=None):
    o = c.op
    if o == "eqc":
        return "(Req_EM_T %s %s)" % (shallow(c.args[0], idx), shallow(c.args[1], idx))
    raise Untranslatable("condition printer: " + o)


def deep(e):
    """Coq term of type Base.RExpr.rexpr (variables by name string)."""
    o = e.op
    if o == "const":
        return "(RC %s)" % coq_q(e.val)
    if o == "pi":
        return "RPi"
    if o == "var":
        return '(RV "%s"%%string)' % e.val
    if o in ("add", "sub", "mul", "div"):
        c = {"add": "RAdd", "sub": "RSub", "mul": "RMul", "div": "RDiv"}[o]
        return "(%s %s %s)" % (c, deep(e.args[0]), deep(e.args[1]))
    if o == "neg":
        return "(RNeg %s)" % deep(e.args[0])
    if o == "powi":
        return "(RPowZ %s (%d)%%Z)" % (deep(e.args[0]), e.val)
    if o == "rpow":
        return "(RPow %s %s)" % (deep(e.args[0]), deep(e.args[1]))
    if o == "fn":
        c = {"cos": "RCos", "sin": "RSin", "exp": "RExp", "sqrt": "RSqrt", "ln": "RLn", "abs": "RAbs",
             "logistic": "RLogistic", "lgamma": "RLgamma"}[e.val]
        return "(%s %s)" % (c, deep(e.args[0]))
    if o == "where":
        c, a, b = e.args
        if c.op != "eqc":
            raise Untranslatable("deep condition " + c.op)
        return "(RWhereEq %s %s %s %s)" % (deep(c.args[0]), deep(c.args[1]), deep(a), deep(b))
    raise Untranslatable("deep printer: " + o)


def free_vars(e, acc=None):
    acc = acc if acc is not None else []
    if e.op == "var":
        if e.val not in acc:
            acc.append(e.val)
    for a in e.args:
        free_vars(a, acc)
    return acc


def uses_fn(e, name):
    if e.op == "fn" and e.val == name:
        return True
    return any(uses_fn(a, name) for a in e.args)


# --------------------------------------------------------------------------
# the interpreter
# --------------------------------------------------------------------------

def dotted(node):
    if isinstance(node, ast.Name):
        return node.id
    if isinstance(node, ast.Attribute):
        b = dotted(node.value)
        return None if b is None else b + "." + node.attr
    return None


PI_NAMES = {"jnp.pi", "np.pi", "numpy.pi", "jax.numpy.pi", "math.pi"}
INF_NAMES = {"jnp.inf", "np.inf"}
UNARY_FNS = {
    "jnp.cos": "cos", "jnp.sin": "sin", "jnp.exp": "exp", "jnp.sqrt": "sqrt", "jnp.log": "ln",
    "jnp.abs": "abs", "np.cos": "cos", "np.sin": "sin", "np.exp": "exp", "np.sqrt": "sqrt", "np.log": "ln",
    "jax.lax.logistic": "logistic", "jax.scipy.special.gammaln": "lgamma", "jax.nn.sigmoid": "logistic",
}


class Interp:
    """Symbolic execution of straight-line numeric Python."""

    def __init__(self, env, extra_calls=None, attr_values=None):
        self.env = dict(env)
        self.extra_calls = extra_calls or {}
        self.attr_values = attr_values or {}
        self.returned = None

    # -- statements
    def run(self, stmts):
        for st in stmts:
            if self.returned is not None:
                break
            self.stmt(st)
        return self.returned

    def stmt(self, st):
        if isinstance(st, ast.Expr) and isinstance(st.value, ast.Constant) and isinstance(st.value.value, str):
            return  # docstring
        if isinstance(st, ast.Assign):
            if len(st.targets) != 1:
                raise Untranslatable("multiple assignment targets")
            self.assign(st.targets[0], self.expr(st.value))
            return
        if isinstance(st, ast.Return):
            self.returned = self.expr(st.value)
            return
        if isinstance(st, ast.Pass):
            return
        raise Untranslatable("statement %s at line %d" % (type(st).__name__, getattr(st, "lineno", 0)))

    def assign(self, tgt, val):
        if isinstance(tgt, ast.Name):
            self.env[tgt.id] = val
        elif isinstance(tgt, ast.Tuple):
            if not isinstance(val, tuple) or len(val) != len(tgt.elts):
                raise Untranslatable("tuple assignment shape")
            for t, v in zip(tgt.elts, val):
                self.assign(t, v)
        elif isinstance(tgt, ast.Subscript):
            base = self.expr(tgt.value)
            key = self.expr(tgt.slice)
            if isinstance(base, dict) and isinstance(key, str):
                base[key] = val
            else:
                raise Untranslatable("subscript assignment")
        else:
            raise Untranslatable("assignment target " + type(tgt).__name__)

    # -- expressions
    def expr(self, n):
        if isinstance(n, ast.Constant):
            if isinstance(n.value, (int, float)) and not isinstance(n.value, bool):
                return const(n.value)
            if isinstance(n.value, complex):
                if n.value.real != 0:
                    raise Untranslatable("complex literal with real part")
                return Cx(ZERO, const(n.value.imag))
            if isinstance(n.value, str):
                return n.value
            if n.value is None:
                return None
            raise Untranslatable("constant %r" % (n.value,))
        if isinstance(n, ast.Name):
            if n.id in self.env:
                return self.env[n.id]
            raise Untranslatable("unbound name %s (line %d)" % (n.id, n.lineno))
        if isinstance(n, ast.Attribute):
            d = dotted(n)
            if d in PI_NAMES:
                return PI
            if d in self.attr_values:
                return self.attr_values[d]
            if d and d.endswith(".real"):
                v = self.expr(n.value)
                return v.re if isinstance(v, Cx) else v
            raise Untranslatable("attribute %s (line %d)" % (d, n.lineno))
        if isinstance(n, ast.Tuple):
            return tuple(self.expr(e) for e in n.elts)
        if isinstance(n, ast.List):
            return [self.expr(e) for e in n.elts]
        if isinstance(n, ast.Dict):
            out = {}
            for k, v in zip(n.keys, n.values):
                kk = self.expr(k)
                if not isinstance(kk, str):
                    raise Untranslatable("non-string dict key")
                out[kk] = self.expr(v)
            return out
        if isinstance(n, ast.UnaryOp):
            v = self.expr(n.operand)
            if isinstance(n.op, ast.USub):
                return v_neg(v)
            if isinstance(n.op, ast.UAdd):
                return v
            raise Untranslatable("unary op")
        if isinstance(n, ast.BinOp):
            return self.binop(n)
        if isinstance(n, ast.Subscript):
            return self.subscript(n)
        if isinstance(n, ast.Call):
            return self.call(n)
        if isinstance(n, ast.Compare) and len(n.ops) == 1 and isinstance(n.ops[0], ast.Eq):
            a = self.num(self.expr(n.left))
            b = self.num(self.expr(n.comparators[0]))
            if isinstance(a, Cx) or isinstance(b, Cx):
                raise Untranslatable("complex comparison")
            return E("eqc", (a, b))
        raise Untranslatable("expression %s at line %d" % (type(n).__name__, getattr(n, "lineno", 0)))

    def num(self, v, what="operand"):
        if isinstance(v, (E, Cx)):
            return v
        raise Untranslatable("non-numeric %s: %r" % (what, type(v).__name__))

    def binop(self, n):
        return self.apply_binop(n, self.expr(n.left), self.expr(n.right))

    def apply_binop(self, n, a, b):
        a = self.num(a)
        b = self.num(b)
        if isinstance(n.op, ast.Add):
            return v_add(a, b)
        if isinstance(n.op, ast.Sub):
            return v_sub(a, b)
        if isinstance(n.op, ast.Mult):
            return v_mul(a, b)
        if isinstance(n.op, ast.Div):
            return v_div(a, b)
        if isinstance(n.op, ast.Pow):
            if isinstance(a, Cx) or isinstance(b, Cx):
                raise Untranslatable("complex power")
            if is_const(b) and b.val.denominator == 1 and abs(b.val) <= 64:
                lit = n.right
                # an integer-valued literal written as an int (x**2) is pow; 2.0 too
                return powi(a, int(b.val))
            return rpow(a, b)
        raise Untranslatable("binary op " + type(n.op).__name__)

    def subscript(self, n):
        d = dotted(n.value)
        if d and d.endswith(".shape") and isinstance(n.slice, ast.Constant) and isinstance(n.slice.value, int):
            owner = d[:-len(".shape")]
            if owner in self.attr_values.get("__shape_owners__", ()):
                return var("%s_shape%d" % (owner.replace(".", "_"), n.slice.value))
            raise Untranslatable("shape of %s" % owner)
        base = self.expr(n.value)
        sl = n.slice
        if isinstance(base, dict):
            k = self.expr(sl)
            if not isinstance(k, str) or k not in base:
                raise Untranslatable("dict lookup %r" % (k,))
            return base[k]
        if isinstance(base, (E, Cx)):
            # broadcasting subscripts [:, jnp.newaxis, jnp.newaxis] are erased
            elts = sl.elts if isinstance(sl, ast.Tuple) else [sl]
            for e in elts:
                if isinstance(e, ast.Slice) and e.lower is None and e.upper is None and e.step is None:
                    continue
                if dotted(e) in ("jnp.newaxis", "np.newaxis") or (isinstance(e, ast.Constant) and e.value is None):
                    continue
                raise Untranslatable("array subscript that is not pure broadcasting (line %d)" % n.lineno)
            return base
        if isinstance(base, (tuple, list)):
            k = self.expr(sl)
            if is_const(k) and k.val.denominator == 1:
                return base[int(k.val)]
        raise Untranslatable("subscript on %s" % type(base).__name__)

    def call(self, n):
        d = dotted(n.func)
        if d in self.extra_calls:
            args = [self.expr(a) for a in n.args]
            kw = {k.arg: self.expr(k.value) for k in n.keywords}
            return self.extra_calls[d](*args, **kw)
        if d in UNARY_FNS and len(n.args) == 1 and not n.keywords:
            a = self.num(self.expr(n.args[0]))
            name = UNARY_FNS[d]
            if isinstance(a, Cx):
                if name != "exp":
                    raise Untranslatable("complex argument of " + d)
                ea = ONE if is_const(a.re, 0) else fn("exp", a.re)
                return Cx(mul(ea, fn("cos", a.im)), mul(ea, fn("sin", a.im)))
            return fn(name, a)
        if d in ("jnp.log10", "np.log10") and len(n.args) == 1:
            a = self.num(self.expr(n.args[0]))
            return div(fn("ln", a), fn("ln", const(10)))
        if d in ("jnp.sum",) and len(n.args) == 1:
            kw = {k.arg: k.value for k in n.keywords}
            if set(kw) == {"axis"} and isinstance(kw["axis"], ast.Constant) and kw["axis"].value == 0:
                a = self.num(self.expr(n.args[0]))
                if isinstance(a, Cx):
                    return Cx(E("sumk", (a.re,)), E("sumk", (a.im,)))
                return E("sumk", (a,))
            raise Untranslatable("jnp.sum with other axis arguments")
        if d in ("jnp.where", "np.where") and len(n.args) == 3 and not n.keywords:
            c = self.expr(n.args[0])
            a = self.num(self.expr(n.args[1]))
            b = self.num(self.expr(n.args[2]))
            if not (isinstance(c, E) and c.op == "eqc") or isinstance(a, Cx) or isinstance(b, Cx):
                raise Untranslatable("jnp.where with an unsupported condition / complex branches")
            return E("where", (c, a, b))
        if d == "jax.lax.complex" and len(n.args) == 2:
            return cx_or_real(Cx(self.num(self.expr(n.args[0])), self.num(self.expr(n.args[1]))))
        if d == "float" and len(n.args) == 1:
            return self.num(self.expr(n.args[0]))
        if d == "dict":
            out = {}
            if n.args:
                base = self.expr(n.args[0])
                if not isinstance(base, dict):
                    raise Untranslatable("dict(x) of non-dict")
                out.update(base)
            for k in n.keywords:
                out[k.arg] = self.expr(k.value)
            return out
        if isinstance(n.func, ast.Attribute) and n.func.attr == "copy" and not n.args:
            base = self.expr(n.func.value)
            if isinstance(base, dict):
                return dict(base)
        if isinstance(n.func, ast.Attribute) and n.func.attr == "pop" and len(n.args) == 1:
            base = self.expr(n.func.value)
            k = self.expr(n.args[0])
            if isinstance(base, dict) and isinstance(k, str) and k in base:
                return base.pop(k)
        raise Untranslatable("call %s (line %d)" % (d or ast.dump(n.func)[:40], n.lineno))


# --------------------------------------------------------------------------
# helpers to find things in a module
# --------------------------------------------------------------------------

def parse_file(path):
    with open(path) as f:
        src = f.read()
    return ast.parse(src), src


def find_func(tree, name, cls=None):
    body = tree.body
    if cls is not None:
        for n in body:
            if isinstance(n, ast.ClassDef) and n.name == cls:
                body = n.body
                break
        else:
            raise Untranslatable("class %s not found" % cls)
    for n in body:
        if isinstance(n, ast.FunctionDef) and n.name == name:
            return n
    raise Untranslatable("function %s%s not found" % ((cls + ".") if cls else "", name))


def arg_names(fdef):
    return [a.arg for a in fdef.args.args]


def coq_ident(name):
    return {"in": "in_", "at": "at_", "as": "as_", "end": "end_", "fun": "fun_", "let": "let_",
            "if": "if_", "then": "then_", "else": "else_", "return": "return_", "match": "match_",
            "with": "with_", "Type": "Type_", "Set": "Set_", "Prop": "Prop_", "exists": "exists_",
            "forall": "forall_"}.get(name, name)

#!/usr/bin/env python3
"""Run every claimed check (quick tier by default) on the current tree, validate
MANIFEST / evidence files against the schemas.  usage: runall.py [--tier t] [ids...]"""
import json
import os
import subprocess
import sys
import time

V = os.path.dirname(os.path.dirname(os.path.abspath(__file__)))
tier = "quick"
args = sys.argv[1:]
if "--tier" in args:
    tier = args[args.index("--tier") + 1]
    args = [a for i, a in enumerate(args) if a != "--tier" and (i == 0 or args[i - 1] != "--tier")]
man = json.load(open(os.path.join(V, "MANIFEST.json")))
ids = args or [c["property_id"] for c in man["checks"]]
bad = []
for pid in ids:
    t = time.time()
    p = subprocess.run(["./check", pid, "--tier", tier], cwd=V, stdout=subprocess.PIPE, stderr=subprocess.STDOUT, text=True)
    last = [l for l in p.stdout.splitlines() if l.startswith("[%s] OK" % pid) or l.startswith("VIOLATION") or l.startswith("KNOWN-FINDING")]
    print("%s rc=%d %.0fs %s" % (pid, p.returncode, time.time() - t, " | ".join(last)[:200]), flush=True)
    if p.returncode != 0:
        bad.append(pid)
        open(os.path.join(V, ".work", "fail_%s.log" % pid), "w").write(p.stdout)
v = subprocess.run(["python3-vt", "-c", """
import json, jsonschema, glob
jsonschema.validate(json.load(open('/verif/MANIFEST.json')), json.load(open('/root/.vp/MANIFEST.schema.json')))
sch = json.load(open('/root/.vp/EVIDENCE.schema.json'))
for c in json.load(open('/verif/MANIFEST.json'))['checks']:
    e = json.load(open(c['evidence_file']))
    jsonschema.validate(e, sch)
    cov = e['coverage']
    assert cov['obligations'] == cov['discharged'], (c['property_id'], cov['obligations'], cov['discharged'])
    assert e.get('violations', 0) == 0, c['property_id']
print('manifest + evidence valid')
"""], stdout=subprocess.PIPE, stderr=subprocess.STDOUT, text=True)
print(v.stdout[-800:])
print("FAILED:", bad if bad else "none")
sys.exit(1 if bad or v.returncode else 0)

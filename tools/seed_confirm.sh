#!/bin/bash
# usage: seed_confirm.sh Cxx   -- copies /tmp/wt_Cxx/SEED to /verif/seeded/Cxx, confirms the demo fails with / passes without the change
set -u
ID=$1; WT=${WT:-/tmp/wt_$ID}; D=/verif/seeded/$ID
mkdir -p $D && cp $WT/SEED/patch.diff $WT/SEED/demo.py $WT/SEED/meta.json $D/ 2>/dev/null
git -C $WT diff -- pysersic > $D/patch.diff
echo "== patch"; cat $D/patch.diff | head -60
echo "== demo WITH change"; (cd $WT && PYTHONPATH=$WT JAX_PLATFORMS=cpu timeout 900 /venv/bin/python -W ignore $D/demo.py > $D/demo_with.log 2>&1; rc=$?; echo "exit=$rc"; echo $rc > $D/demo_with.exit; tail -3 $D/demo_with.log)
echo "== demo WITHOUT change"; (cd ${CLEAN:-/repo} && PYTHONPATH=${CLEAN:-/repo} JAX_PLATFORMS=cpu timeout 900 /venv/bin/python -W ignore $D/demo.py > $D/demo_without.log 2>&1; rc=$?; echo "exit=$rc"; echo $rc > $D/demo_without.exit; tail -3 $D/demo_without.log)

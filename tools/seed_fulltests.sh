#!/bin/bash
# run the repository's baseline test command on each seeded worktree (sequentially), record the summary line and failing test ids
for ID in "$@"; do
  base=${ID%b}; base=${base%c}; base=${base%d}; base=${base%e}; base=${base%f}; WT=${WTPREFIX:-/tmp/wt_}$base
  (cd $WT && PYTHONPATH=$WT /venv/bin/python -m pytest -ra -q -p no:cacheprovider --timeout=900 --continue-on-collection-errors > /tmp/seedtests_$ID.log 2>&1)
  tail -1 /tmp/seedtests_$ID.log > /verif/seeded/$ID/fulltests.txt
  grep "^FAILED" /tmp/seedtests_$ID.log | sed 's/ - .*//' | sort >> /verif/seeded/$ID/fulltests.txt
  echo "$ID: $(tail -1 /tmp/seedtests_$ID.log)"
done

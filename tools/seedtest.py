#!/usr/bin/env python3
"""Apply a seeded breaking change to /repo, run the named checks, undo it, restore clean evidence.

usage: seedtest.py <seed-dir> [check ids ... | --all]     (seed-dir contains patch.diff and meta.json)
Prints, per check, whether it reported a VIOLATION (and whether a failing input was found).
"""
import json
import os
import subprocess
import sys

V = os.path.dirname(os.path.dirname(os.path.abspath(__file__)))
seed = os.path.abspath(sys.argv[1])
meta = json.load(open(os.path.join(seed, "meta.json")))
ids = sys.argv[2:]
man = json.load(open(os.path.join(V, "MANIFEST.json")))
if ids == ["--all"]:
    ids = [c["property_id"] for c in man["checks"]]
if not ids:
    ids = [meta["property"]]
assert subprocess.run(["git", "-C", "/repo", "status", "--porcelain"], stdout=subprocess.PIPE, text=True).stdout.strip() == "", "/repo is not clean"
subprocess.check_call(["git", "-C", "/repo", "apply", os.path.join(seed, "patch.diff")])
res = {}
try:
    for pid in ids:
        p = subprocess.run(["./check", pid, "--tier", "quick"], cwd=V, stdout=subprocess.PIPE, stderr=subprocess.STDOUT, text=True)
        vio = [l for l in p.stdout.splitlines() if l.startswith("VIOLATION")]
        res[pid] = {"rc": p.returncode, "violation": bool(vio), "found_input": bool(vio) and not any("no-failing-input-found" in v for v in vio),
                    "line": vio[0] if vio else "", "broken": [l for l in p.stdout.splitlines() if "obligation FAILED" in l][:6]}
        print(pid, res[pid]["rc"], res[pid]["line"], flush=True)
finally:
    subprocess.check_call(["git", "-C", "/repo", "checkout", "--", "."])
# restore clean evidence
for pid in ids:
    p = subprocess.run(["./check", pid, "--tier", "quick"], cwd=V, stdout=subprocess.PIPE, stderr=subprocess.STDOUT, text=True)
    print("clean", pid, p.returncode, flush=True)
    res[pid]["clean_rc"] = p.returncode
crp = os.path.join(seed, "check_result.json")
old = json.load(open(crp)) if os.path.exists(crp) else {}
old.update(res)          # later runs of the same check (after strengthening) replace earlier ones
json.dump(old, open(crp, "w"), indent=1)
# fold everything confirmed so far into meta.json
conf = meta.setdefault("confirmed_by_me", {})
for k, f in (("demo_with_change_exit", "demo_with.exit"), ("demo_without_change_exit", "demo_without.exit")):
    if os.path.exists(os.path.join(seed, f)):
        conf[k] = int(open(os.path.join(seed, f)).read().strip())
ft = os.path.join(seed, "fulltests.txt")
if os.path.exists(ft):
    conf["baseline_test_suite_with_change"] = open(ft).readline().strip()
conf["checks_run"] = {k: {"violation": v["violation"], "failing_input_found": v["found_input"], "clean_tree_exit": v.get("clean_rc")} for k, v in old.items()}
json.dump(meta, open(os.path.join(seed, "meta.json"), "w"), indent=1)

#!/usr/bin/env python3
"""MANIFEST.setup_cmd: build the whole Coq development from files on disk.

Regenerates coq/Gen from /repo (translator + runtime tables), then a full
`make` (.vo, never -vos) of every directory.  Offline.
"""
import os
import sys
import time

HERE = os.path.dirname(os.path.abspath(__file__))
sys.path.insert(0, HERE)
import vlib

t0 = time.time()
for d in vlib.COQ_DIRS + ["Cases"]:
    os.makedirs(os.path.join(vlib.COQ, d), exist_ok=True)
for d in ["evidence", "replays", ".work"]:
    os.makedirs(os.path.join(vlib.VERIF, d), exist_ok=True)
try:
    import gen
    rep = gen.generate_all()
    for u, (ok, msg) in sorted(rep.items()):
        print("gen %-28s %s %s" % (u, "ok" if ok else "FAILED", "" if ok else msg))
except ImportError:
    print("no generator yet")
with vlib.Lock():
    vlib.coq_project()
    rc, out = vlib.sh(["make", "-j%d" % vlib.NCPU, "-k"], cwd=vlib.COQ, timeout=3600)
print(out[-4000:])
print("setup: make rc=%d in %.0fs" % (rc, time.time() - t0))
sys.exit(0 if rc == 0 else 1)

"""Shared machinery for the per-property checks (see DESIGN.md section 3).

Runs under any python3 (no third-party imports).  The implementation side of a
correspondence is executed in a subprocess under /venv/bin/python.
"""
import fcntl
import glob
import hashlib
import json
import os
import re
import subprocess
import sys
import time

VERIF = os.path.dirname(os.path.dirname(os.path.abspath(__file__)))
COQ = os.path.join(VERIF, "coq")
REPO = os.environ.get("VERIF_REPO", "/repo")
IMPL_PY = "/venv/bin/python"
NCPU = os.cpu_count() or 4

COQ_DIRS = ["Base", "Gen", "Model", "Proofs", "Props", "Findings"]

# Axioms of the standard library (and of libraries built on it) that DESIGN
# section 8 names as admissible.  Anything else printed by Print Assumptions
# makes the obligation fail.
ALLOWED_AXIOM_PATTERNS = [
    r"^ClassicalDedekindReals\.sig_forall_dec$",
    r"^ClassicalDedekindReals\.sig_not_dec$",
    r"^FunctionalExtensionality\.functional_extensionality_dep$",
    r"^Classical_Prop\.classic$",
    r"^Eqdep\.Eq_rect_eq\.eq_rect_eq$",
    r"^ProofIrrelevance\.proof_irrelevance$",
    r"^JMeq\.JMeq_eq$",
    r"^PropExtensionality\.propositional_extensionality$",
    r"^ClassicalEpsilon\.constructive_indefinite_description$",
    r"^Epsilon\.epsilon_statement$",
    r"^Uint63\.",
    r"^PrimInt63\.",
    r"^PrimFloat\.",
    r"^FloatAxioms\.",
    r"^FloatOps\.",
    r"^Sint63\.",
    r"^PArray\.",
    r"^Coq\.Numbers\.Cyclic\.Int63\.",
    r"^Coq\.Floats\.",
]


def impl_env(extra=None):
    env = dict(os.environ)
    env["PYTHONPATH"] = REPO
    env["PYTHONHASHSEED"] = "0"
    env["JAX_PLATFORMS"] = "cpu"
    env["PYSERSIC_VERIF"] = "1"
    env["XLA_FLAGS"] = env.get("XLA_FLAGS", "")
    env["VERIF_DIR"] = VERIF
    env["VERIF_REPO"] = REPO
    env.pop("PYTHONSTARTUP", None)
    if extra:
        env.update(extra)
    return env


def sh(cmd, timeout=600, cwd=None, env=None, input=None):
    """Run a command; return (rc, combined output).  rc = 124 on timeout."""
    try:
        p = subprocess.run(
            cmd, cwd=cwd, env=env, input=input, timeout=timeout,
            stdout=subprocess.PIPE, stderr=subprocess.STDOUT, text=True,
            shell=isinstance(cmd, str),
        )
        return p.returncode, p.stdout
    except subprocess.TimeoutExpired as e:
        out = e.stdout if isinstance(e.stdout, str) else (e.stdout or b"").decode("utf8", "replace")
        return 124, out + "\n[timeout after %ss]" % timeout


class Lock:
    def __init__(self, path=None):
        self.path = path or os.path.join(COQ, ".lock")

    def __enter__(self):
        self.f = open(self.path, "w")
        fcntl.flock(self.f, fcntl.LOCK_EX)
        return self

    def __exit__(self, *a):
        fcntl.flock(self.f, fcntl.LOCK_UN)
        self.f.close()


def write_if_changed(path, text):
    try:
        with open(path) as f:
            if f.read() == text:
                return False
    except FileNotFoundError:
        pass
    os.makedirs(os.path.dirname(path), exist_ok=True)
    tmp = path + ".tmp%d" % os.getpid()
    with open(tmp, "w") as f:
        f.write(text)
    os.replace(tmp, path)
    return True


def coq_project():
    """(Re)generate _CoqProject and Makefile when the file list changed."""
    files = []
    for d in COQ_DIRS:
        files += sorted(glob.glob(os.path.join(COQ, d, "*.v")))
    rel = [os.path.relpath(f, COQ) for f in files]
    text = "-Q . PS\n-arg -w -arg -all\n" + "\n".join(rel) + "\n"
    changed = write_if_changed(os.path.join(COQ, "_CoqProject"), text)
    if changed or not os.path.exists(os.path.join(COQ, "Makefile")):
        rc, out = sh(["coq_makefile", "-f", "_CoqProject", "-o", "Makefile"], cwd=COQ, timeout=120)
        if rc != 0:
            raise RuntimeError("coq_makefile failed:\n" + out)


def coq_make(targets, timeout=1500, jobs=None):
    """make the given .vo targets (paths relative to coq/).  Returns (ok, log)."""
    coq_project()
    # stale dependency file would hide new Gen files
    cmd = ["make", "-j%d" % (jobs or NCPU), "-k"] + list(targets)
    rc, out = sh(cmd, cwd=COQ, timeout=timeout)
    return rc == 0, out


def coqc_file(path, timeout=600):
    """Compile one stand-alone file against the project (Cases, Props re-check)."""
    rc, out = sh(["coqc", "-Q", COQ, "PS", "-w", "-all", path], cwd=os.path.dirname(path), timeout=timeout)
    return rc, out


_ERR_RE = re.compile(r'File "([^"]+)", line (\d+), characters')


def first_coq_error(log):
    """(file, line, message) of the first error in a coqc / make log, or None."""
    lines = log.splitlines()
    for i, ln in enumerate(lines):
        m = _ERR_RE.search(ln)
        if m and i + 1 < len(lines) and "Error" in "\n".join(lines[i + 1:i + 3]):
            msg = "\n".join(lines[i + 1:i + 8])
            return m.group(1), int(m.group(2)), msg
    return None


def failed_make_targets(log):
    out = []
    for m in re.finditer(r"make(?:\[\d+\])?: \*\*\* \[[^\]]*?:\s*\d+:\s*([^\]\s]+)\]", log):
        out.append(m.group(1))
    return out


def parse_print_assumptions(out):
    """Parse the stdout of a Props file: returns {theorem: [axiom names]}.

    The Props files print a marker line `@@PA <name>` (via Redirect-free idiom:
    a dummy `Goal`-free `Check`) before each `Print Assumptions`; we instead
    rely on the fixed shape: the k-th Print Assumptions block belongs to the
    k-th name listed by the caller.
    """
    blocks = []
    cur = None
    for ln in out.splitlines():
        if ln.startswith("Closed under the global context"):
            blocks.append([])
            cur = None
        elif ln.startswith("Axioms:"):
            cur = []
            blocks.append(cur)
        elif cur is not None:
            m = re.match(r"^([A-Za-z_][\w\.']*)\s*(:.*)?$", ln)
            if m and not ln.startswith(" "):
                cur.append(m.group(1))
            # continuation lines (types) are indented: ignore
    return blocks


def axiom_allowed(name):
    return any(re.search(p, name) for p in ALLOWED_AXIOM_PATTERNS)


FORBIDDEN_RE = re.compile(
    r"\b(Admitted|admit|Axiom|Axioms|Parameter|Parameters|Conjecture|Conjectures|"
    r"Hypothesis|Hypotheses|Variable|Variables|Unset\s+Guard|bypass_check|"
    r"Admit\s+Obligations|type-in-type|impredicative-set|Unset\s+Universe\s+Checking|"
    r"Unset\s+Positivity)\b")


def strip_coq_comments(src):
    out = []
    depth = 0
    i = 0
    n = len(src)
    while i < n:
        if src.startswith("(*", i):
            depth += 1
            i += 2
        elif src.startswith("*)", i) and depth > 0:
            depth -= 1
            i += 2
        else:
            if depth == 0:
                out.append(src[i])
            elif src[i] == "\n":
                out.append("\n")
            i += 1
    return "".join(out)


def source_guard(paths=None):
    """Scan the development for forbidden declarations.

    `Variable`/`Hypothesis` are allowed only inside a Section.  Returns a list
    of (file, line, text) offences.
    """
    bad = []
    if paths is None:
        paths = []
        for d in COQ_DIRS:
            paths += sorted(glob.glob(os.path.join(COQ, d, "*.v")))
    for p in paths:
        try:
            src = strip_coq_comments(open(p).read())
        except OSError:
            continue
        depth = 0
        for ln_no, ln in enumerate(src.splitlines(), 1):
            s = ln.strip()
            if re.match(r"^(Section|Module\s+Type)\b", s):
                depth += 1 if s.startswith("Section") else 0
            for m in FORBIDDEN_RE.finditer(ln):
                w = m.group(1)
                if w in ("Variable", "Variables", "Hypothesis", "Hypotheses") and depth > 0:
                    continue
                if w == "admit" and re.search(r"\badmit\w", ln):
                    continue
                bad.append((os.path.relpath(p, COQ), ln_no, s))
            if re.match(r"^End\b", s) and depth > 0:
                depth -= 1
    return bad


def digest(obj):
    return hashlib.sha256(json.dumps(obj, sort_keys=True, default=str).encode()).hexdigest()[:12]


def load_known_findings():
    p = os.path.join(VERIF, "known_findings.json")
    if not os.path.exists(p):
        return {"findings": [], "fixed": []}
    return json.load(open(p))


# --------------------------------------------------------------------------
# The per-run check object
# --------------------------------------------------------------------------

class Check:
    """Collects obligations, correspondence statistics and violations of one
    run of one property and writes evidence/<id>.json at the end."""

    def __init__(self, pid, tier="quick", seed=0):
        self.pid = pid
        self.tier = tier
        self.seed = seed
        self.t0 = time.time()
        self.obligations = []      # {name, kind, ok, detail}
        self.samples = []
        self.evaluations = 0
        self.distinct = set()
        self.rule = ""
        self.explanation = ""
        self.trusted = []
        self.assumptions = []
        self.cmds = []
        self.hist = {}
        self.violations = []       # {replay, found}
        self.known = []
        self.extra = {}
        self.workdir = os.path.join(COQ, "Cases", "%s_%d" % (pid, os.getpid()))

    # ---- bookkeeping
    def oblige(self, name, kind, ok, detail=""):
        self.obligations.append({"name": name, "kind": kind, "ok": bool(ok), "detail": detail[-2000:] if detail else ""})
        if not ok:
            print("[%s] obligation FAILED: %s (%s)\n%s" % (self.pid, name, kind, (detail or "")[-1500:]), flush=True)
        return ok

    def broken(self):
        return [o for o in self.obligations if not o["ok"]]

    def count(self, key, nontrivial=True):
        self.evaluations += 1
        if nontrivial:
            self.distinct.add(key if isinstance(key, str) else digest(key))

    def bump(self, hist, key):
        self.hist.setdefault(hist, {})
        self.hist[hist][str(key)] = self.hist[hist].get(str(key), 0) + 1

    def log(self, msg):
        print("[%s %6.1fs] %s" % (self.pid, time.time() - self.t0, msg), flush=True)

    # ---- Coq side
    def guard(self):
        bad = source_guard()
        self.oblige("source-guard:no Admitted/Axiom/Parameter/unsafe flags", "guard", not bad,
                    "\n".join("%s:%d: %s" % b for b in bad))

    def regenerate_dependencies(self, props_rel):
        """Every generated unit (coq/Gen/X.v) in the import closure of the Props file is regenerated from the current source on this
        run, also when the property's own script did not list it (a proof file shared with another property may import it)."""
        import gen
        seen, todo, units = set(), [props_rel], set()
        while todo:
            rel = todo.pop()
            if rel in seen:
                continue
            seen.add(rel)
            path = os.path.join(COQ, rel)
            if not os.path.exists(path):
                continue
            src = strip_coq_comments(open(path).read())
            for m in re.finditer(r"From\s+PS\s+Require\s+(?:Import|Export)\s+(.*?)\.(?:\s|$)", src, flags=re.S):
                for mod in m.group(1).split():
                    parts = mod.split(".")
                    if len(parts) == 2:
                        if parts[0] == "Gen":
                            units.add(parts[1])
                        else:
                            todo.append("%s/%s.v" % (parts[0], parts[1]))
        done = {o["name"][len("translate:"):] for o in self.obligations if o["name"].startswith("translate:")}
        missing = sorted(u for u in units if u not in done and u in gen.UNITS)
        if missing:
            for u, (ok, msg) in gen.generate_all(only=missing).items():
                self.oblige("translate:" + u, "translate", ok, msg)

    def prove(self, props_rel, extra_targets=(), timeout=1500):
        self.regenerate_dependencies(props_rel)
        """Build Props/<x>.vo (full .vo), then re-run coqc on the Props file to
        collect Print Assumptions.  One obligation per theorem."""
        props_path = os.path.join(COQ, props_rel)
        src = open(props_path).read()
        thms = re.findall(r"^Print Assumptions\s+([\w']+)\s*\.", src, flags=re.M)
        declared = re.findall(r"^(?:Theorem|Lemma|Corollary)\s+([\w']+)", strip_coq_comments(src), flags=re.M)
        target = props_rel[:-2] + ".vo"
        cmd = "cd coq && make -j%d %s" % (NCPU, " ".join([target] + list(extra_targets)))
        self.cmds.append(cmd)
        with Lock():
            ok, log = coq_make([target] + list(extra_targets), timeout=timeout)
            pa_out = ""
            if ok:
                rc, pa_out = coqc_file(props_path, timeout=600)
                ok = rc == 0
                if not ok:
                    log += "\n" + pa_out
        if not ok:
            err = first_coq_error(log)
            detail = ("%s line %d: %s" % err) if err else log[-1500:]
            for t in (declared or ["build"]):
                self.oblige("theorem:" + t, "theorem", False, detail)
            self.build_log = log
            return False
        blocks = parse_print_assumptions(pa_out)
        missing_pa = [t for t in declared if t not in thms]
        if missing_pa:
            self.oblige("print-assumptions-present", "guard", False, "no Print Assumptions for " + ",".join(missing_pa))
        allax = set()
        for i, t in enumerate(thms):
            axs = blocks[i] if i < len(blocks) else None
            if axs is None:
                self.oblige("theorem:" + t, "theorem", False, "Print Assumptions output not found")
                continue
            badax = [a for a in axs if not axiom_allowed(a)]
            allax.update(axs)
            self.oblige("theorem:" + t, "theorem", not badax,
                        "non-admissible axioms: " + ", ".join(badax) if badax else "axioms: " + (", ".join(axs) or "none (closed under the global context)"))
        self.axioms = sorted(allax)
        self.build_log = log
        return not self.broken()

    def coq_cases(self, name, text, timeout=900):
        """Compile a generated stand-alone file under coq/Cases/<run>/; (rc, out)."""
        os.makedirs(self.workdir, exist_ok=True)
        path = os.path.join(self.workdir, name + ".v")
        with open(path, "w") as f:
            f.write(text)
        rc, out = coqc_file(path, timeout=timeout)
        return rc, out

    def coq_cases_parallel(self, files, timeout=900, jobs=None):
        """files: {name: text}.  Compile in parallel; returns {name: (rc, out)}."""
        os.makedirs(self.workdir, exist_ok=True)
        procs = {}
        names = list(files)
        results = {}
        jobs = jobs or NCPU
        idx = 0
        running = {}
        while idx < len(names) or running:
            while idx < len(names) and len(running) < jobs:
                n = names[idx]
                idx += 1
                path = os.path.join(self.workdir, n + ".v")
                with open(path, "w") as f:
                    f.write(files[n])
                logf = open(path + ".log", "w")
                p = subprocess.Popen(["timeout", str(timeout), "coqc", "-Q", COQ, "PS", "-w", "-all", path],
                                     cwd=self.workdir, stdout=logf, stderr=subprocess.STDOUT, text=True)
                running[n] = (p, logf)
            for n, (p, logf) in list(running.items()):
                if p.poll() is not None:
                    logf.close()
                    with open(os.path.join(self.workdir, n + ".v.log"), errors="replace") as lf:
                        results[n] = (p.returncode, lf.read(2000000))
                    del running[n]
            time.sleep(0.05)
        return results

    def cleanup(self):
        if os.path.isdir(self.workdir):
            import shutil
            shutil.rmtree(self.workdir, ignore_errors=True)

    # ---- implementation side
    def run_impl(self, script, payload, args=(), timeout=1800):
        """Run corr/<script> under the implementation's interpreter with a JSON
        payload; returns the parsed JSON it writes."""
        os.makedirs(self.workdir, exist_ok=True)
        inp = os.path.join(self.workdir, "in_%s.json" % digest([script, time.time()]))
        outp = inp.replace("in_", "out_")
        json.dump(payload, open(inp, "w"))
        rc, out = sh([IMPL_PY, "-W", "ignore", os.path.join(VERIF, "corr", script), inp, outp] + list(args),
                     env=impl_env({"TQDM_DISABLE": "1", "VERIF_SEED": str(self.seed)}), timeout=timeout, cwd=VERIF)
        if rc != 0 or not os.path.exists(outp):
            raise RuntimeError("implementation-side script %s failed (rc=%s):\n%s" % (script, rc, out[-3000:]))
        return json.load(open(outp))

    # ---- verdicts
    def violation(self, replay, found):
        """Record a violation.  `replay` is a JSON-able dict; `found` says whether
        a concrete failing input is included."""
        replay = dict(replay)
        replay["property"] = self.pid
        replay["broken"] = [o["name"] for o in self.broken()]
        replay["failing_input_found"] = bool(found)
        path = os.path.join(VERIF, "replays", "%s-%s.json" % (self.pid, digest(replay)))
        json.dump(replay, open(path, "w"), indent=1, default=str)
        self.violations.append({"replay": path, "found": bool(found)})
        return path

    def known_finding(self, text):
        self.known.append(text)

    def finish(self):
        self.cleanup()
        if self.broken() and not self.violations:
            # a broken obligation must never pass silently
            self.violation({"note": "obligation(s) no longer check; no failing input was searched for or found"}, False)
        wall = time.time() - self.t0
        nob = len(self.obligations)
        ndis = sum(1 for o in self.obligations if o["ok"])
        cov = {
            "obligations": nob,
            "discharged": ndis,
            "checker_cmd": " && ".join(self.cmds) if self.cmds else "cd coq && make",
            "trusted_base": self.trusted + ["axioms reported by Print Assumptions in this run: " + (", ".join(getattr(self, "axioms", [])) or "none")],
            "evaluations": self.evaluations,
            "distinct_nontrivial": len(self.distinct),
            "rule": self.rule,
            "samples": self.samples[:12] if self.samples else [o["name"] for o in self.obligations[:12]],
            "explanation": self.explanation,
            "obligation_list": [{"name": o["name"], "kind": o["kind"], "ok": o["ok"], "detail": o["detail"][:300]} for o in self.obligations],
            "input_distribution": self.hist,
            "known_findings_reported": self.known,
        }
        cov.update(self.extra)
        ev = {
            "property_id": self.pid,
            "tier": self.tier,
            "seed": int(self.seed),
            "level": "proof",
            "coverage": cov,
            "assumptions": self.assumptions,
            "wall_s": round(wall, 2),
            "violations": len(self.violations),
        }
        path = os.path.join(VERIF, "evidence", "%s.json" % self.pid)
        os.makedirs(os.path.dirname(path), exist_ok=True)
        tmp = path + ".tmp"
        json.dump(ev, open(tmp, "w"), indent=1, default=str)
        os.replace(tmp, path)
        for k in self.known:
            print("KNOWN-FINDING: property=%s %s" % (self.pid, k))
        if self.violations:
            for v in self.violations:
                print("VIOLATION property=%s replay=%s%s" % (self.pid, v["replay"], "" if v["found"] else " no-failing-input-found"))
            return 1
        print("[%s] OK: %d/%d obligations discharged, %d correspondence evaluations (%d distinct non-trivial), %.1fs"
              % (self.pid, ndis, nob, self.evaluations, len(self.distinct), wall))
        return 0
